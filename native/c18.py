"""C18 native bounded stand-in: request URL reconstruction (environ vs scope) and component-wise editing."""
import itertools
import random
from urllib.parse import urlsplit, parse_qsl

from native.harness import wsgi_environ, asgi_scope

DEFAULT = {"http": 80, "https": 443, "ws": 80, "wss": 443}


def expected_url(scheme, server, host, root, path, query):
    if host is not None:
        netloc = host
    else:
        h, p = server
        if ":" in h and not h.startswith("["):
            h = "[%s]" % h          # an IPv6 address is written in brackets inside a URL (RFC 3986 3.2.2)
        netloc = h if p == DEFAULT[scheme] else "%s:%d" % (h, p)
    return "%s://%s%s%s%s" % (scheme, netloc, root, path, ("?" + query) if query else "")


def check_construct(scheme, server, host, root, path, query):
    from baize.datastructures import URL
    v = []
    want = expected_url(scheme, server, host, root, path, query)
    hdrs = [("Host", host)] if host is not None else []
    env = wsgi_environ("GET", path, hdrs, query=query, scheme=scheme if scheme in ("http", "https") else "http", server=server,
                       script_name=root)
    env["wsgi.url_scheme"] = scheme
    sc = asgi_scope("GET", path, hdrs, query=query, scheme=scheme, server=server, root_path=root)
    try:
        uw = str(URL(environ=env))
        ua = str(URL(scope=sc))
    except Exception as e:  # noqa
        return ["construction raised %r" % e]
    if uw != want:
        v.append("environ: %r, expected %r" % (uw, want))
    if ua != want:
        v.append("scope: %r, expected %r" % (ua, want))
    if not v:
        # ... and it must have exactly the path and query it was built from (servers hand over the DECODED path: '?' or
        # '#' inside it belongs to the path)
        sp0 = urlsplit(ua)
        from urllib.parse import unquote
        if unquote(sp0.path) != root + path or sp0.query != query:
            v.append("built from path %r query %r but parses as path %r query %r fragment %r" % (root + path, query, sp0.path, sp0.query, sp0.fragment))
    if not v and host is None:
        # the URL must parse back into the components it was built from
        sp = urlsplit(ua)
        try:
            if sp.hostname != server[0].strip("[]").lower() or (sp.port or DEFAULT[scheme]) != server[1]:
                v.append("built from server %r but parses as host %r port %r" % (server, sp.hostname, sp.port))
        except ValueError as e:
            v.append("built URL %r does not parse: %r" % (ua, e))
    return v


def check_replace(url, changes):
    from baize.datastructures import URL
    v = []
    try:
        u = URL(url)
        new = u.replace(**changes)
    except Exception as e:  # noqa
        return ["replace raised %r" % e]
    before, after = urlsplit(url), urlsplit(str(new))
    def comp(s):
        return {"scheme": s.scheme, "path": s.path, "query": s.query, "fragment": s.fragment, "username": s.username,
                "password": s.password, "hostname": s.hostname, "port": s.port}
    try:
        b, a = comp(before), comp(after)
    except ValueError as e:
        return ["result does not split: %r" % e]
    want = dict(b)
    want.update({k: v for k, v in changes.items() if not (k == "hostname" and v is None)})   # hostname=None: unchanged
    if want.get("username") is None:
        want["password"] = None       # removing the user removes both; a password needs a user name
    if changes.get("hostname") and changes["hostname"].startswith("["):
        want["hostname"] = changes["hostname"][1:-1]
    if want["hostname"] is not None:
        want["hostname"] = want["hostname"].lower()
    for k in want:
        if a[k] != want[k]:
            v.append("%s: got %r, expected %r (url %r -> %r)" % (k, a[k], want[k], url, str(new)))
    return v


def check_query_helpers(url):
    from baize.datastructures import URL
    v = []
    u = URL(url)
    base = parse_qsl(u.query, keep_blank_values=True)
    inc = URL(str(u.include_query_params(a="9", z="new")))
    want = [(k, val) for k, val in base if k not in ("a", "z")]
    got = parse_qsl(inc.query, keep_blank_values=True)
    if dict(got).get("a") != "9" or dict(got).get("z") != "new" or [p for p in got if p[0] not in ("a", "z")] != want:
        v.append("include_query_params: %r" % got)
    rep = parse_qsl(URL(str(u.replace_query_params(only="1"))).query, keep_blank_values=True)
    if rep != [("only", "1")]:
        v.append("replace_query_params: %r" % rep)
    rem = parse_qsl(URL(str(u.remove_query_params("a"))).query, keep_blank_values=True)
    if rem != [p for p in base if p[0] != "a"]:
        v.append("remove_query_params: %r" % rem)
    # parameters that were not named keep their exact bytes (also percent-escapes that are not UTF-8)
    from urllib.parse import unquote_to_bytes
    def raw(q):
        return [(unquote_to_bytes(k.replace("+", " ")), unquote_to_bytes(val.replace("+", " ")))
                for k, _, val in (part.partition("=") for part in q.split("&") if part)]
    for new_u, gone in ((u.include_query_params(zz="1"), b"zz"), (u.remove_query_params("zz"), b"zz")):
        before = [p for p in raw(u.query) if p[0] != gone]
        after = [p for p in raw(URL(str(new_u)).query) if p[0] != gone]
        if before != after:
            v.append("query helper changed other parameters: %r -> %r" % (before[:4], after[:4]))
    return v


def check_repr(url):
    from baize.datastructures import URL
    u = URL(url)
    pw = urlsplit(url).password
    r = repr(u)
    if pw and pw != "********" and pw in r.replace("********", ""):
        return ["repr shows the password: %r" % r]
    return []


def replay(inputs):
    k = inputs["kind"]
    if k == "construct":
        return {"violated": check_construct(inputs["scheme"], tuple(inputs["server"]), inputs["host"], inputs["root"], inputs["path"], inputs["query"])}
    if k == "replace":
        return {"violated": check_replace(inputs["url"], inputs["changes"])}
    if k == "query":
        return {"violated": check_query_helpers(inputs["url"])}
    return {"violated": check_repr(inputs["url"])}


def bounded(tier, seed):
    rng = random.Random(seed)
    evals = 0
    distinct = set()
    failures = []
    samples = []
    for scheme in ("http", "https", "ws", "wss"):
        for server in (("h.example", 80), ("h.example", 443), ("h.example", 8080), ("127.0.0.1", 8000), ("::1", 80)):
            for host in (None, "pub.example", "pub.example:8443", "[::1]:9000"):
                for root, path, query in (("", "/", ""), ("/app", "/x/y", "a=1&b=2"), ("", "/é", "q=%C3%A9"), ("/r", "", "x")):
                    evals += 1
                    v = check_construct(scheme, server, host, root, path, query)
                    distinct.add((scheme, server, host, root, path, query))
                    if v and len(failures) < 10:
                        failures.append({"inputs": {"kind": "construct", "scheme": scheme, "server": list(server), "host": host,
                                                    "root": root, "path": path, "query": query}, "violated": v})
    # a decoded path that contains URL delimiters (known finding: pasted into the URL unquoted)
    for path in ("/a?b", "/a#b", "/a?b#c"):
        for query in ("", "x=1"):
            evals += 1
            v = check_construct("http", ("h.example", 80), "pub.example", "", path, query)
            if v and sum(1 for f in failures if f["inputs"].get("region") == "decoded-path-with-url-delimiters") < 2:
                failures.append({"inputs": {"kind": "construct", "scheme": "http", "server": ["h.example", 80], "host": "pub.example",
                                            "root": "", "path": path, "query": query, "region": "decoded-path-with-url-delimiters"},
                                 "violated": v[:2]})
    urls = []
    for scheme in ("http", "https", "ws"):
        for host in ("h", "1.2.3.4", "[::1]"):
            for port in ("", ":8080"):
                for userinfo in ("", "u@", "u:s3cr3t@", "u:pw%40x@", "u:p@ss@"):
                    urls.append("%s://%s%s%s/p/q?a=1&a=2&b=#frag" % (scheme, userinfo, host, port))
    urls += ["http://h/p?tok=%FF%FE&name=caf%E9&b=1", "http://h/p?a=%2B+x&b=%26", "http://h/p?k=%C3%A9&a=1"]
    comps = {"scheme": "https", "path": "/new", "query": "n=1", "fragment": "f2", "username": "bob", "password": "s3cr:et", "hostname": "other",
             "port": 81}
    keys = list(comps)
    for url in urls:
        subsets = [c for n in (1, 2) for c in itertools.combinations(keys, n)]
        if tier == "thorough":
            subsets += [c for c in itertools.combinations(keys, 3)]
        for sub in subsets:
            ch = {k: comps[k] for k in sub}
            if "password" in ch and "username" not in ch and urlsplit(url).username is None:
                continue      # a password needs a user name
            evals += 1
            v = check_replace(url, ch)
            distinct.add((url, sub))
            if v and len(failures) < 10:
                failures.append({"inputs": {"kind": "replace", "url": url, "changes": ch}, "violated": v})
            elif len(samples) < 3 and len(sub) == 2 and "@" in url:
                samples.append({"url": url, "changes": ch})
        # user names / passwords that contain URL delimiters (known finding: they are spliced in unquoted)
        if url.startswith("http://u:s3cr3t@h"):
            for ch in ({"password": "p/ss"}, {"password": "p?ss"}, {"password": "p#ss"}, {"username": "a:b"}, {"username": "a/b", "password": "x"}):
                evals += 1
                v = check_replace(url, ch)
                if v and sum(1 for f in failures if f["inputs"].get("region") == "userinfo-with-url-delimiters") < 3:
                    failures.append({"inputs": {"kind": "replace", "url": url, "changes": ch, "region": "userinfo-with-url-delimiters"},
                                     "violated": v[:3]})
        for ch in ({"hostname": "[::2]"}, {"hostname": "::2"}, {"hostname": "fe80::1"}, {"username": None}, {"port": None}, {"port": 0},
                   {"password": ""}):
            evals += 1
            v = check_replace(url, ch)
            if v and len(failures) < 10:
                failures.append({"inputs": {"kind": "replace", "url": url, "changes": ch}, "violated": v})
        evals += 2
        for kind, fn in (("query", check_query_helpers), ("repr", check_repr)):
            v = fn(url)
            if v and len(failures) < 10:
                failures.append({"inputs": {"kind": kind, "url": url}, "violated": v})
    return {"evaluations": evals, "distinct_nontrivial": len(distinct), "failures": failures, "samples": samples,
            "rule": "construction: schemes {http,https,ws,wss} x servers (default / non-default port, IPv4, IPv6) x Host header "
                    "{absent, name, name:port, IPv6:port} x (root, path, query) from environ and from scope; replace: 90 URLs "
                    "(named / IPv4 / IPv6 host, port, user, password incl. an escaped and a literal '@') x every subset of <= 2 (thorough: 3) "
                    "components, observed through urlsplit; query helpers; repr never shows the password",
            "exhaustive": False}
