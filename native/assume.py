"""Validation of ASSUMED contracts of the standard library on the interpreter the library runs on.

The proofs are relative to assumed contracts on things outside the repository (DESIGN.md sections 8 and 15.9).  Each
validator below states one of them as an executable predicate and samples it (or, where the domain is finite - single code
points, status codes - exhausts it).  This is a bounded check of an ASSUMPTION, never part of a proof: a failure means the
proofs that use the assumption say nothing about this interpreter, and the check reports it as a checker fault (exit 3), not
as a violation of the property.  Assumptions about the environment (servers, file system races, the inner application of a
middleware), about the model itself (A-py-1, A-pyvc, A-gen-eager) and about mathematics (A-fold-ext, A-filter-total) have no
validator and stay listed as unchecked.
"""
import random
import sys
import time

MAXCP = 0x110000


def _strings(rng, alphabet, n, maxlen):
    for _ in range(n):
        yield "".join(rng.choice(alphabet) for _ in range(rng.randrange(0, maxlen + 1)))


def v_lower(rng, tier):
    """str.lower() is idempotent and neither adds nor removes CR, LF, NUL; strip() returns a substring without leading /
    trailing characters of the given set"""
    bad, n = [], 0
    for cp in range(MAXCP):
        c = chr(cp)
        lo = c.lower()
        n += 1
        if lo.lower() != lo:
            bad.append("lower not idempotent on U+%04X" % cp)
        for ch in "\n\r\0":
            if (ch in lo) != (ch in c):
                bad.append("lower changes presence of %r on U+%04X" % (ch, cp))
    for s in _strings(rng, "aAΣσς \n\r\0İıßẞǅ", 3000, 6):
        n += 1
        lo = s.lower()
        if lo.lower() != lo or any((ch in lo) != (ch in s) for ch in "\n\r\0"):
            bad.append("lower on %r" % s)
        for chars in (None, '"', " \t"):
            t = s.strip(chars) if chars else s.strip()
            if t not in s or (t and (t[0] in (chars or " \t\n\r\x0b\x0c\x1c\x1d\x1e\x1f\x85\xa0") and chars) ):
                bad.append("strip(%r) on %r" % (chars, s))
    return n, True, bad


def v_split(rng, tier):
    """s.split(sep): sep-free pieces whose sep.join is s; split(sep, 1) / partition / rpartition cut at the first / last sep"""
    bad, n = [], 0
    for sep in (",", ";", "=", ", ", "\r\n"):
        for s in _strings(rng, "ab,;= \r\n", 1500, 8):
            n += 1
            ps = s.split(sep)
            if sep.join(ps) != s or any(sep in p for p in ps) or len(ps) < 1:
                bad.append("split %r %r" % (s, sep))
            a, m, b = s.partition(sep)
            if (m and (a + m + b != s or sep in a)) or (not m and (a != s or b != "")):
                bad.append("partition %r %r" % (s, sep))
            a, m, b = s.rpartition(sep)
            if (m and (a + m + b != s or sep in b)) or (not m and (b != s or a != "")):
                bad.append("rpartition %r %r" % (s, sep))
            one = s.split(sep, 1)
            if sep.join(one) != s or (len(one) == 2 and sep in one[0]) or len(one) > 2:
                bad.append("split(_,1) %r %r" % (s, sep))
    return n, False, bad


def v_lines(rng, tier):
    """str.splitlines() splits exactly at \\n \\r \\r\\n \\v \\f \\x1c \\x1d \\x1e \\x85 U+2028 U+2029"""
    brk = set("\n\r\x0b\x0c\x1c\x1d\x1e\x85  ")
    bad = []
    for cp in range(MAXCP):
        c = chr(cp)
        if (len(("a" + c + "b").splitlines()) == 2) != (c in brk):
            bad.append("U+%04X" % cp)
    if "a\r\nb".splitlines() != ["a", "b"]:
        bad.append("CRLF")
    return MAXCP + 1, True, bad


def v_int(rng, tier):
    """int(s) of a decimal numeral is its value, str(n) the canonical numeral, int(str(n)) == n; more than 4300 digits raise
    ValueError"""
    bad, n = [], 0
    for _ in range(4000):
        k = rng.randrange(10 ** rng.randrange(1, 40))
        n += 1
        s = str(k)
        if int(s) != k or (len(s) > 1 and s[0] == "0") or not s.isdigit():
            bad.append("str/int %d" % k)
        z = "0" * rng.randrange(0, 4) + s
        if int(z) != k:
            bad.append("leading zeros %r" % z)
        v = 0
        for ch in s:
            v = v * 10 + "0123456789".index(ch)
        if v != k:
            bad.append("positional value %r" % s)
    for digits, ok in ((4300, True), (4301, False)):
        n += 1
        try:
            int("9" * digits)
            r = True
        except ValueError:
            r = False
        if r != ok and sys.get_int_max_str_digits() == 4300:
            bad.append("digit limit at %d" % digits)
    return n, False, bad


def v_sorted(rng, tier):
    """sorted(xs) is an ordered permutation of xs (ints and tuples of ints)"""
    bad, n = [], 0
    for _ in range(2000):
        xs = [(rng.randrange(5), rng.randrange(5)) for _ in range(rng.randrange(0, 7))]
        ys = sorted(xs)
        n += 1
        if any(ys[i] > ys[i + 1] for i in range(len(ys) - 1)) or sorted(ys) != ys:
            bad.append("order %r" % xs)
        zs = list(xs)
        for y in ys:
            if y in zs:
                zs.remove(y)
            else:
                bad.append("not a permutation %r" % xs)
        if zs:
            bad.append("not a permutation %r" % xs)
    return n, False, bad


def v_dict(rng, tier):
    """dict(pairs) keeps the last value per key; iteration / items() yield each key once, with its value"""
    bad, n = [], 0
    for _ in range(3000):
        ps = [(rng.choice("abc"), rng.randrange(4)) for _ in range(rng.randrange(0, 7))]
        d = dict(ps)
        n += 1
        for k in set(k for k, _ in ps):
            if d[k] != [v for kk, v in ps if kk == k][-1]:
                bad.append("last value %r" % ps)
        its = list(d.items())
        if len(set(k for k, _ in its)) != len(its) or any(d[k] != v for k, v in its) or set(k for k, _ in its) != set(k for k, _ in ps):
            bad.append("items %r" % ps)
    return n, False, bad


def v_abc(rng, tier):
    """the collections.abc.MutableMapping mixins (update, setdefault, pop, popitem, clear) mutate only through
    __setitem__ / __delitem__"""
    import collections.abc

    class M(collections.abc.MutableMapping):
        def __init__(self):
            self.d, self.log = {}, []

        def __getitem__(self, k):
            return self.d[k]

        def __setitem__(self, k, v):
            self.log.append(("set", k, v))
            self.d[k] = v

        def __delitem__(self, k):
            self.log.append(("del", k))
            del self.d[k]

        def __iter__(self):
            return iter(self.d)

        def __len__(self):
            return len(self.d)

    bad, n = [], 0
    for _ in range(500):
        m = M()
        shadow = {}
        for _ in range(rng.randrange(1, 8)):
            op = rng.choice(["update", "update_kw", "setdefault", "pop", "popitem", "clear", "update_pairs"])
            k, v = rng.choice("abc"), rng.randrange(5)
            before = len(m.log)
            try:
                if op == "update":
                    m.update({k: v})
                elif op == "update_kw":
                    m.update(**{k: v})
                elif op == "update_pairs":
                    m.update([(k, v), ("z", v)])
                elif op == "setdefault":
                    m.setdefault(k, v)
                elif op == "pop":
                    m.pop(k, None)
                elif op == "popitem":
                    m.popitem()
                else:
                    m.clear()
            except KeyError:
                pass
            n += 1
            for e in m.log[before:]:
                if e[0] == "set":
                    shadow[e[1]] = e[2]
                else:
                    shadow.pop(e[1], None)
            if shadow != m.d:
                bad.append("%s changed the mapping outside __setitem__/__delitem__" % op)
    return n, False, bad


def v_quote(rng, tier):
    """urllib.parse.quote(s, safe=S) emits only unreserved characters, S and %HH"""
    from urllib.parse import quote
    import re
    bad, n = [], 0
    unres = "ABCDEFGHIJKLMNOPQRSTUVWXYZabcdefghijklmnopqrstuvwxyz0123456789_.-~"
    for safe in ("/", "/#%[]=:;$&()+,!?*@'~", ""):
        ok = re.compile("(?:[%s]|%%[0-9A-F]{2})*" % re.escape(unres + safe))
        step = 1 if tier == "thorough" else 7
        for cp in list(range(0, 0x3000, 1)) + list(range(0x3000, MAXCP, 97 * step)):
            if 0xD800 <= cp < 0xE000:
                continue
            n += 1
            if not ok.fullmatch(quote(chr(cp), safe=safe)):
                bad.append("quote(U+%04X, safe=%r)" % (cp, safe))
        for s in _strings(rng, "a/ %é\r\n\0?#", 500, 6):
            n += 1
            if not ok.fullmatch(quote(s, safe=safe)):
                bad.append("quote(%r)" % s)
    return n, False, bad


def v_translate(rng, tier):
    """str.translate(table) maps every character through the table (identity where absent) and concatenates"""
    bad, n = [], 0
    table = {ord('"'): '\\"', ord("\\"): "\\\\", ord(";"): "\\073", ord("\n"): "\\012", ord("x"): None}
    for s in _strings(rng, 'ab";\\\nxé', 4000, 8):
        n += 1
        want = "".join(("" if table[ord(c)] is None else table[ord(c)]) if ord(c) in table else c for c in s)
        if s.translate(table) != want:
            bad.append(repr(s))
    return n, False, bad


def v_cookie(rng, tier):
    """http.cookies._unquote inverts the \\" \\\\ \\ooo escapes inside a double-quoted string and is the identity otherwise"""
    from http import cookies
    bad, n = [], 0
    for s in _strings(rng, 'ab ";\\,é\n', 3000, 6):
        n += 1
        q = cookies._quote(s)
        if cookies._unquote(q) != s:
            bad.append("unquote(quote(%r))" % s)
        if not (len(s) >= 2 and s[0] == s[-1] == '"') and cookies._unquote(s) != s:
            bad.append("unquote is not the identity on the unquoted %r" % s)
    return n, False, bad


def v_fmt(rng, tier):
    """email.utils.formatdate(t, usegmt=True) is a function of floor(t), injective on it"""
    from email.utils import formatdate
    import math
    bad, n = [], 0
    seen = {}
    for _ in range(3000):
        t = rng.random() * 4e9
        n += 1
        a = formatdate(t, usegmt=True)
        if a != formatdate(float(math.floor(t)), usegmt=True):
            bad.append("not a function of floor: %r" % t)
        if seen.setdefault(a, math.floor(t)) != math.floor(t):
            bad.append("not injective: %r" % t)
    return n, False, bad


def v_floor(rng, tier):
    """int(x) of a non-negative float is floor(x)"""
    import math
    bad, n = [], 0
    for _ in range(5000):
        x = rng.random() * 10 ** rng.randrange(0, 12)
        n += 1
        if int(x) != math.floor(x):
            bad.append(repr(x))
    return n, False, bad


def v_dateparse(rng, tier):
    """email.utils.parsedate_to_datetime returns a datetime or raises ValueError / OverflowError - nothing else"""
    from email.utils import parsedate_to_datetime, formatdate
    import datetime
    bad, n = [], 0
    seeds = [formatdate(1e9, usegmt=True), "Mon, 01 Jan 0001 00:00:00 GMT", "", "x", "1 Jan 99999 00:00:00",
             "Thu, 01 Jan 1970 99999999999999999999:00:00 GMT", "Thu, 32 Jan 1970 00:00:00 +9999", "\0", "Thu, 01 Jan 1970 00:00:00 -0000"]
    for _ in range(3000):
        s = rng.choice(seeds)
        s = list(s)
        for _ in range(rng.randrange(0, 4)):
            if s:
                s[rng.randrange(len(s))] = rng.choice("0123456789:, -+GMTJan\0é")
        s = "".join(s)
        n += 1
        try:
            r = parsedate_to_datetime(s)
            if not isinstance(r, datetime.datetime):
                bad.append("%r -> %r" % (s, r))
        except (ValueError, OverflowError):
            pass
        except Exception as e:  # noqa
            bad.append("%r raised %s" % (s, type(e).__name__))
    return n, False, bad


def v_bytes(rng, tier):
    """bytes.decode(charset) / str.encode(charset) with an arbitrary charset name raise only LookupError (unknown codec) or a
    ValueError (UnicodeDecodeError / UnicodeEncodeError, plain UnicodeError from idna and punycode, plain ValueError for a
    name with an embedded NUL) - over every codec module of this interpreter"""
    import encodings
    import pkgutil
    bad, n = [], 0
    names = [m.name for m in pkgutil.iter_modules(encodings.__path__)] + ["", "\0", "é", "nope", "utf-8\0", "UTF_8", "Latin-1"]
    for cs in names:
        for _ in range(40 if tier == "quick" else 400):
            b = bytes(rng.randrange(256) for _ in range(rng.randrange(0, 6)))
            n += 2
            try:
                b.decode(cs)
            except (ValueError, LookupError):
                pass
            except Exception as e:  # noqa
                bad.append("%r.decode(%r) raised %s" % (b, cs, type(e).__name__))
            try:
                "".join(rng.choice("aé€\udc80\0") for _ in range(rng.randrange(0, 4))).encode(cs)
            except (ValueError, LookupError):
                pass
            except Exception as e:  # noqa
                bad.append("str.encode(%r) raised %s" % (cs, type(e).__name__))
    return n, False, bad


def v_json(rng, tier):
    """json.loads raises only JSONDecodeError, plain ValueError (integer digit limit) or RecursionError"""
    import json
    bad, n = [], 0
    seeds = ['{"a": [1, 2.5, "x", null, true]}', "[" * 50 + "]" * 50, "1" * 30, '"\\ud800"', "NaN", "", "{", "\xff", "9" * 5000,
             "[" * 100000]
    for _ in range(2000 if tier == "quick" else 20000):
        s = rng.choice(seeds)
        if len(s) < 200:
            s = list(s)
            for _ in range(rng.randrange(0, 3)):
                if s:
                    s[rng.randrange(len(s))] = rng.choice('{}[]",:0e-\\u\0 ')
            s = "".join(s)
        n += 1
        try:
            json.loads(s)
        except (ValueError, RecursionError):
            pass
        except Exception as e:  # noqa
            bad.append("%r raised %s" % (s[:40], type(e).__name__))
    return n, False, bad


def v_qsl(rng, tier):
    """urllib.parse.parse_qsl(text, keep_blank_values=True) does not raise; it inverts urlencode on string pairs"""
    from urllib.parse import parse_qsl, urlencode
    bad, n = [], 0
    for s in _strings(rng, "ab=&;%+ é\0%f%FF", 4000, 10):
        n += 1
        try:
            parse_qsl(s, keep_blank_values=True)
        except Exception as e:  # noqa
            bad.append("%r raised %s" % (s, type(e).__name__))
    for _ in range(1500):
        ps = [("".join(rng.choice("ab=& é+%") for _ in range(rng.randrange(1, 4))), "".join(rng.choice("ab=& é+%") for _ in range(rng.randrange(0, 4))))
              for _ in range(rng.randrange(1, 4))]
        n += 1
        if parse_qsl(urlencode(ps), keep_blank_values=True) != ps:
            bad.append("round trip %r" % ps)
    return n, False, bad


def v_urlsplit(rng, tier):
    """SplitResult: username / password are the parts of the text before the LAST '@' of netloc split at the first ':';
    _replace is a field-wise copy; geturl() is a function of the five fields"""
    from urllib.parse import urlsplit, SplitResult
    bad, n = [], 0
    for net in _strings(rng, "ab:@[]1.", 4000, 9):
        n += 1
        try:
            sp = urlsplit("http://" + net + "/p?q#f")
        except ValueError:
            continue
        if sp.netloc != net:
            continue
        ui, have, _ = net.rpartition("@")
        if have:
            u, hp, p = ui.partition(":")
            if sp.username != u or sp.password != (p if hp else None):
                bad.append("userinfo of %r: %r %r" % (net, sp.username, sp.password))
        elif sp.username is not None or sp.password is not None:
            bad.append("userinfo without '@' in %r" % net)
        r = sp._replace(path="/x")
        if (r.scheme, r.netloc, r.query, r.fragment, r.path) != (sp.scheme, sp.netloc, sp.query, sp.fragment, "/x"):
            bad.append("_replace on %r" % net)
        if SplitResult(*tuple(sp)).geturl() != sp.geturl():
            bad.append("geturl not a function of the fields: %r" % net)
    return n, False, bad


def v_transcode(rng, tier):
    """the WSGI transcoding pair: dec(s) = s.encode('latin-1').decode('utf-8') and enc(t) = t.encode('utf-8').decode('latin-1')
    are inverse on their domains, homomorphic for concatenation and fix ASCII"""
    bad, n = [], 0
    for t in _strings(rng, "a/é€ü%\x7f\U0001F600", 3000, 6):
        u = next(_strings(rng, "b/éß", 1, 4))
        n += 1
        enc = lambda x: x.encode("utf-8").decode("latin-1")     # noqa
        dec = lambda x: x.encode("latin-1").decode("utf-8")     # noqa
        if dec(enc(t)) != t or enc(t + u) != enc(t) + enc(u):
            bad.append(repr(t))
        if t.isascii() and enc(t) != t:
            bad.append("ascii %r" % t)
    return n, False, bad


def v_spool(rng, tier):
    """SpooledTemporaryFile: write ... seek(0) ... read(n) returns what was written, in order, also beyond max_size"""
    from tempfile import SpooledTemporaryFile
    bad, n = [], 0
    for _ in range(150):
        chunks = [bytes(rng.randrange(256) for _ in range(rng.randrange(0, 40))) for _ in range(rng.randrange(0, 6))]
        with SpooledTemporaryFile(max_size=rng.choice([8, 64, 1024]), mode="w+b") as f:
            for c in chunks:
                f.write(c)
            f.seek(0)
            got = b""
            while True:
                piece = f.read(rng.choice([1, 7, 4096]))
                if not piece:
                    break
                got += piece
        n += 1
        if got != b"".join(chunks):
            bad.append("%d chunks" % len(chunks))
    return n, False, bad


def v_fs2(rng, tier):
    """read(n) / os.read(fd, n) on a regular file return min(n, remaining) bytes; seek / lseek set the cursor"""
    import os
    import tempfile
    bad, n = [], 0
    data = bytes(rng.randrange(256) for _ in range(5000))
    fd0, path = tempfile.mkstemp(prefix="verif_assume_")
    try:
        os.write(fd0, data)
        os.close(fd0)
        for _ in range(300):
            pos, k = rng.randrange(0, 5200), rng.randrange(0, 6000)
            n += 1
            with open(path, "rb") as f:
                f.seek(pos)
                if f.read(k) != data[pos:pos + k]:
                    bad.append("read at %d count %d" % (pos, k))
            fd = os.open(path, os.O_RDONLY)
            try:
                os.lseek(fd, pos, os.SEEK_SET)
                if os.read(fd, k) != data[pos:pos + k]:
                    bad.append("os.read at %d count %d" % (pos, k))
            finally:
                os.close(fd)
    finally:
        os.unlink(path)
    return n, False, bad


def v_conc(rng, tier):
    """run_in_threadpool(f, *a) returns f(*a) (and re-raises what f raises)"""
    import asyncio
    from baize.concurrency import run_in_threadpool
    bad = []

    async def go():
        if await run_in_threadpool(lambda a, b: a - b, 5, 3) != 2:
            bad.append("result")
        try:
            await run_in_threadpool(lambda: 1 / 0)
            bad.append("exception swallowed")
        except ZeroDivisionError:
            pass
    asyncio.run(go())
    return 2, False, bad


def v_posix(rng, tier):
    """os.sep == '/'"""
    import os
    return 1, True, ([] if os.sep == "/" else ["os.sep is %r" % os.sep])


def v_path(rng, tier):
    """posixpath.join / abspath are functions of their arguments; relpath(p, d) for an absolute normalised d (one leading
    slash) and p = abspath(join(d, *segments)) is '..' or starts with '../' exactly when p is neither d nor below d"""
    import posixpath
    bad, n = [], 0
    for d in ("/srv/www", "/a", "/a/b c"):
        for rel in _strings(rng, "ab./ %", 2500, 9):
            # (as the code builds it: the request path split at '/', so no component can reset the join)
            p = posixpath.abspath(posixpath.join(d, *rel.split("/")))
            r = posixpath.relpath(p, d)
            n += 1
            inside = p == d or p.startswith(d + "/")
            if (r == ".." or r.startswith("../")) != (not inside):
                bad.append("relpath(%r, %r) = %r" % (p, d, r))
    return n, False, bad


def v_random(rng, tier):
    """random.choices(alphabet, k=n) returns n items of the alphabet"""
    import random as R
    bad, n = [], 0
    for _ in range(500):
        k = rng.randrange(0, 30)
        xs = R.choices("abc123", k=k)
        n += 1
        if len(xs) != k or any(x not in "abc123" for x in xs):
            bad.append(str(k))
    return n, False, bad


def v_httpstatus(rng, tier):
    """http.HTTPStatus phrases contain no CR / LF / NUL and codes are three digits"""
    import http
    bad = []
    for s in http.HTTPStatus:
        if not (100 <= s.value <= 999) or any(c in s.phrase for c in "\r\n\0") or not s.phrase:
            bad.append(str(s))
    return len(list(http.HTTPStatus)), True, bad


def v_latin(rng, tier):
    """encoding a Latin-1 string keeps its length and is the identity on code points"""
    bad, n = [], 0
    for s in _strings(rng, "aé\xff\0\r ", 3000, 8):
        n += 1
        b = s.encode("latin-1")
        if len(b) != len(s) or b.decode("latin-1") != s or list(b) != [ord(c) for c in s]:
            bad.append(repr(s))
    return n, False, bad


def v_re2(rng, tier):
    """pattern.fullmatch(s) <=> s in L(pattern): the translation of the repository's patterns into SMT regular expressions
    agrees with the re module on sampled words (both directions of the language lemmas rest on it)"""
    import re
    from baize.routing import CONVERTOR_TYPES
    bad, n = [], 0
    spec = {"int": r"[0-9]+", "decimal": r"[0-9]+(\.[0-9]+)?", "date": r"[0-9]{4}-[0-9]{2}-[0-9]{2}", "str": r"[^/]+",
            "uuid": r"[0-9a-f]{8}-[0-9a-f]{4}-[0-9a-f]{4}-[0-9a-f]{4}-[0-9a-f]{12}", "any": r"[\s\S]*"}
    for name, conv in CONVERTOR_TYPES.items():
        if name not in spec:
            continue
        pat = re.compile(conv.regex)
        for w in _strings(rng, "019a-f./\n١", 1500, 12):
            n += 1
            if (pat.fullmatch(w) is not None) != (re.fullmatch(spec[name], w) is not None):
                bad.append("%s on %r" % (name, w))
    return n, False, bad


VALIDATORS = {
    "A-lower": v_lower, "A-split": v_split, "A-lines-1": v_lines, "A-int-1": v_int, "A-sorted": v_sorted, "A-dict-1": v_dict,
    "A-abc-1": v_abc, "A-quote-1": v_quote, "A-translate": v_translate, "A-cookie-1": v_cookie, "A-fmt-1": v_fmt,
    "A-float-floor": v_floor, "A-date-parse": v_dateparse, "A-bytes": v_bytes, "A-json": v_json, "A-qsl": v_qsl,
    "A-urlsplit": v_urlsplit, "A-urlsplit-2": v_urlsplit, "A-transcode": v_transcode, "A-spool-1": v_spool, "A-fs-2": v_fs2,
    "A-conc-1": v_conc, "A-posix": v_posix, "A-path-1": v_path, "A-path-2": v_path, "A-random": v_random,
    "A-httpstatus": v_httpstatus, "A-latin": v_latin, "A-latin1-len": v_latin, "A-re-2": v_re2,
}

NO_VALIDATOR = {
    "A-server": "environment: the gateway server", "A-fs-1": "environment: no concurrent writer", "A-zc": "environment: the server's zero-copy send",
    "A-stat": "environment: os.stat outcome catalogue", "A-wsgi-1": "environment: wsgi.input", "A-wsgi-app": "the inner application of a middleware",
    "A-asgi-app": "the inner application of a middleware", "A-asgi-1": "environment: the ASGI server's receive script",
    "A-py-1": "the model of Python itself", "A-pyvc": "the verifier (guarded by canaries, seeded changes, CPython cross-check)",
    "A-solver": "the SMT solvers (two independent ones race)", "A-gen-eager": "modelling decision",
    "A-fold-ext": "mathematics (extensionality of folds)", "A-filter-total": "mathematics (a total filter is the identity)",
    "A-sha-1": "cryptographic: SHA-1 treated as injective", "A-time-1": "local time zone data", "A-re-1": "validated inside native C03 (reference parser)",
    "A-re-search": "validated inside native C01/C15 (reference encoder)", "A-decoder-events": "a statement about repository code, checked by native C01",
    "A-list-headers": "call-site summary of a contract that is verified (list_headers[body])",
    "A-status-table": "validated exhaustively by native C05 (100..999)", "A-url-1": "covered by A-urlsplit",
}


def validate(inputs):
    rng = random.Random(inputs.get("seed", 0))
    tier = inputs.get("tier", "quick")
    out = {}
    done = {}
    for aid in inputs["ids"]:
        fn = VALIDATORS.get(aid)
        if fn is None:
            out[aid] = {"validated": False, "reason": NO_VALIDATOR.get(aid, "no validator")}
            continue
        if fn not in done:
            t0 = time.time()
            try:
                n, exhaustive, bad = fn(rng, tier)
                done[fn] = {"validated": True, "statement": " ".join((fn.__doc__ or "").split()), "evaluations": n,
                            "exhaustive": exhaustive, "failures": bad[:5], "seconds": round(time.time() - t0, 2)}
            except Exception as e:  # noqa
                done[fn] = {"validated": False, "reason": "validator crashed: %r" % (e,), "failures": []}
        out[aid] = done[fn]
    return out
