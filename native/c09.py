"""C09 native bounded stand-in: mount tables (prefixes of each other, '' default, nesting <= 3) and host tables."""
import itertools
import random
import re

from native.harness import run_wsgi, run_asgi, wsgi_environ, asgi_scope

PREFIXES = ["", "/a", "/a/b", "/ab", "/b"]


def paths(maxlen):
    out = [""]
    for n in range(1, maxlen + 1):
        for p in itertools.product("/ab", repeat=n):
            s = "".join(p)
            if s.startswith("/"):
                out.append(s)
    return out


def spec_mount(table, path):
    for i, p in enumerate(table):
        if path == p or path.startswith(p + "/"):
            return i
    return None


def run_mounts(tables, path, root, iface):
    """nested mounts: tables[0] is the outer table; the matched entry of level i wraps level i+1 (if any)"""
    import baize.wsgi as W
    import baize.asgi as A
    seen = {}

    def leaf_w(tag):
        def app(environ, start_response):
            # PEP 3333: the environ holds the Latin-1 reading of the path bytes; the reference speaks in text
            def text(x):
                return x.encode("latin-1").decode("utf-8", "surrogateescape")
            seen["hit"] = (tag, text(environ.get("SCRIPT_NAME", "")), text(environ.get("PATH_INFO", "")))
            start_response("200 OK", [])
            return [b"ok"]
        return app

    def leaf_a(tag):
        async def app(scope, receive, send):
            seen["hit"] = (tag, scope.get("root_path", ""), scope["path"])
            await send({"type": "http.response.start", "status": 200, "headers": []})
            await send({"type": "http.response.body", "body": b"ok"})
        return app

    def build(level, tag):
        if level == len(tables):
            return (leaf_w if iface == "wsgi" else leaf_a)(tag)
        cls = (W if iface == "wsgi" else A).Subpaths
        return cls(*[(p, build(level + 1, tag + (i,))) for i, p in enumerate(tables[level])])

    app = build(0, ())
    if iface == "wsgi":
        env = wsgi_environ("GET", path, script_name=root)
        before = (env["SCRIPT_NAME"], env["PATH_INFO"])
        rec = run_wsgi(app, env)
        after = (env["SCRIPT_NAME"], env["PATH_INFO"])
        status = int(rec["status"].split()[0]) if rec["status"] else None
    else:
        sc = asgi_scope("GET", path, root_path=root)
        before = (sc["root_path"], sc["path"])
        rec = run_asgi(app, sc)
        after = (sc["root_path"], sc["path"])
        status = rec["status"]
    return rec, status, seen.get("hit"), before, after


def check_mounts(tables, path, root, iface):
    v = []
    rec, status, hit, before, after = run_mounts(tables, path, root, iface)
    if rec["exception"] is not None:
        return ["exception %r" % rec["exception"]]
    # reference
    cur_root, cur_path, tag = root, path, ()
    ok = True
    for t in tables:
        i = spec_mount(t, cur_path)
        if i is None:
            ok = False
            break
        cur_root, cur_path, tag = cur_root + t[i], cur_path[len(t[i]):], tag + (i,)
    if ok:
        if hit is None:
            v.append("no sub-application called, expected %s" % (tag,))
        else:
            if hit[0] != tag:
                v.append("dispatched to %s, expected %s" % (hit[0], tag))
            if (hit[1], hit[2]) != (cur_root, cur_path):
                v.append("sub-app saw root/path %r, expected %r" % ((hit[1], hit[2]), (cur_root, cur_path)))
            if hit[1] + hit[2] != root + path:
                v.append("root + path changed: %r vs %r" % (hit[1] + hit[2], root + path))
    else:
        if hit is not None:
            v.append("a sub-application was called although no entry matches at some level")
        if status != 404:
            v.append("status %s, expected 404" % status)
        if len(tables) == 1 and after != before:
            v.append("request modified on a miss: %r -> %r" % (before, after))
    return v


def check_hosts(table, host, iface):
    import baize.wsgi as W
    import baize.asgi as A
    seen = {}

    def leaf_w(i):
        def app(environ, start_response):
            seen["hit"] = i
            start_response("200 OK", [])
            return [b"ok"]
        return app

    def leaf_a(i):
        async def app(scope, receive, send):
            seen["hit"] = i
            await send({"type": "http.response.start", "status": 200, "headers": []})
            await send({"type": "http.response.body", "body": b"ok"})
        return app
    v = []
    want = None
    for i, pat in enumerate(table):
        if host is not None and re.fullmatch(pat, host):
            want = i
            break
    if host is None:
        for i, pat in enumerate(table):
            if re.fullmatch(pat, ""):
                want = i
                break
    hdrs = [("Host", host)] if host is not None else []
    if iface == "wsgi":
        rec = run_wsgi(W.Hosts(*[(p, leaf_w(i)) for i, p in enumerate(table)]), wsgi_environ("GET", "/", hdrs))
        status = int(rec["status"].split()[0]) if rec["status"] else None
    else:
        rec = run_asgi(A.Hosts(*[(p, leaf_a(i)) for i, p in enumerate(table)]), asgi_scope("GET", "/", hdrs))
        status = rec["status"]
    if rec["exception"] is not None:
        return ["exception %r" % rec["exception"]]
    if want is None:
        if seen.get("hit") is not None or status != 404:
            v.append("no host pattern matches %r but status %s / entry %s" % (host, status, seen.get("hit")))
    elif seen.get("hit") != want:
        v.append("host %r dispatched to %s, first matching entry is %s" % (host, seen.get("hit"), want))
    return v


def replay(inputs):
    if inputs.get("kind") == "hosts":
        return {"violated": check_hosts(inputs["table"], inputs["host"], inputs["iface"])}
    return {"violated": check_mounts(inputs["tables"], inputs["path"], inputs["root"], inputs["iface"])}


def bounded(tier, seed):
    rng = random.Random(seed)
    evals = 0
    distinct = set()
    failures = []
    samples = []
    ps = paths(4 if tier == "quick" else 6)
    tables = []
    for n in (1, 2, 3):
        perms = list(itertools.permutations(PREFIXES, n))
        tables += perms if tier == "thorough" or n < 3 else rng.sample(perms, 20)
    for iface in ("wsgi", "asgi"):
        for t in tables:
            for path in ps:
                for root in ("", "/r"):
                    evals += 1
                    v = check_mounts([list(t)], path, root, iface)
                    if spec_mount(t, path) is not None:
                        distinct.add((iface, t, path, root))
                    if v and len(failures) < 10:
                        failures.append({"inputs": {"tables": [list(t)], "path": path, "root": root, "iface": iface}, "violated": v})
        # prefixes and paths that are not ASCII (WSGI hands the path over as the Latin-1 reading of its UTF-8 bytes)
        for t in (["/café", "/caf"], ["/caf", "/café"], ["/é", ""], ["/日本", "/日"]):
            for path in ("/café", "/café/x", "/caféx", "/caf/é", "/é", "/é/é", "/日本/語", "/日", "/x"):
                for root in ("", "/r", "/ü"):
                    evals += 1
                    v = check_mounts([t], path, root, iface)
                    if spec_mount(t, path) is not None:
                        distinct.add((iface, tuple(t), path, root))
                    if v and len(failures) < 10:
                        failures.append({"inputs": {"tables": [t], "path": path, "root": root, "iface": iface}, "violated": v})
        # nesting depth 2 and 3
        nest = [([["/a", ""], ["/b", "/a", ""]]), ([["/a"], ["/b"], ["/a", ""]]), ([["", "/a"], ["/a/b", "/a"], [""]]),
                ([["/a/b", "/a"], ["/b", ""]])]
        for tabs in nest:
            for path in ps:
                evals += 1
                v = check_mounts(tabs, path, "", iface)
                distinct.add((iface, str(tabs), path))
                if v and len(failures) < 10:
                    failures.append({"inputs": {"tables": tabs, "path": path, "root": "", "iface": iface}, "violated": v})
                elif len(samples) < 3 and len(path) > 3:
                    samples.append({"tables": tabs, "path": path, "iface": iface})
        # (patterns with a top-level alternation, a trailing '$' and a leading '^' too: the WHOLE header must match)
        hosts_tables = [[r"a\.example", r"(www\.)?example", r".*"], [r"(www\.)?example", r"a\.example"], [r"a.*", r"ab"], [],
                        [r"a\.example|b\.example", r".*\.internal"], [r"^a\.example$", r"example|ab"],
                        # (the server's own name is not the Host header: a request without one matches the pattern of "")
                        [r"testserver", r".*"], [r"testserver(:80)?", r""], [r".+"]]
        for t in hosts_tables:
            for host in (None, "", "a.example", "www.example", "example", "ab", "axexample", "a.example\n", "EXAMPLE",
                         "a.example:8000", "a.example.evil", "a.example.internal", "b.example", "xb.example", "abc", "xexample"):
                evals += 1
                v = check_hosts(t, host, iface)
                distinct.add((iface, str(t), host))
                if v and len(failures) < 10:
                    failures.append({"inputs": {"kind": "hosts", "table": t, "host": host, "iface": iface}, "violated": v})
    return {"evaluations": evals, "distinct_nontrivial": len(distinct), "failures": failures, "samples": samples,
            "rule": "mount tables of 1..3 prefixes from ['', '/a', '/a/b', '/ab', '/b'] in every order (3: sample in quick) x all "
                    "paths over {/,a,b} up to length %d x initial root in {'', '/r'}; non-ASCII prefixes and paths; nested tables of depth 2-3; host tables (incl. top-level alternations) x 16 "
                    "Host values; both interfaces, against a reference written from the statement" % (4 if tier == "quick" else 6),
            "exhaustive": False}
