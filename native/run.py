"""/venv/bin/python -m native.run bounded <module> <tier> <seed> | replay <module> <json inputs>
prints one JSON document on stdout."""
import importlib
import json
import os
import sys

sys.path.insert(0, os.environ.get("VERIF_REPO", "/repo"))
sys.path.insert(0, os.path.dirname(os.path.dirname(os.path.abspath(__file__))))


def main():
    cmd, mod = sys.argv[1], sys.argv[2]
    m = importlib.import_module("native." + mod)
    if cmd == "bounded":
        out = m.bounded(sys.argv[3], int(sys.argv[4]))
    elif cmd == "replay":
        fn = getattr(m, sys.argv[4] if len(sys.argv) > 4 else "replay")
        out = fn(json.loads(sys.argv[3]))
    else:
        raise SystemExit("usage")
    json.dump(out, sys.stdout, default=str)


if __name__ == "__main__":
    main()
