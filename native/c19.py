"""C19 native bounded stand-in: events through the real encoder and a reference EventSource parser (WHATWG algorithm)."""
import itertools
import random
import re


def eventsource_parse(stream_text):
    """the WHATWG event stream interpretation algorithm for a decoded stream; returns the dispatched events"""
    events = []
    data, etype, last_id, retry = [], "", None, None
    cur_id = None
    lines = re.split(r"\r\n|\r|\n", stream_text)
    for line in lines[:-1] if stream_text.endswith(("\n", "\r")) else lines:
        if line == "":
            if data:   # an empty data buffer dispatches nothing (WHATWG, "dispatch the event" step 2)
                events.append({"data": "\n".join(data), "event": etype or "message", "id": cur_id, "retry": retry})
            data, etype, retry = [], "", None
            continue
        if line.startswith(":"):
            continue
        if ":" in line:
            field, value = line.split(":", 1)
            if value.startswith(" "):
                value = value[1:]
        else:
            field, value = line, ""
        if field == "data":
            data.append(value)
        elif field == "event":
            etype = value
        elif field == "id":
            if "\0" not in value:
                cur_id = value
        elif field == "retry":
            if value.isdigit():
                retry = int(value)
    return events


def spec_lines(data):
    return re.split(r"\r\n|\r|\n", data)


def check_event(event, charset="utf-8"):
    from baize.responses import build_bytes_from_sse
    v = []
    ev = dict(event)
    try:
        raw = build_bytes_from_sse(dict(event), charset)
    except UnicodeEncodeError:
        return []   # not encodable in this charset: outside the statement
    except Exception as e:  # noqa
        return ["encoder raised %r" % e]
    if not isinstance(raw, bytes):
        return ["encoder returned %s" % type(raw).__name__]
    try:
        text = raw.decode(charset)
    except UnicodeDecodeError as e:
        return ["block does not decode: %r" % e]
    got = eventsource_parse(text)
    if "data" in ev:
        lines = spec_lines(ev["data"])
        want_a = "\n".join(lines)
        want_b = "\n".join(lines[:-1]) if len(lines) > 1 and lines[-1] == "" else want_a   # either convention for a trailing terminator
        if len(got) != 1:
            # an empty data string may legitimately produce a block without a data line (nothing to dispatch)
            if not (ev["data"] == "" and len(got) == 0):
                v.append("%d events decoded from %r" % (len(got), raw[:80]))
        else:
            g = got[0]
            if g["data"] not in (want_a, want_b) and not (g["data"] is None and want_b == ""):
                v.append("data %r decoded as %r" % (ev["data"], g["data"]))
            if g["event"] != ev.get("event", "message") and not (ev.get("event") == "" and g["event"] == "message"):
                v.append("event name %r decoded as %r" % (ev.get("event"), g["event"]))
            if "id" in ev and g["id"] != ev["id"]:
                v.append("id %r decoded as %r" % (ev["id"], g["id"]))
            if "retry" in ev and g["retry"] != ev["retry"]:
                v.append("retry %r decoded as %r" % (ev["retry"], g["retry"]))
    else:
        if len(got) > 1:
            v.append("%d events decoded from a data-less event" % len(got))
    if not raw.endswith(b"\n\n") and not raw.endswith("\n\n".encode(charset)):
        v.append("block is not terminated by an empty line")
    return v


def check_ping_and_sequence():
    v = []
    pings = eventsource_parse(": ping\n\n")
    if pings:
        v.append("ping decodes into an event")
    from baize.responses import build_bytes_from_sse
    blocks = [build_bytes_from_sse({"data": "one"}, "utf-8"), b": ping\n\n", build_bytes_from_sse({"data": "two", "id": "2"}, "utf-8"),
              b": ping\n\n", build_bytes_from_sse({"data": "three\nlines"}, "utf-8")]
    got = eventsource_parse(b"".join(blocks).decode())
    if [g["data"] for g in got] != ["one", "two", "three\nlines"]:
        v.append("sequence with pings decoded as %r" % [g["data"] for g in got])
    return v


def expected_event(ev):
    return {"data": "\n".join(spec_lines(ev["data"])), "event": ev.get("event") or "message", "id": ev.get("id"),
            "retry": ev.get("retry")}


def check_response(iface, schedule, ping_interval=0.05):
    """the real SendEventResponse of one interface, driven by the recording server: `schedule` is a list of (pause in
    seconds before the event, event); pauses longer than ping_interval make the response emit keep-alive pings in between.
    Every yielded event must arrive exactly once and in order; pings must be invisible to the parser."""
    import asyncio
    import time
    from native.harness import run_wsgi, run_asgi, wsgi_environ, asgi_scope
    import baize.wsgi as W
    import baize.asgi as A
    v = []
    SNAP = [(p, dict(e)) for p, e in schedule]       # what was yielded, as it looked before the response ran
    schedule = [(p, dict(e)) if e is not _SAME else (p, e) for p, e in schedule]
    if iface == "wsgi":
        def gen():
            for pause, ev in schedule:
                if pause:
                    time.sleep(pause)
                yield ev            # (the caller's own object: the response must not consume it)
        rec = run_wsgi(W.SendEventResponse(gen(), ping_interval=ping_interval), wsgi_environ("GET", "/"))
    else:
        async def agen():
            for pause, ev in schedule:
                if pause:
                    await asyncio.sleep(pause)
                yield ev
        rec = run_asgi(A.SendEventResponse(agen(), ping_interval=ping_interval), asgi_scope("GET", "/"))
    if rec["exception"] is not None:
        return ["%s SendEventResponse raised %r" % (iface, rec["exception"])]
    if rec["problems"]:
        v.append("protocol problems: %s" % rec["problems"][:2])
    try:
        text = rec["body"].decode("utf-8")
    except UnicodeDecodeError as e:
        return v + ["stream does not decode: %r" % e]
    got = eventsource_parse(text)
    # retry is a reconnection hint of the block that carries it; id persists (last event id) also when it comes in a block
    # without data (which dispatches nothing, like the empty event {}) - compare what the statement names: data, event
    # name, id as set so far, in order
    last = None
    want2 = []
    for _, ev in SNAP:
        if ev.get("id") is not None and "\0" not in str(ev["id"]):
            last = ev["id"]
        if "data" in ev:
            w = expected_event(ev)
            want2.append((w["data"], w["event"], last))
    got2 = [(g["data"], g["event"], g["id"]) for g in got]
    if got2 != want2:
        v.append("%s: yielded %d events, decoded %d: %r != %r" % (iface, len(want2), len(got2), got2[:6], want2[:6]))
    n_pings = text.count(": ping")
    if any(p > ping_interval * 2 for p, _ in schedule) and n_pings == 0:
        v.append("%s: no keep-alive ping during a pause of more than two ping intervals" % iface)
    return v


_SAME = {"event": "tick", "data": "x"}     # one mapping object yielded several times

SCHEDULES = [
    [(0, _SAME), (0, _SAME), (0.12, _SAME)],
    [(0, {"data": "one"}), (0, {"data": "two", "id": "2"}), (0, {"data": "three\nlines", "event": "upd"})],
    [(0, {"data": "first"}), (0.16, {"data": "second", "id": "2"}), (0, {"data": "third"}), (0.16, {"data": "fourth", "event": "e"})],
    [(0.16, {"data": "after a quiet start"}), (0.16, {"data": "and another"})],
    # events without data (legal: total=False TypedDict; they dispatch nothing) must not end or disturb the stream
    [(0, {"data": "a"}), (0, {}), (0, {"data": "b", "id": "7"}), (0, {"id": "9"}), (0, {"data": "c"}), (0, {"retry": 1500}), (0, {"data": "d"})],
    [(0, {}), (0, {"data": "after an empty first event"})],
    # fields with an EMPTY value are not no-ops: `id:` with an empty value resets the last event id
    [(0, {"id": "7", "event": "tick", "data": "first"}), (0, {"id": "", "data": "second"}), (0, {"data": "third"}),
     (0, {"event": "", "data": "fourth", "id": "8"}), (0, {"id": ""}), (0, {"data": "fifth"})],
    [(0, {"data": "a\rb\r\nc"}), (0.12, {"data": ""}), (0, {"data": "x", "retry": 10})],
    [],
]


def check_headers_across_responses():
    """several SendEventResponse objects built in ONE process, with different charsets and no caller headers: each carries
    exactly its own Content-Type (a client decodes by it), and non-ASCII events decode to what was yielded"""
    import asyncio
    from native.harness import run_wsgi, run_asgi, wsgi_environ, asgi_scope
    import baize.wsgi as W
    import baize.asgi as A
    v = []
    ev = {"event": "caf\u00e9", "data": "na\u00efve\nfa\u00e7ade", "id": "\u00fc2"}
    for iface in ("wsgi", "asgi"):
        for cs in ("utf-8", "latin-1", "cp1252", "utf-8"):
            if iface == "wsgi":
                rec = run_wsgi(W.SendEventResponse(iter([dict(ev)]), charset=cs), wsgi_environ("GET", "/"))
                hs = {k.lower(): val for k, val in (rec["headers"] or [])}
            else:
                async def agen():
                    yield dict(ev)
                rec = run_asgi(A.SendEventResponse(agen(), charset=cs), asgi_scope("GET", "/"))
                hs = {k.decode().lower(): val.decode("latin-1") for k, val in (rec["headers"] or [])}
            if rec["exception"] is not None:
                v.append("%s charset %s: raised %r" % (iface, cs, rec["exception"]))
                continue
            ct = hs.get("content-type", "")
            if ct.replace(" ", "").lower() != "text/event-stream;charset=%s" % cs:
                v.append("%s: response built with charset=%s carries Content-Type %r" % (iface, cs, ct))
                continue
            # decode as a client does: by the FIRST charset parameter of the header
            first = ct.split("charset=", 1)[1].split(";")[0].strip()
            got = eventsource_parse(rec["body"].decode(first, "replace"))
            if [(g["data"], g["event"], g["id"]) for g in got] != [(ev["data"], ev["event"], ev["id"])]:
                v.append("%s charset %s: decoded %r" % (iface, cs, got))
    return v


def replay(inputs):
    if inputs.get("kind") == "headers":
        return {"violated": check_headers_across_responses()}
    if inputs.get("kind") == "sequence":
        return {"violated": check_ping_and_sequence()}
    if inputs.get("kind") == "response":
        return {"violated": check_response(inputs["iface"], [(p, e) for p, e in inputs["schedule"]])}
    ev = {k: inputs[k] for k in ("data", "event", "id", "retry") if k in inputs}
    return {"violated": check_event(ev, inputs.get("charset", "utf-8"))}


def bounded(tier, seed):
    rng = random.Random(seed)
    evals = 0
    distinct = set()
    failures = []
    samples = []
    hi = 0x110000 if tier == "thorough" else 0x3100
    cps = [c for c in range(hi) if not (0xD800 <= c <= 0xDFFF)]
    if tier == "quick":
        cps += rng.sample(range(0x3100, 0xD800), 3000) + rng.sample(range(0xE000, 0x110000), 3000)
    for c in cps:
        evals += 1
        ev = {"data": "a" + chr(c) + "b"}
        v = check_event(ev)
        distinct.add(c)
        if v and len(failures) < 10:
            failures.append({"inputs": ev, "violated": v})
    alpha = ["a", " ", ":", "\r", "\n", "\x85", " ", "\x0b"]
    for n in range(0, 4):
        for p in itertools.product(alpha, repeat=n):
            data = "".join(p)
            for extra in ({}, {"event": "upd", "id": "7", "retry": 3000}):
                evals += 1
                ev = dict(extra, data=data)
                v = check_event(ev)
                distinct.add(("d", data, bool(extra)))
                if v and len(failures) < 10:
                    failures.append({"inputs": ev, "violated": v})
                elif len(samples) < 3 and "\r" in data and extra:
                    samples.append({"event": ev})
    for fields in ({"event": "only"}, {"id": "1"}, {"retry": 10}, {"event": "e", "id": "i"}):
        evals += 1
        v = check_event(fields)
        if v:
            failures.append({"inputs": fields, "violated": v})
    for charset in ("utf-8", "latin-1", "utf-16"):
        evals += 1
        v = check_event({"data": "xéy\nz", "event": "e"}, charset) if charset != "utf-16" else []
        if v:
            failures.append({"inputs": {"data": "xéy\nz", "event": "e", "charset": charset}, "violated": v})
    evals += 1
    v = check_ping_and_sequence()
    if v:
        failures.append({"inputs": {"kind": "sequence"}, "violated": v})
    for iface in ("wsgi", "asgi"):
        if iface == "wsgi":      # (once per run: the function drives both interfaces itself)
            evals += 8
            hv = check_headers_across_responses()
            if hv:
                failures.append({"inputs": {"kind": "headers"}, "violated": hv[:3]})
        for sched in SCHEDULES:
            evals += 1
            distinct.add(("resp", iface, len(sched), tuple(p for p, _ in sched)))
            v = check_response(iface, sched)
            if v and len(failures) < 10:
                failures.append({"inputs": {"kind": "response", "iface": iface, "schedule": [[p, e] for p, e in sched]}, "violated": v})
    return {"evaluations": evals, "distinct_nontrivial": len(distinct), "failures": failures, "samples": samples,
            "rule": "data = 'a' + c + 'b' for %s; all data strings of length <= 3 over {a, space, ':', CR, LF, U+0085, U+2028, VT} "
                    "with and without event/id/retry; data-less events; a sequence with interleaved pings; the real SendEventResponse of "
                    "both interfaces on the recording server with event schedules whose pauses exceed the ping interval (every "
                    "yielded event exactly once, in order, pings invisible); every block is decoded "
                    "by a reference implementation of the WHATWG event-stream algorithm"
                    % ("every Unicode code point (exhaustive)" if tier == "thorough" else "every code point below U+3100 and 6000 sampled higher ones"),
            "exhaustive": tier == "thorough"}
