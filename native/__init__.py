"""Native layer (runs under /venv/bin/python, imports the real baize from /repo's working tree):
oracles written from the property statements, bounded stand-ins (exhaustive small domains; labelled bounded,
never counted as proved) and replay of solver counterexamples on the real code."""
