"""C12 native bounded stand-in: grammar-aware mutations + raw Latin-1 noise against every entry point that handles
client-controlled bytes; classifies what escapes."""
import asyncio
import io
import os
import random
import shutil
import tempfile

from native.harness import run_wsgi, run_asgi, wsgi_environ, asgi_scope

ALLOWED = ("HTTPException", "ClientDisconnect")


def classify(exc):
    from baize.exceptions import HTTPException
    if exc is None:
        return None
    if isinstance(exc, HTTPException):
        if 400 <= exc.status_code < 500:
            return None
        return "HTTPException(%s)" % exc.status_code
    n = type(exc).__name__
    if n == "ClientDisconnect":
        return None
    if n == "RuntimeError" and "Stream consumed" in str(exc):
        return None
    return n


NOISE = ["", " ", ";", "=", ",", "\x00", "\xff\xfe", "é", "a" * 5000, "9" * 5000, "-1", "1e9", "\r\n", '"', "\\", "%", "%zz", "[", "[::1", "::",
         "=?utf-8?b?x?=", "\x85", "0x10", "٣", "bytes=", "bytes=0-" + "9" * 5000, "W/", "*", "\t"]

VALID = {
    "Accept": ["text/html, application/json;q=0.9, */*;q=0.8"],
    "Content-Type": ["application/json; charset=utf-8", "multipart/form-data; boundary=abc", "application/x-www-form-urlencoded; charset=latin-1"],
    "Content-Length": ["10", "1\xb2", "\xb9", "\xb3\xb2", "+5", " 7 ", "1_0", "0x10", "1e3", "-0", "\u0661\u0662"],
    "Cookie": ['a=b; c="d\\073e"; f'],
    "Date": ["Wed, 21 Oct 2015 07:28:00 GMT", "Tue, 15 Nov 1994 08:12:31", "Tue, 15 Nov 1994 08:12:31 -0000", "15 Nov 1994 08:12",
             "1 Jan 24 99999999999999999999:00", "1 Jan 0001 00:00:00 +2300", "31 Dec 9999 23:59:59 -2300"],
    "Referer": ["http://example.com/a?b=c", "http://a:b/", "http://u:p@/", "//[", "http://u:p@a:99999/x"],
    "Host": ["example.com:8080", "a:b", "a:99999", "a:-1", "u:p@", "u:p@a:b", "[::1]:80", "[::1", "[::1]:80@", "[::1]@8\u00b5", "[:x@h", "u:[@h"],
    "Range": ["bytes=0-4,9-"],
    "If-Range": ['"abc"'],
    "If-None-Match": ['W/"abc", "def"'],
    "If-Modified-Since": ["Wed, 21 Oct 2015 07:28:00 GMT", "Tue, 15 Nov 1994 08:12:31", "Tue, 15 Nov 1994 08:12:31 -0000",
                          "1 Jan 24 99999999999999999999:00", "1 Jan 0001 00:00:00 +2300", "31 Dec 9999 23:59:59 -2300"],
}


def mutations(rng, value, n):
    out = [value] + NOISE
    for _ in range(n):
        s = list(value)
        for _ in range(rng.randrange(1, 4)):
            op = rng.randrange(4)
            pos = rng.randrange(0, len(s) + 1)
            if op == 0 and s:
                del s[min(pos, len(s) - 1)]
            elif op == 1:
                s.insert(pos, rng.choice(NOISE + list(";=,\"\\ %\x00\xff[]:")))
            elif op == 2 and s:
                s[min(pos, len(s) - 1)] = chr(rng.randrange(256))
            else:
                s = s[:pos]
        out.append("".join(s))
    return out


def latin1(s):
    return "".join(ch if ord(ch) < 256 else "?" for ch in s)


def accessors_case(iface, header, value):
    """all header-derived accessors of a request carrying `header: value`"""
    import baize.wsgi as W
    import baize.asgi as A
    value = latin1(value).replace("\r", "").replace("\n", "")
    bad = []
    if iface == "wsgi":
        req = W.Request(wsgi_environ("POST", "/p", [(header, value)], query="a=1&b=%ff"))
    else:
        req = A.Request(asgi_scope("POST", "/p", [(header, value)], query="a=1&b=%ff"))
    for name in ("accepted_types", "content_type", "content_length", "cookies", "date", "referrer", "url", "query_params", "headers", "client"):
        try:
            val = getattr(req, name)
            if name == "accepted_types":
                req.accepts("text/html")
            if name in ("url", "referrer") and val is not None:
                # what an application does with the URL object: read its components, print it
                for comp in ("scheme", "netloc", "path", "query", "fragment", "username", "password", "hostname", "port"):
                    getattr(val, comp)
                repr(val)
                str(val)
        except Exception as e:  # noqa
            c = classify(e)
            if c:
                bad.append("%s -> %s" % (name, c))
    return bad


def query_case(iface, query):
    """request accessors that read the raw query string (any bytes a client can put there, as Latin-1 text here)"""
    import baize.wsgi as W
    import baize.asgi as A
    bad = []
    if iface == "wsgi":
        env = wsgi_environ("GET", "/p", [])
        env["QUERY_STRING"] = query
        req = W.Request(env)
    else:
        sc = asgi_scope("GET", "/p", [])
        sc["query_string"] = query.encode("latin-1")
        req = A.Request(sc)
    for name in ("query_params", "url"):
        try:
            val = getattr(req, name)
            if name == "query_params":
                list(val.multi_items()), dict(val), str(val)
            else:
                val.query, repr(val)
        except Exception as e:  # noqa
            c = classify(e)
            if c:
                bad.append("%s -> %s" % (name, c))
    return bad


def body_case(iface, ctype, body):
    import baize.wsgi as W
    import baize.asgi as A
    bad = []
    ctype = latin1(ctype).replace("\r", "").replace("\n", "")
    for acc in ("json", "form"):
        try:
            if iface == "wsgi":
                req = W.Request(wsgi_environ("POST", "/", [("Content-Type", ctype)], body=body))
                getattr(req, acc)
            else:
                msgs = [{"type": "http.request", "body": body, "more_body": False}]

                async def go():
                    async def receive():
                        return msgs.pop(0) if msgs else {"type": "http.disconnect"}
                    req = A.Request(asgi_scope("POST", "/", [("Content-Type", ctype)]), receive)
                    await asyncio.wait_for(getattr(req, acc), 10)
                asyncio.run(go())
        except Exception as e:  # noqa
            c = classify(e)
            if c:
                bad.append("%s -> %s" % (acc, c))
    return bad


def path_case(iface, app_kind, path, tmpdir):
    import baize.wsgi as W
    import baize.asgi as A
    mod = W if iface == "wsgi" else A
    path = latin1(path)
    if app_kind in ("Files", "Pages"):
        app = getattr(mod, app_kind)(tmpdir)
    else:
        async def a_ep(scope, receive, send):
            await send({"type": "http.response.start", "status": 200, "headers": []})
            await send({"type": "http.response.body", "body": b""})

        def w_ep(environ, start_response):
            start_response("200 OK", [])
            return [b""]
        ep = w_ep if iface == "wsgi" else a_ep
        app = mod.Router(("/i/{x:int}", ep), ("/d/{x:decimal}", ep), ("/u/{x:uuid}", ep), ("/t/{x:date}", ep), ("/s/{x}/{y:any}", ep))
    if iface == "wsgi":
        env = wsgi_environ("GET", "/", [])
        env["PATH_INFO"] = path     # raw latin-1 as a server would pass it
        rec = run_wsgi(app, env)
    else:
        rec = run_asgi(app, asgi_scope("GET", path))
    c = classify(rec["exception"])
    return ["%s(%r) -> %s" % (app_kind, path, c)] if c else []


def static_case(iface, app_kind, path, header, value, tmpdir, query=""):
    """Files / Pages for `path` with one request header (conditional headers, Host) and a raw query string"""
    import baize.wsgi as W
    import baize.asgi as A
    mod = W if iface == "wsgi" else A
    value = latin1(value).replace("\r", "").replace("\n", "")
    app = getattr(mod, app_kind)(tmpdir)
    if iface == "wsgi":
        env = wsgi_environ("GET", path, [(header, value)])
        env["QUERY_STRING"] = query
        rec = run_wsgi(app, env)
    else:
        sc = asgi_scope("GET", path, [(header, value)])
        sc["query_string"] = query.encode("latin-1")
        rec = run_asgi(app, sc)
    c = classify(rec["exception"])
    return ["%s(%r, %s: %r, ?%r) -> %s" % (app_kind, path, header, value, query, c)] if c else []


def sparse_environ_case(drop):
    """PEP 3333: QUERY_STRING, CONTENT_TYPE, CONTENT_LENGTH, SCRIPT_NAME, PATH_INFO may be empty or absent"""
    import baize.wsgi as W
    env = wsgi_environ("GET", "/p", [])
    for k in drop:
        env.pop(k, None)
    req = W.Request(env)
    bad = []
    for name in ("accepted_types", "content_type", "content_length", "cookies", "date", "referrer", "url", "query_params", "headers", "client",
                 "method"):
        try:
            getattr(req, name)
        except Exception as e:  # noqa
            c = classify(e)
            if c:
                bad.append("%s without %s -> %s" % (name, "/".join(drop), c))
    return bad


def fileresponse_case(iface, header, value, tmpfile):
    import baize.wsgi as W
    import baize.asgi as A
    value = latin1(value).replace("\r", "").replace("\n", "")
    mod = W if iface == "wsgi" else A
    resp = mod.FileResponse(tmpfile)
    if iface == "wsgi":
        rec = run_wsgi(resp, wsgi_environ("GET", "/", [(header, value)]))
    else:
        rec = run_asgi(resp, asgi_scope("GET", "/", [(header, value)]))
    c = classify(rec["exception"])
    return ["FileResponse with %s -> %s" % (header, c)] if c else []


def multipart_case(body, boundary, charset):
    from baize.multipart_helper import parse_stream
    from baize.datastructures import UploadFile
    try:
        parse_stream(iter([body]), boundary, charset, file_factory=UploadFile)
    except Exception as e:  # noqa
        c = classify(e)
        if c:
            return ["parse_stream -> %s" % c]
    return []


REGIONS = [
    ("json/form: undecodable body or unknown charset", lambda inp, v: inp["kind"] == "body" and all(("UnicodeDecodeError" in x or "LookupError" in x) for x in v)),
    ("multipart part header without a colon", lambda inp, v: inp["kind"] == "multipart" and all("ValueError" in x for x in v)),
    ("URL from a malformed Host / Referer (urlsplit ValueError)", lambda inp, v: inp["kind"] == "accessors" and inp["header"] in ("Host", "Referer") and all(("url -> ValueError" in x or "referrer -> ValueError" in x) for x in v)),
    ("WSGI PATH_INFO that is not UTF-8 in the request URL", lambda inp, v: inp["kind"] == "accessors" and False),
    ("5000-digit integer path segment", lambda inp, v: inp["kind"] == "path" and all("ValueError" in x for x in v) and "9" * 4301 in inp["path"]),
]


def region_of(inp, v):
    for name, pred in REGIONS:
        try:
            if pred(inp, v):
                return name
        except Exception:
            pass
    return None


def replay(inputs):
    k = inputs["kind"]
    d = tempfile.mkdtemp(prefix="verif_c12_")
    try:
        p = os.path.join(d, "f.txt")
        open(p, "wb").write(b"0123456789")
        if k == "query":
            v = query_case(inputs["iface"], inputs["query"])
        elif k == "accessors":
            v = accessors_case(inputs["iface"], inputs["header"], inputs["value"])
        elif k == "body":
            v = body_case(inputs["iface"], inputs["ctype"], inputs["body"].encode("latin-1"))
        elif k == "path":
            v = path_case(inputs["iface"], inputs["app"], inputs["path"], d)
        elif k == "fileresponse":
            v = fileresponse_case(inputs["iface"], inputs["header"], inputs["value"], p)
        elif k == "static":
            os.makedirs(os.path.join(d, "sub"), exist_ok=True)
            open(os.path.join(d, "sub", "index.html"), "wb").write(b"x")
            v = static_case(inputs["iface"], inputs["app"], inputs["path"], inputs["header"], inputs["value"], d, inputs.get("query", ""))
        elif k == "sparse_environ":
            v = sparse_environ_case(inputs["drop"])
        else:
            v = multipart_case(inputs["body"].encode("latin-1"), inputs["boundary"].encode("latin-1"), inputs["charset"])
        return {"violated": v, "region": region_of(inputs, v)}
    finally:
        shutil.rmtree(d, ignore_errors=True)


def bounded(tier, seed):
    rng = random.Random(seed)
    evals = 0
    distinct = set()
    failures = []
    samples = []
    n_mut = 12 if tier == "quick" else 400
    d = tempfile.mkdtemp(prefix="verif_c12_")

    def record(inp, v):
        region = region_of(inp, v)
        inp = dict(inp, region=region)
        if v and sum(1 for f in failures if f["inputs"]["region"] == region) < 5:
            failures.append({"inputs": inp, "violated": v[:4]})

    try:
        p = os.path.join(d, "f.txt")
        open(p, "wb").write(b"0123456789")
        os.makedirs(os.path.join(d, "sub"))
        open(os.path.join(d, "sub", "index.html"), "wb").write(b"x")
        for iface in ("wsgi", "asgi"):
            for header, vals in VALID.items():
                for base in vals:
                    for val in mutations(rng, base, n_mut):
                        evals += 1
                        distinct.add((iface, header, val))
                        if header in ("Range", "If-Range"):
                            record({"kind": "fileresponse", "iface": iface, "header": header, "value": latin1(val)},
                                   fileresponse_case(iface, header, val, p))
                        record({"kind": "accessors", "iface": iface, "header": header, "value": latin1(val)}, accessors_case(iface, header, val))
            # raw query strings: any bytes, not only percent-escapes
            for query in ("", "a=1&b=2", "q=caf\xe9", "\xff=\xfe", "q=\xc3", "q=%ff%fe", "q=caf\xc3\xa9", "a=\x00", "&&==", "a" * 3000,
                          "q=\xed\xa0\x80", "\xf8\x88\x80\x80\x80"):
                evals += 1
                distinct.add((iface, "query", query))
                record({"kind": "query", "iface": iface, "query": query}, query_case(iface, query))
            bodies = [b'{"a": 1}', b'{"a": "\xff"}', b"\xff\xfe", b"a=1&b=%ff", b"\x00" * 3, b"[" * 2000, b'{"a":' + b"9" * 5000 + b"}", b"",
                      b'--b\r\nContent-Disposition: form-data; name="a"\r\n\r\nx\xff\r\n--b--\r\n']
            ctypes = ["application/json; charset=undefined", 'application/json; charset="utf8\x00"',
                      "application/x-www-form-urlencoded; charset=undefined", 'application/x-www-form-urlencoded; charset="utf8\x00"',
                      "multipart/form-data; boundary=b; charset=undefined", 'multipart/form-data; boundary=b; charset="utf8\x00"',
                      "multipart/form-data; boundary=bound\xe9ry", "multipart/form-data; boundary=----\xffform\x80", 'multipart/form-data; boundary=""',
                      "application/json", "application/json; charset=zz", "application/json; charset=utf-16", "application/x-www-form-urlencoded",
                      "application/x-www-form-urlencoded; charset=utf-8", "application/x-www-form-urlencoded; charset=nope", "multipart/form-data",
                      "multipart/form-data; boundary=b", "text/plain", "", "application/json; charset="]
            for ct in ctypes:
                for body in bodies:
                    evals += 1
                    distinct.add((iface, ct, body))
                    record({"kind": "body", "iface": iface, "ctype": ct, "body": body.decode("latin-1")}, body_case(iface, ct, body))
            paths = ["/", "/i/12", "/i/" + "9" * 5000, "/d/1.5", "/d/1x5", "/u/x", "/t/2021-13-45", "/t/0000-00-00", "/s/a/b\nc", "/f.txt", "/f.txt/x",
                     "/sub", "/sub/", "/../x", "/\x00", "/\xff", "/%ff", "/é", "//", "/sub/../f.txt", "/" + "a" * 5000, "/i/٣"]
            for pth in paths + [m for m in mutations(rng, "/sub/index.html", n_mut)]:
                for app_kind in ("Files", "Pages", "Router"):
                    evals += 1
                    distinct.add((iface, app_kind, pth))
                    record({"kind": "path", "iface": iface, "app": app_kind, "path": latin1(pth)}, path_case(iface, app_kind, pth, d))
            # the static-file apps with conditional headers on an existing file, and the Pages directory redirect (which
            # rebuilds the request URL) with a hostile Host header / query string
            for header in ("If-Modified-Since", "If-None-Match"):
                for base in VALID[header]:
                    for val in mutations(rng, base, max(4, n_mut // 3)):
                        for app_kind in ("Files", "Pages"):
                            evals += 1
                            distinct.add((iface, app_kind, header, val))
                            record({"kind": "static", "iface": iface, "app": app_kind, "path": "/f.txt", "header": header, "value": latin1(val)},
                                   static_case(iface, app_kind, "/f.txt", header, val, d))
            for host in ["example.com", "[", "[::1", "a:b:c", "\xff", ""] + NOISE[:8]:
                for query in ("", "a=1", "\xff", "%ff", "a=\xe9"):
                    evals += 1
                    distinct.add((iface, "redirect", host, query))
                    record({"kind": "static", "iface": iface, "app": "Pages", "path": "/sub", "header": "Host", "value": latin1(host), "query": query},
                           static_case(iface, "Pages", "/sub", "Host", host, d, query))
        for drop in (["QUERY_STRING"], ["CONTENT_TYPE"], ["CONTENT_LENGTH"], ["SCRIPT_NAME"], ["QUERY_STRING", "CONTENT_TYPE", "CONTENT_LENGTH", "SCRIPT_NAME"]):
            evals += 1
            distinct.add(("sparse", tuple(drop)))
            record({"kind": "sparse_environ", "drop": drop}, sparse_environ_case(drop))
        good = (b"--b\r\nContent-Disposition: form-data; name=\"a\"\r\n\r\nv\r\n--b\r\nContent-Disposition: form-data; name=\"f\"; filename=\"n\"\r\n"
                b"Content-Type: text/plain\r\n\r\ndata\r\n--b--\r\n")
        mp = [good, good[:40], good.replace(b"Content-Disposition:", b"Content-Disposition"), good.replace(b"name=\"a\"", b"name=\"\xff\""),
              b"--b\r\nno colon here\r\n\r\nv\r\n--b--\r\n", b"--b--\r\n", b"", b"--b\r\n\r\n\r\n--b--\r\n", good.replace(b"\r\n", b"\n")]
        for body in mp + [bytes(rng.randrange(256) if rng.random() < 0.03 else c for c in good) for _ in range(n_mut * 3)]:
            for charset in ("utf8", "zz", "latin-1", "undefined", "utf8\x00"):
                evals += 1
                distinct.add(("mp", body, charset))
                record({"kind": "multipart", "body": body.decode("latin-1"), "boundary": "b", "charset": charset}, multipart_case(body, b"b", charset))
    finally:
        shutil.rmtree(d, ignore_errors=True)
    return {"evaluations": evals, "distinct_nontrivial": len(distinct), "failures": failures, "samples": samples or [{"header": "Range", "value": NOISE[5]}],
            "rule": "for each of 11 request headers: the valid value, 29 noise strings and %d seeded grammar-aware mutations through "
                    "every header-derived accessor (and FileResponse for Range/If-Range); JSON / urlencoded / multipart bodies x "
                    "content types incl. unknown / unusable charsets; conditional headers (incl. zone-less and out-of-range dates) on "
                    "Files / Pages; the Pages directory redirect with hostile Host / query; WSGI environs without the optional "
                    "variables; paths (dot segments, NUL, 0xff, 5000-digit numbers, impossible dates) "
                    "through Files, Pages and a typed Router; multipart bodies with bit flips; both interfaces; an escaping "
                    "exception that is not a 4xx HTTPException / ClientDisconnect / 'Stream consumed' is a violation" % n_mut,
            "exhaustive": False}
