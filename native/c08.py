"""C08 native bounded stand-in: router first match, typed parameters, round trips, literal text."""
import datetime
import itertools
import random
import re
import uuid
from decimal import Decimal

from native.harness import run_wsgi, run_asgi, wsgi_environ, asgi_scope

SPEC = {
    "str": r"[^/]+", "int": r"[0-9]+", "decimal": r"[0-9]+(\.[0-9]+)?",
    "uuid": r"[0-9a-f]{8}-[0-9a-f]{4}-[0-9a-f]{4}-[0-9a-f]{4}-[0-9a-f]{12}", "date": r"[0-9]{4}-[0-9]{2}-[0-9]{2}",
    "any": r"[\s\S]*",
}


def spec_value(t, w):
    """the value a word of the type's language denotes; None = the word is in the shape language but denotes nothing"""
    if t in ("str", "any"):
        return w
    if t == "int":
        return int(w) if len(w) <= 4300 else None
    if t == "decimal":
        return Decimal(w)
    if t == "uuid":
        return uuid.UUID(w)
    if t == "date":
        try:
            return datetime.date(int(w[0:4]), int(w[5:7]), int(w[8:10]))
        except ValueError:
            return None


def route_match(route, path):
    from baize.routing import Route
    r = Route(route, "ep")
    try:
        return r.matches(path), None
    except Exception as e:  # noqa
        return None, e


def words(t, rng, tier):
    base = {
        "str": ["a", "a b", "é", "a.b", "x\ny", "", "a/b"],
        "int": ["0", "007", "12", "١٢", "1a", "", "-1", "1\n", "9" * 30],
        "decimal": ["1", "1.5", "1x2", "1.", ".5", "100", "1.50", "0.0", "1.2.3", "١.٢", "10.010"],
        "uuid": [str(uuid.UUID(int=i * 7919 + 1)) for i in range(3)] + ["90478484-0988-45FC-91fe-757d90136892", "x", "90478484098845fc91fe757d90136892"],
        "date": ["2021-03-07", "2021-13-45", "2020-02-29", "2021-02-29", "0000-01-01", "2021-3-7", "9999-12-31",
                 "0001-01-01", "0033-04-03", "0999-12-31", "1000-01-01", "0100-02-28", "1900-02-29", "2000-02-29"],
        "any": ["", "a", "a/b/c", "a\nb", "\n", "é/ü"],
    }[t]
    if tier == "thorough":
        alpha = {"int": "01a", "decimal": "019.x", "date": "0129-", "str": "a/.", "any": "a/\n", "uuid": "0f-"}[t]
        for n in range(0, 5 if t != "uuid" else 2):
            base += ["".join(p) for p in itertools.product(alpha, repeat=n)]
    return sorted(set(base))


def check_word(t, w):
    """violations for route '/{x:t}' against path '/'+w"""
    v = []
    in_lang = re.fullmatch(SPEC[t], w) is not None
    res, exc = route_match("/{x:%s}" % t, "/" + w)
    if exc is not None:
        return ["%s escaped for %r (expected %s)" % (type(exc).__name__, w, "a match" if in_lang and spec_value(t, w) is not None else "no match")]
    ok, params = res
    want_value = spec_value(t, w) if in_lang else None
    if in_lang and want_value is not None:
        if not ok:
            v.append("%r is in the %s language but does not match" % (w, t))
        elif params.get("x") != want_value or type(params.get("x")) is not type(want_value):
            v.append("%r converted to %r, expected %r" % (w, params.get("x"), want_value))
        else:
            # round trip: to_string gives a word of the language that converts to an equal value
            from baize.routing import CONVERTOR_TYPES
            conv = CONVERTOR_TYPES[t]
            try:
                s = conv.to_string(params["x"])
            except ValueError as e:
                if t == "str" or (t == "any"):
                    s = None
                else:
                    v.append("to_string(%r) raised %r" % (params["x"], e))
                    s = None
            if s is not None:
                if re.fullmatch(SPEC[t], s) is None:
                    v.append("to_string(%r) = %r is not in the %s language" % (params["x"], s, t))
                else:
                    back = spec_value(t, s)
                    if back != params["x"]:
                        v.append("round trip: %r -> %r -> %r" % (params["x"], s, back))
    else:
        if ok:
            v.append("%r is not a %s word (or denotes nothing) but matched with %r" % (w, t, params))
    return v


def replay_word(inputs):
    w = inputs["word"]
    out = []
    for t in (inputs.get("types") or list(SPEC)):
        out += ["[%s] %s" % (t, x) for x in check_word(t, w)]
    return {"violated": out}


def first_match_cases(rng, tier):
    pats = ["/", "/a", "/a/{x}", "/a/{x:int}", "/{y:any}", "/a/b", "/{x}/b", "/a/{x:int}/{z}", "/a.b", "/a+b", "/(a)",
            "/a}}b", "/{{x", "/a}b/{x:int}",        # literal braces
            "/p/{m:decimal}/{c}", "/s/{f:decimal}/{t:int}", "/d/{u:decimal}/{v:decimal}"]   # a convertor whose regex has a group of its own
    paths = ["/", "/a", "/a/1", "/a/b", "/a/x/y", "/b", "", "/a/", "/axb", "/a.b", "/a+b", "/aab", "/(a)", "/a/1\n",
             "/a}}b", "/a}b", "/{{x", "/{x", "/a}b/7", "/ab/7",
             "/p/1.5/usd", "/p/15/usd", "/s/2.25/3", "/s/2/3", "/d/1.5/2.5", "/d/1/2"]
    tables = [("/a/{x:int}", "/a/{x:int}"), ("/a", "/a/b", "/a"), ("/{y:any}", "/a", "/{y:any}"), ("/a/{x}", "/a/{x:int}", "/a/{x}")]
    for n in (1, 2, 3):
        allp = list(itertools.permutations(pats, n))
        tables += allp if len(allp) <= 300 else rng.sample(allp, min(len(allp), 150 if tier == "quick" else 1200))
    return tables, paths


def spec_pattern(route):
    """regex the property statement describes: literal text verbatim, placeholders by their language"""
    out = ""
    pos = 0
    for m in re.finditer(r"{([^\d]\w*)(:\w+)?}", route):
        out += re.escape(route[pos:m.start()])
        t = (m.group(2) or ":str")[1:]
        out += "(?P<%s>%s)" % (m.group(1), SPEC[t])
        pos = m.end()
    out += re.escape(route[pos:])
    return out


def spec_dispatch(table, path):
    for i, pat in enumerate(table):
        m = re.fullmatch(spec_pattern(pat), path)
        if m:
            ok = True
            for name, val in m.groupdict().items():
                t = (re.search(r"{%s(:\w+)?}" % name, pat).group(1) or ":str")[1:]
                if spec_value(t, val) is None:
                    ok = False
            if ok:
                return i
    return None


def spec_params(pat, path):
    """the typed parameters the statement promises for `path` on the route `pat` (which matches)"""
    m = re.fullmatch(spec_pattern(pat), path)
    out = {}
    for name, val in m.groupdict().items():
        t = (re.search(r"{%s(:\w+)?}" % name, pat).group(1) or ":str")[1:]
        out[name] = spec_value(t, val)
    return out


def check_table(table, path):
    import baize.wsgi as W
    import baize.asgi as A
    v = []
    want = spec_dispatch(table, path)
    hit = {}

    def mk_w(i):
        def app(environ, start_response):
            hit["w"] = (i, dict(environ.get("PATH_PARAMS", {})))
            start_response("200 OK", [])
            return [b"ok"]
        return app

    def mk_a(i):
        async def app(scope, receive, send):
            hit["a"] = (i, dict(scope.get("path_params", {})))
            await send({"type": "http.response.start", "status": 200, "headers": []})
            await send({"type": "http.response.body", "body": b"ok"})
        return app

    try:
        wr = W.Router(*[(p, mk_w(i)) for i, p in enumerate(table)])
        ar = A.Router(*[(p, mk_a(i)) for i, p in enumerate(table)])
    except Exception as e:  # noqa
        return ["router construction raised %r" % e]
    rw = run_wsgi(wr, wsgi_environ("GET", path))
    ra = run_asgi(ar, asgi_scope("GET", path))
    for iface, rec, key in (("wsgi", rw, "w"), ("asgi", ra, "a")):
        if rec["exception"] is not None:
            v.append("%s: exception %r" % (iface, rec["exception"]))
            continue
        status = int(rec["status"].split()[0]) if iface == "wsgi" else rec["status"]
        got = hit.get(key, (None, None))[0]
        if want is None:
            if status != 404 or got is not None:
                v.append("%s: no route matches but status %s / route %s called" % (iface, status, got))
        elif got != want:
            v.append("%s: route %s called, first matching route is %s" % (iface, got, want))
        else:
            wp = spec_params(table[want], path)
            gp = hit[key][1]
            if gp != wp or any(type(gp[k]) is not type(wp[k]) for k in wp):
                v.append("%s: route %s received the parameters %r, expected %r" % (iface, got, gp, wp))
    return v


def replay(inputs):
    return {"violated": check_table(inputs["table"], inputs["path"])}


def bounded(tier, seed):
    rng = random.Random(seed)
    evals = 0
    distinct = set()
    failures = []
    samples = []
    for t in SPEC:
        for w in words(t, rng, tier):
            evals += 1
            v = check_word(t, w)
            if re.fullmatch(SPEC[t], w):
                distinct.add((t, w))
            if v and len(failures) < 12:
                failures.append({"inputs": {"word": w, "types": [t]}, "violated": v, "replay_fn": "replay_word"})
    # seeded round trips
    from baize.routing import CONVERTOR_TYPES
    n = 200 if tier == "quick" else 10000
    for _ in range(n):
        for t, w in (("uuid", str(uuid.UUID(int=rng.getrandbits(128)))),
                     ("int", str(rng.randrange(10 ** rng.randrange(1, 30)))),
                     ("decimal", "%d.%s" % (rng.randrange(1000), "".join(rng.choice("0123456789") for _ in range(rng.randrange(1, 5))))),
                     ("decimal", str(rng.randrange(100000) * 10 ** rng.randrange(0, 4))),
                     ("date", (datetime.date(1999, 1, 1) + datetime.timedelta(days=rng.randrange(20000))).isoformat()),
                     ("date", datetime.date.fromordinal(rng.randrange(1, 3652059)).isoformat())):     # any year 0001..9999
            evals += 1
            v = check_word(t, w)
            distinct.add((t, w))
            if v and len(failures) < 12:
                failures.append({"inputs": {"word": w, "types": [t]}, "violated": v, "replay_fn": "replay_word"})
    tables, paths = first_match_cases(rng, tier)
    for table in tables:
        for path in paths:
            evals += 1
            v = check_table(list(table), path)
            if len(table) > 1:
                distinct.add((table, path))
            if v and len(failures) < 12:
                failures.append({"inputs": {"table": list(table), "path": path}, "violated": v})
            elif len(samples) < 3 and len(table) == 3 and spec_dispatch(table, path) == 2:
                samples.append({"table": list(table), "path": path, "dispatched_to": 2})
    return {"evaluations": evals, "distinct_nontrivial": len(distinct), "failures": failures, "samples": samples,
            "rule": "per convertor type: a word list (language members, near misses, unicode digits, newline) through "
                    "Route('/{x:T}').matches with value and round-trip checks; seeded uuid/int/decimal/date round trips; route "
                    "tables of 1..3 patterns (all orders or a seeded sample) x 14 paths on both routers against a reference "
                    "dispatcher written from the statement; distinct by (type, word) / (table, path)",
            "exhaustive": False}
