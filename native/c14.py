"""C14 native bounded stand-in: histories of file modifications and (conditional) requests on a virtualised file clock."""
import itertools
import os
import random
import shutil
import stat as statmod
import tempfile

from native.harness import run_wsgi, run_asgi, wsgi_environ, asgi_scope


class VStat:
    def __init__(self, real, mtime, ctime):
        self.st_mode = real.st_mode
        self.st_size = real.st_size
        self.st_mtime = mtime
        self.st_ctime = ctime
        self.st_ino, self.st_dev, self.st_nlink, self.st_uid, self.st_gid, self.st_atime = (
            real.st_ino, real.st_dev, real.st_nlink, real.st_uid, real.st_gid, mtime)


class Clock:
    """virtual file clock: os.stat is wrapped (in this harness process only) to report the virtual times"""

    def __init__(self):
        self.times = {}
        self.real_stat = os.stat
        os.stat = self.stat

    def stat(self, path, *a, **k):
        real = self.real_stat(path, *a, **k)
        key = os.path.abspath(path) if isinstance(path, str) else path
        if key in self.times:
            m, c = self.times[key]
            return VStat(real, m, c)
        return real

    def close(self):
        os.stat = self.real_stat


FORMS = ["etag", "weak", "list_last", "list_first_weak", "star", "date", "both", "stale_etag_and_date", "two_lines_first"]


def request(app, iface, path, headers):
    if iface == "wsgi":
        rec = run_wsgi(app, wsgi_environ("GET", path, headers))
        if rec["exception"] is not None:
            return None, rec["exception"], None
        return int(rec["status"].split()[0]), {k.lower(): v for k, v in rec["headers"]}, rec["body"]
    rec = run_asgi(app, asgi_scope("GET", path, headers))
    if rec["exception"] is not None:
        return None, rec["exception"], None
    return rec["status"], {k.decode().lower(): v.decode("latin-1") for k, v in rec["headers"]}, rec["body"]


def validators(form, resp_headers, stale_etag='"0000"'):
    et, lm = resp_headers.get("etag"), resp_headers.get("last-modified")
    if form == "etag":
        return [("If-None-Match", et)]
    if form == "weak":
        return [("If-None-Match", "W/" + et)]
    if form == "list_last":
        return [("If-None-Match", '"x", "y", ' + et)]
    if form == "list_first_weak":
        return [("If-None-Match", '"x" , W/' + et + ' ,"z"')]
    if form == "star":
        return [("If-None-Match", "*")]
    # the same list sent as two header lines (ASGI servers deliver them as two pairs, WSGI servers join them)
    if form == "two_lines_first":
        return [("If-None-Match", et), ("If-None-Match", '"other"')]
    if form == "date":
        return [("If-Modified-Since", lm)]
    if form == "both":
        return [("If-None-Match", et), ("If-Modified-Since", lm)]
    if form == "stale_etag_and_date":
        return [("If-None-Match", stale_etag), ("If-Modified-Since", lm)]


def run_history(kind, iface, history):
    """history: list of events ('rewrite_same', dt) ('rewrite_other', dt) ('touch', dt) ('get',) ('cond', j, form)
    dt = seconds the virtual clock advances before the event (0 = same second).  Returns violations."""
    import baize.wsgi as W
    import baize.asgi as A
    mod = W if iface == "wsgi" else A
    d = tempfile.mkdtemp(prefix="verif_c14_")
    clock = Clock()
    v = []
    try:
        fname = "page.html" if kind == "Pages" else "f.txt"
        p = os.path.join(d, fname)
        # ('start', fraction) as the first event: the fraction of a second at which the virtual clock starts (0.0 = a file
        # system or clock with whole-second time stamps, where "one second later" is EXACTLY the next HTTP-date)
        now = [1700000000.25]
        if history and history[0][0] == "start":
            now = [1700000000 + history[0][1]]
            history = history[1:]
        content = [b"0123456789"]
        version = [0]

        def write():
            with open(p, "wb") as f:
                f.write(content[0])
            clock.times[os.path.abspath(p)] = (now[0], now[0])

        write()
        app = getattr(mod, kind)(d)
        url = "/page" if kind == "Pages" else "/f.txt"
        responses = []   # (version at response time, time, headers)
        for ev in history:
            if ev[0] in ("rewrite_same", "rewrite_other", "touch"):
                now[0] += ev[1]
                if ev[0] == "rewrite_same":
                    content[0] = bytes((b + 1) % 256 for b in content[0])
                elif ev[0] == "rewrite_other":
                    content[0] = content[0] + b"x"
                version[0] += 1
                write()
                mods_log.append((version[0], ev[0], ev[1], now[0]))
                continue
            if ev[0] == "get":
                st, hs, body = request(app, iface, url, [])
                if st is None:
                    v.append("exception %r" % (hs,))
                    break
                if st != 200 or body != content[0]:
                    v.append("plain GET: status %s / stale body" % st)
                responses.append((version[0], now[0], hs, len(content[0])))
                continue
            if ev[0] == "cond":
                j, form = ev[1], ev[2]
                if j >= len(responses):
                    continue
                ver_j, t_j, hs_j, size_j = responses[j]
                if "etag" not in hs_j or "last-modified" not in hs_j:
                    v.append("200 response without validators")
                    break
                st, hs, body = request(app, iface, url, validators(form, hs_j))
                if st is None:
                    v.append("exception %r" % (hs,))
                    break
                unchanged = ver_j == version[0]
                mods = [m for m in mods_log if m[0] > ver_j]
                detectable = any(m[1] == "rewrite_other" or int(m[3]) > int(t_j) for m in mods)
                region = None
                if st == 304:
                    if body:
                        v.append("304 with a body")
                    if not unchanged:
                        # stale 304.  Known finding: a change within the same second, Last-Modified validator in play
                        same_second = all(int(m[3]) == int(t_j) for m in mods)
                        if same_second and form in ("date", "both", "stale_etag_and_date") and any(m[1] == "rewrite_other" for m in mods):
                            region = "same-second-size-change-with-date-validator"
                        # undetectable by construction: same size and same second (validators are mtime+size based);
                        # '*' matches any existing file by definition
                        if detectable and form != "star":
                            v.append(("stale 304 (form %s) after %s" % (form, [m[1:3] for m in mods]), region))
                else:
                    if st != 200:
                        v.append("conditional request: status %s" % st)
                    elif body != content[0]:
                        v.append("200 with stale content")
                    if unchanged and form != "stale_etag_and_date":
                        v.append("unchanged file did not revalidate (form %s): status %s" % (form, st))
                if st == 200:
                    responses.append((version[0], now[0], hs, len(content[0])))
    finally:
        clock.close()
        shutil.rmtree(d, ignore_errors=True)
    return v


mods_log = []


def check(kind, iface, history):
    del mods_log[:]
    raw = run_history(kind, iface, history)
    out, region = [], None
    for x in raw:
        if isinstance(x, tuple):
            out.append(x[0])
            region = region or x[1]
        else:
            out.append(x)
    return out, region


def replay(inputs):
    if inputs.get("tz"):
        return {"violated": check_tz(inputs["tz"]), "region": None}
    v, region = check(inputs["kind"], inputs["iface"], [tuple(e) for e in inputs["history"]])
    return {"violated": v, "region": region}


def replay_family(inputs):
    """replay driver for the conditional-request clauses of one application (Files / Pages on one interface): the solver's
    counterexample for such a clause is a header list over abstract strings, which has no meaning for a real file - it is
    instantiated by this fixed family: every validator form after no / every single modification."""
    mods = [("rewrite_same", 0), ("rewrite_same", 1), ("rewrite_other", 0), ("rewrite_other", 2), ("touch", 0), ("touch", 1)]
    out = []
    for m in [None] + mods:
        for form in FORMS:
            h = [("get",)] + ([m] if m else []) + [("cond", 0, form)]
            v, region = check(inputs["kind"], inputs["iface"], h)
            if v and region is None:
                out.append("%s: %s" % (h, v[0]))
    return {"violated": out[:5]}


def tz_probe():
    """runs in a subprocess with TZ set (see check_tz): the date validator is a GMT date, whatever the local zone - the core
    single-modification histories with the date forms"""
    out = []
    for kind in ("Files", "Pages"):
        for iface in ("wsgi", "asgi"):
            for m in (("rewrite_same", 2), ("touch", 1), ("rewrite_other", 3), None):
                for form in ("date", "both", "stale_etag_and_date", "etag"):
                    h = [("get",)] + ([m] if m else []) + [("cond", 0, form)]
                    v, region = check(kind, iface, h)
                    if v and region is None:
                        out.append("%s %s %s: %s" % (kind, iface, h, v[0]))
    return out[:5]


def check_tz(tz):
    import json as _json
    import subprocess
    import sys
    here = os.path.dirname(os.path.dirname(os.path.abspath(__file__)))
    env = dict(os.environ, TZ=tz, PYTHONPATH=os.environ.get("VERIF_REPO", "/repo") + ":" + here)
    p = subprocess.run([sys.executable, "-c", "import json, time; time.tzset(); from native import c14; print(json.dumps(c14.tz_probe()))"],
                       capture_output=True, text=True, env=env, timeout=120, cwd=here)
    if p.returncode:
        return ["probe failed under TZ=%s: %s" % (tz, p.stderr[-300:])]
    return ["TZ=%s: %s" % (tz, x) for x in _json.loads(p.stdout)]


def bounded(tier, seed):
    rng = random.Random(seed)
    evals = 0
    distinct = set()
    failures = []
    samples = []
    mods = [("rewrite_same", 0), ("rewrite_same", 1), ("rewrite_other", 0), ("rewrite_other", 2), ("touch", 0), ("touch", 1)]
    forms = FORMS
    hists = []
    for m in [None] + mods:
        for form in forms:
            h = [("get",)] + ([m] if m else []) + [("cond", 0, form)]
            hists.append(h)
    # whole-second time stamps (and a fraction just below the next second)
    for frac in (0.0, 0.999):
        for m in mods:
            for form in forms:
                hists.append([("start", frac), ("get",), m, ("cond", 0, form)])
    for m1, m2 in itertools.product(mods, repeat=2):
        for form in (forms if tier == "thorough" else ["etag", "date", "both", "list_last", "two_lines_first"]):
            hists.append([("get",), m1, ("get",), m2, ("cond", 0, form), ("cond", 1, form)])
    for _ in range(40 if tier == "quick" else 600):
        h = [("get",)]
        for _ in range(rng.randrange(2, 5)):
            r = rng.random()
            h.append(rng.choice(mods) if r < 0.5 else (("get",) if r < 0.65 else ("cond", rng.randrange(0, 3), rng.choice(forms))))
        hists.append(h)
    for kind in ("Files", "Pages"):
        for iface in ("wsgi", "asgi"):
            for h in hists:
                evals += 1
                v, region = check(kind, iface, h)
                distinct.add((kind, iface, str(h)))
                if v and sum(1 for f_ in failures if f_["inputs"]["region"] == region) < 4:
                    failures.append({"inputs": {"kind": kind, "iface": iface, "history": [list(e) for e in h], "region": region},
                                     "violated": v})
                elif len(samples) < 3 and len(h) > 4:
                    samples.append({"kind": kind, "iface": iface, "history": h})
    # the same core histories with the serving process in zones west and east of UTC (POSIX TZ rules)
    for tz in ("EST5EDT,M3.2.0,M11.1.0", "PST8PDT", "CET-1CEST,M3.5.0,M10.5.0/3", "UTC0"):
        evals += 64
        v = check_tz(tz)
        distinct.add(("tz", tz))
        if v:
            failures.append({"inputs": {"kind": "Files", "iface": "wsgi", "history": [], "region": None, "tz": tz}, "violated": v})
    return {"evaluations": evals, "distinct_nontrivial": len(distinct), "failures": failures, "samples": samples,
            "rule": "histories over {rewrite same size, rewrite other size, touch} x clock advance {0, >=1 s}, plain GET, and "
                    "conditional GET with the validators of response j in the forms %s; all single-modification histories, all "
                    "pairs of modifications, seeded longer ones; Files and Pages, both interfaces; os.stat is wrapped in the "
                    "harness process to report a virtual clock" % forms,
            "exhaustive": False}
