"""C17 native bounded stand-in: MutableMultiMapping against a plain ordered list of pairs; QueryParams round trip."""
import itertools
import random


class Ref:
    def __init__(self, pairs):
        self.l = list(pairs)

    def getlist(self, k):
        return [v for kk, v in self.l if kk == k]

    def keys(self):
        out = []
        for k, _ in self.l:
            if k not in out:
                out.append(k)
        return out


def apply(m, ref, op):
    """apply op to the real mapping and to the reference; returns a mismatch description or None"""
    name = op[0]
    r_exc = m_exc = None
    r_res = m_res = None
    try:
        if name == "set":
            _, k, v = op
            idx = [i for i, (kk, _) in enumerate(ref.l) if kk == k]
            if idx:
                ref.l = [(kk, vv) if i != idx[0] else (k, v) for i, (kk, vv) in enumerate(ref.l) if i == idx[0] or kk != k]
            else:
                ref.l.append((k, v))
        elif name == "del":
            _, k = op
            if not any(kk == k for kk, _ in ref.l):
                raise KeyError(k)
            ref.l = [(kk, vv) for kk, vv in ref.l if kk != k]
        elif name == "append":
            _, k, v = op
            ref.l.append((k, v))
        elif name == "setlist":
            _, k, vs = op
            ref.l = [(kk, vv) for kk, vv in ref.l if kk != k] + [(k, v) for v in vs]
        elif name == "poplist":
            _, k = op
            r_res = [vv for kk, vv in ref.l if kk == k]
            ref.l = [(kk, vv) for kk, vv in ref.l if kk != k]
        elif name == "pop":
            _, k = op
            vals = [vv for kk, vv in ref.l if kk == k]
            if not vals:
                raise KeyError(k)
            r_res = vals[-1]
            ref.l = [(kk, vv) for kk, vv in ref.l if kk != k]
        elif name == "popitem":
            ks = ref.keys()
            if not ks:
                raise KeyError("empty")
            r_res = "some-item"
        elif name == "setdefault":
            _, k, v = op
            vals = [vv for kk, vv in ref.l if kk == k]
            if vals:
                r_res = vals[-1]
            else:
                ref.l.append((k, v))
                r_res = v
        elif name == "update":
            _, k, v = op
            idx = [i for i, (kk, _) in enumerate(ref.l) if kk == k]
            if idx:
                ref.l = [(kk, vv) if i != idx[0] else (k, v) for i, (kk, vv) in enumerate(ref.l) if i == idx[0] or kk != k]
            else:
                ref.l.append((k, v))
        elif name == "clear":
            ref.l = []
    except KeyError as e:
        r_exc = "KeyError"
    try:
        if name == "set":
            m[op[1]] = op[2]
        elif name == "del":
            del m[op[1]]
        elif name == "append":
            m.append(op[1], op[2])
        elif name == "setlist":
            m.setlist(op[1], list(op[2]))
        elif name == "poplist":
            m_res = m.poplist(op[1])
        elif name == "pop":
            m_res = m.pop(op[1])
        elif name == "popitem":
            want_key = ref.keys()[0] if ref.keys() else None
            item = m.popitem()
            # popitem removes one KEY (all its values): the first key of the view, with its last value
            if want_key is not None and (item[0] != want_key or item[1] != ref.getlist(want_key)[-1]):
                return "popitem returned %r, the first key is %r with last value %r" % (item, want_key, ref.getlist(want_key)[-1])
            ref.l = [(kk, vv) for kk, vv in ref.l if kk != item[0]]
            m_res = "some-item"
        elif name == "setdefault":
            m_res = m.setdefault(op[1], op[2])
        elif name == "update":
            m.update({op[1]: op[2]})
        elif name == "clear":
            m.clear()
    except KeyError:
        m_exc = "KeyError"
    except Exception as e:  # noqa
        m_exc = "unexpected " + type(e).__name__
    if r_exc != m_exc:
        return "%s: reference %s, mapping %s" % (op, r_exc, m_exc)
    if r_res != m_res:
        return "%s returned %r, reference %r" % (op, m_res, r_res)
    return None


def views_agree(m, ref):
    v = []
    if m.multi_items() != ref.l:
        v.append("multi_items %r != %r" % (m.multi_items(), ref.l))
    for k in set([k for k, _ in ref.l]) | {"a", "b", "zz"}:
        if m.getlist(k) != ref.getlist(k):
            v.append("getlist(%r) %r != %r" % (k, m.getlist(k), ref.getlist(k)))
        if (k in m) != bool(ref.getlist(k)):
            v.append("membership of %r" % k)
        if ref.getlist(k) and m[k] != ref.getlist(k)[-1]:
            v.append("m[%r] = %r, last value is %r" % (k, m[k], ref.getlist(k)[-1]))
    if sorted(m.keys()) != sorted(ref.keys()) or len(m) != len(ref.keys()):
        v.append("keys/len %r (%d) vs %r" % (list(m.keys()), len(m), ref.keys()))
    elif list(m.keys()) != ref.keys():
        # "mappings built from the same pairs expose the same views": the key view follows the order of first occurrence
        # in the pair list, which is what a mapping freshly built from multi_items() shows
        v.append("key order %r, a mapping built from the same pairs has %r" % (list(m.keys()), ref.keys()))
    return v


def run_case(initial, ops):
    from baize.datastructures import MutableMultiMapping
    m = MutableMultiMapping(list(initial))
    ref = Ref(initial)
    v = views_agree(m, ref)
    for op in ops:
        mis = apply(m, ref, op)
        if mis:
            v.append(mis)
            break
        v += views_agree(m, ref)
        if v:
            break
    return v


def copy_case(initial, ops, source_kind):
    """a mapping built FROM another container (another multi-mapping, an immutable one, a list, a dict): afterwards the two are
    independent - mutating one must not show in any view of the other, and the views of each stay consistent"""
    from baize.datastructures import MutableMultiMapping, MultiMapping, QueryParams
    init = list(initial)
    if source_kind == "mutable":
        src = MutableMultiMapping(list(init))
    elif source_kind == "immutable":
        src = MultiMapping(list(init))
    elif source_kind == "query":
        src = QueryParams([(k, str(v)) for k, v in init])
        init = [(k, str(v)) for k, v in init]
    elif source_kind == "generator":
        # a one-shot iterable of pairs (the constructor is typed Iterable[Tuple]): consumed exactly once
        a = MutableMultiMapping(p for p in init)
        ref_a = Ref(init)
        v = ["generator source: " + x for x in views_agree(a, ref_a)]
        for op in ops:
            if v:
                break
            mis = apply(a, ref_a, op)
            if mis:
                v.append("generator source: " + mis)
                break
            v += ["generator source: " + x for x in views_agree(a, ref_a)]
        z = MultiMapping(zip([k for k, _ in init], [val for _, val in init]))
        if z.multi_items() != list(init) or len(z) != len(set(k for k, _ in init)):
            v.append("zip source: multi_items %r for %r" % (z.multi_items(), list(init)))
        return v
    else:
        src = list(init)
    a = MutableMultiMapping(src)
    b = MutableMultiMapping(src)          # a second one from the same source
    ref_a, ref_b, ref_src = Ref(init), Ref(init), Ref(init)
    v = []
    for op in ops:
        if source_kind == "query" and len(op) > 2 and not isinstance(op[2], tuple):
            op = (op[0], op[1], str(op[2]))
        elif source_kind == "query" and len(op) > 2:
            op = (op[0], op[1], tuple(str(x) for x in op[2]))
        mis = apply(a, ref_a, op)
        if mis:
            v.append("on the copy: " + mis)
            break
        v += ["copy: " + x for x in views_agree(a, ref_a)]
        v += ["second copy (untouched): " + x for x in views_agree(b, ref_b)]
        if not isinstance(src, list):
            v += ["source (untouched): " + x for x in views_agree(src, ref_src)]
        elif src != init:
            v.append("the source list changed: %r" % (src,))
        if v:
            break
    if not v and source_kind == "mutable" and ops:
        # ... and the other way round: mutate the source, look at the copy
        c = MutableMultiMapping(src)
        ref_c = Ref([tuple(p) for p in src.multi_items()])
        ref_s = Ref([tuple(p) for p in src.multi_items()])
        mis = apply(src, ref_s, ops[0])
        if not mis:
            v += ["copy after the source was mutated: " + x for x in views_agree(c, ref_c)]
    return v


def replay(inputs):
    if inputs.get("kind") == "copy":
        return {"violated": copy_case([tuple(p) for p in inputs["initial"]], [tuple(o) if not isinstance(o[-1], list) else (o[0], o[1], tuple(o[2])) for o in inputs["ops"]], inputs["source"])}
    if inputs.get("kind") == "query":
        return {"violated": query_case([tuple(p) for p in inputs["pairs"]])}
    return {"violated": run_case([tuple(p) for p in inputs["initial"]], [tuple(o) if not isinstance(o[-1], list) else (o[0], o[1], tuple(o[2])) for o in inputs["ops"]])}


def query_case(pairs):
    from baize.datastructures import QueryParams, FormData, MultiMapping
    v = []
    q = QueryParams(list(pairs))
    q2 = QueryParams(str(q))
    if q2 != q or q2.multi_items() != list(pairs):
        v.append("QueryParams(str(q)) = %r != %r" % (q2.multi_items(), list(pairs)))
    f = FormData(list(pairs))
    mm = MultiMapping(list(pairs))
    for k in set(k for k, _ in pairs):
        if not (q.getlist(k) == f.getlist(k) == mm.getlist(k)):
            v.append("views differ for %r" % k)
    if not (q.multi_items() == f.multi_items() == mm.multi_items()):
        v.append("multi_items differ")
    return v


def bounded(tier, seed):
    rng = random.Random(seed)
    evals = 0
    distinct = set()
    failures = []
    samples = []
    keys, vals = ["a", "b"], [1, 2]
    pairs = [(k, v) for k in keys for v in vals]
    initials = [()]
    for n in (1, 2, 3):
        initials += list(itertools.product(pairs, repeat=n))
    ops = []
    for k in keys:
        ops += [("del", k), ("poplist", k), ("pop", k)]
        for v in vals:
            ops += [("set", k, v), ("append", k, v), ("setdefault", k, v), ("update", k, v)]
        ops += [("setlist", k, ()), ("setlist", k, (1,)), ("setlist", k, (2, 1))]
    ops += [("popitem",), ("clear",)]
    maxlen = 2 if tier == "quick" else 3
    for init in initials:
        for n in range(1, maxlen + 1):
            seqs = itertools.product(ops, repeat=n)
            if n == 3:
                seqs = rng.sample(list(itertools.product(ops, repeat=3)), 600)
            for seq in seqs:
                evals += 1
                v = run_case(init, seq)
                distinct.add((init, seq))
                if v and len(failures) < 10:
                    failures.append({"inputs": {"initial": [list(p) for p in init], "ops": [list(o) for o in seq]}, "violated": v[:3]})
                elif len(samples) < 3 and n == maxlen and len(init) == 3:
                    samples.append({"initial": init, "ops": seq})
    for _ in range(300 if tier == "quick" else 5000):
        init = tuple(rng.choice(pairs) for _ in range(rng.randrange(0, 6)))
        seq = tuple(rng.choice(ops) for _ in range(rng.randrange(4, 9)))
        evals += 1
        v = run_case(init, seq)
        distinct.add((init, seq))
        if v and len(failures) < 10:
            failures.append({"inputs": {"initial": [list(p) for p in init], "ops": [list(o) for o in seq]}, "violated": v[:3]})
    # mappings built from other containers are independent of them
    for source_kind in ("mutable", "immutable", "query", "list", "generator"):
        for init in [i for i in initials if len(i) in (0, 2, 3)][:: (1 if tier == "thorough" else 3)]:
            for op in ops:
                for op2 in (None, ("append", "a", 1)):
                    seq = (op,) if op2 is None else (op, op2)
                    evals += 1
                    v = copy_case(init, seq, source_kind)
                    distinct.add(("copy", source_kind, init, seq))
                    if v and len(failures) < 10:
                        failures.append({"inputs": {"kind": "copy", "source": source_kind, "initial": [list(p) for p in init],
                                                    "ops": [list(o) for o in seq]}, "violated": v[:3]})
    alpha = ["a", "&", "=", " ", "%", "é", "", "+"]
    for n in (0, 1, 2, 3):
        allp = list(itertools.product(itertools.product(alpha, repeat=2), repeat=n))
        for ps in (allp if len(allp) < 5000 else rng.sample(allp, 2000 if tier == "quick" else 20000)):
            evals += 1
            v = query_case(ps)
            distinct.add(("q", ps))
            if v and len(failures) < 10:
                failures.append({"inputs": {"kind": "query", "pairs": [list(p) for p in ps]}, "violated": v})
    return {"evaluations": evals, "distinct_nontrivial": len(distinct), "failures": failures, "samples": samples,
            "rule": "all operation sequences up to length %d (length 3: seeded sample) over 22 operations on keys {a,b} x values "
                    "{1,2} from every initial pair list of length <= 3, plus seeded longer ones, compared after every step with "
                    "a plain ordered list of pairs (multi_items, getlist, indexing, keys, len, membership); mappings built from another "
                    "mapping / list stay independent of it under every operation; QueryParams round "
                    "trip and QueryParams/FormData/MultiMapping view agreement over pair lists of length <= 3 on an alphabet "
                    "with '&', '=', ' ', '%%', '+', non-ASCII and ''" % maxlen,
            "exhaustive": False}
