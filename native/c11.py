"""C11 native oracle / bounded stand-in: the WebSocket wrapper against a reference automaton."""
import asyncio
import itertools
import random

from baize.asgi.websocket import WebSocket, WebSocketDisconnect, WebSocketState

OPS = ["accept", "receive", "receive_text", "receive_bytes", "send_text", "send_bytes", "close", "raw_accept", "raw_send",
       "raw_close", "iter_text"]
STATE = {1: WebSocketState.CONNECTING, 2: WebSocketState.CONNECTED, 3: WebSocketState.DISCONNECTED}
RSTATE = {v: k for k, v in STATE.items()}


def scripts(max_frames):
    out = []
    for n in range(0, max_frames + 1):
        for kinds in itertools.product(("text", "bytes"), repeat=n):
            s = [{"type": "websocket.connect"}]
            for i, k in enumerate(kinds):
                s.append({"type": "websocket.receive", "text": "t%d" % i, "bytes": None} if k == "text"
                         else {"type": "websocket.receive", "bytes": b"b%d" % i, "text": None})
            s.append({"type": "websocket.disconnect", "code": 1001})
            out.append(s)
    return out


class Ref:
    """reference model: what a correct wrapper must do (written from the property statement)"""

    def __init__(self, script, cursor=0, client=1, app=1):
        self.script, self.cursor, self.client, self.app = script, cursor, client, app
        self.fwd = []
        self.n_recv = 0


async def run_ops(script, ops, init=None):
    """runs the real wrapper; returns (problems, observations)"""
    sent, n_recv = [], [0]
    cursor = [init["cursor"] if init else 0]
    problems = []
    disc_delivered = [False]

    async def receive():
        if disc_delivered[0]:
            problems.append("receive issued after a disconnect was delivered")
        n_recv[0] += 1
        if cursor[0] >= len(script):
            await asyncio.sleep(3600)
        m = dict(script[cursor[0]])
        cursor[0] += 1
        if m["type"] == "websocket.disconnect":
            disc_delivered[0] = True
        return m

    async def send(m):
        sent.append(dict(m))

    ws = WebSocket({"type": "websocket", "headers": []}, receive, send)
    if init:
        ws.client_state = STATE[init["client"]]
        ws.application_state = STATE[init["app"]]
        disc_delivered[0] = init["client"] == 3
        pre_fwd = init.get("fwd", 1)
    else:
        pre_fwd = 1
    fwd = pre_fwd
    delivered = []
    states = [(RSTATE[ws.client_state], RSTATE[ws.application_state])]
    for op in ops:
        before_sent, before_recv = len(sent), n_recv[0]
        raised = None
        try:
            if op == "accept":
                await ws.accept()
            elif op == "receive":
                delivered.append(await ws.receive())
            elif op == "receive_text":
                delivered.append({"type": "websocket.receive", "text": await ws.receive_text()})
            elif op == "receive_bytes":
                delivered.append({"type": "websocket.receive", "bytes": await ws.receive_bytes()})
            elif op == "send_text":
                await ws.send_text("x")
            elif op == "send_bytes":
                await ws.send_bytes(b"x")
            elif op == "close":
                await ws.close()
            elif op == "raw_accept":
                await ws.send({"type": "websocket.accept"})
            elif op == "raw_send":
                await ws.send({"type": "websocket.send", "text": "y"})
            elif op == "raw_close":
                await ws.send({"type": "websocket.close"})
            elif op == "iter_text":
                async for t in ws.iter_text():
                    delivered.append({"type": "websocket.receive", "text": t})
        except WebSocketDisconnect as e:
            raised = "WebSocketDisconnect"
        except (AssertionError, RuntimeError) as e:
            raised = type(e).__name__
        except KeyError as e:
            raised = "KeyError"     # typed receive on the connect event: forwards nothing (not a clause of C11)
        except Exception as e:  # noqa
            raised = "unexpected " + type(e).__name__
            problems.append("%s raised %r" % (op, e))
        # forwarded events must be a legal sequence
        for m in sent[before_sent:]:
            t = m["type"]
            ok = (fwd == 1 and t in ("websocket.accept", "websocket.close")) or (fwd == 2 and t in ("websocket.send", "websocket.close"))
            if not ok:
                problems.append("illegal forwarded event %s in state %d (op %s)" % (t, fwd, op))
            fwd = 3 if t == "websocket.close" else (2 if t == "websocket.accept" else fwd)
        if raised in ("AssertionError", "RuntimeError") and len(sent) != before_sent:
            problems.append("%s raised %s but forwarded an event" % (op, raised))
        if op == "close" and raised is not None:
            problems.append("close raised %s" % raised)
        if op == "close" and len(sent) - before_sent > 1:
            problems.append("close forwarded %d events" % (len(sent) - before_sent))
        st_now = (RSTATE[ws.client_state], RSTATE[ws.application_state])
        if st_now[0] < states[-1][0] or st_now[1] < states[-1][1]:
            problems.append("state moved backwards %s -> %s on %s" % (states[-1], st_now, op))
        if st_now[1] != fwd:
            problems.append("application_state %d but forwarded automaton is in %d after %s" % (st_now[1], fwd, op))
        states.append(st_now)
    # frames returned in order exactly once: what was returned is a prefix-order subsequence == consumed script
    consumed = script[(init["cursor"] if init else 0):cursor[0]]
    want = [m for m in consumed if m["type"] == "websocket.receive"]
    got = [m for m in delivered if m.get("type") == "websocket.receive"]
    for g, w in zip(got, want):
        for key in ("text", "bytes"):
            if key in g and g[key] is not None and g[key] != w.get(key):
                problems.append("frame out of order / altered: got %r want %r" % (g, w))
    if len(got) > len(want):
        problems.append("more frames returned than consumed")
    return problems, {"sent": [m["type"] for m in sent], "states": states, "n_recv": n_recv[0]}


def run(script, ops, init=None):
    return asyncio.run(asyncio.wait_for(run_ops(script, ops, init), 10))


def replay(inputs):
    p, obs = run(inputs["script"], inputs["ops"], inputs.get("init"))
    return {"violated": p, "observed": obs}


def bounded(tier, seed):
    rng = random.Random(seed)
    evals = 0
    distinct = set()
    failures = []
    samples = []
    maxlen = 3 if tier == "quick" else 4
    scs = scripts(1 if tier == "quick" else 2)
    ops = OPS if tier == "thorough" else [o for o in OPS if o != "raw_send"] + ["raw_send"]
    for script in scs:
        for n in range(1, maxlen + 1):
            seqs = itertools.product(ops, repeat=n)
            if n >= 4 or (tier == "quick" and n == 3):
                allseq = list(seqs)
                seqs = rng.sample(allseq, min(len(allseq), 1500 if tier == "quick" else 12000))
            for seq in seqs:
                evals += 1
                p, obs = run(script, list(seq))
                if len(obs["sent"]) >= 1 and obs["n_recv"] >= 1:
                    distinct.add((len(script), seq))
                if p and len(failures) < 10:
                    failures.append({"inputs": {"script": script, "ops": list(seq)}, "violated": p})
                elif len(samples) < 4 and len(obs["sent"]) >= 2 and n == maxlen:
                    samples.append({"ops": list(seq), "forwarded": obs["sent"], "states": obs["states"]})
    return {"evaluations": evals, "distinct_nontrivial": len(distinct), "failures": failures, "samples": samples,
            "rule": "all call sequences up to length %d (longest length: seeded sample) over %d public operations x server "
                    "scripts connect, k<=%d frames (text|bytes), disconnect; non-trivial = at least one forwarded event and "
                    "one receive, distinct by (script length, sequence)" % (maxlen, len(ops), 1 if tier == "quick" else 2),
            "exhaustive": False}


def denial_checks():
    """WebsocketDenialResponse / websocket_session / request_response on the wrong scope type"""
    from baize.asgi import Response, PlainTextResponse, request_response, websocket_session
    from baize.asgi.websocket import WebsocketDenialResponse
    problems = []

    async def go():
        sent = []

        async def send(m):
            sent.append(dict(m))

        async def receive():
            return {"type": "websocket.connect"}

        await WebsocketDenialResponse(Response(404))({"type": "websocket", "headers": []}, receive, send)
        if [m["type"] for m in sent] != ["websocket.close"]:
            problems.append("denial without extension sent %s" % [m["type"] for m in sent])
        sent.clear()
        await WebsocketDenialResponse(PlainTextResponse("no", 403))(
            {"type": "websocket", "headers": [], "extensions": {"websocket.http.response": {}}}, receive, send)
        types = [m["type"] for m in sent]
        if types != ["websocket.http.response.start", "websocket.http.response.body"]:
            problems.append("denial with extension sent %s" % types)
        sent.clear()
        # a wrapped response that sends another http.response.* event: not a legal denial event - refused, nothing forwarded
        for odd in ("http.response.trailers", "http.response.zerocopysend", "http.response.push", "http.disconnect"):
            async def odd_response(scope, receive_, send_, _t=odd):
                await send_({"type": "http.response.start", "status": 403, "headers": []})
                await send_({"type": _t})
            try:
                await WebsocketDenialResponse(odd_response)(
                    {"type": "websocket", "headers": [], "extensions": {"websocket.http.response": {}}}, receive, send)
                problems.append("denial response forwarded / accepted the event %s: %s" % (odd, [m["type"] for m in sent]))
            except ValueError:
                if [m["type"] for m in sent] != ["websocket.http.response.start"]:
                    problems.append("after refusing %s the server had received %s" % (odd, [m["type"] for m in sent]))
            sent.clear()

        @request_response
        async def view(request):
            return PlainTextResponse("x")

        await view({"type": "websocket", "headers": []}, receive, send)
        if [m["type"] for m in sent] != ["websocket.close"]:
            problems.append("request_response on a websocket scope sent %s" % [m["type"] for m in sent])
        sent.clear()

        @websocket_session
        async def sess(ws):
            raise AssertionError("must not be called for http")

        await sess({"type": "http", "method": "GET", "headers": []}, receive, send)
        types = [m["type"] for m in sent]
        if types != ["http.response.start", "http.response.body"] or sent[0]["status"] != 404:
            problems.append("websocket_session on an http scope sent %s" % sent)

    asyncio.run(asyncio.wait_for(go(), 10))
    return problems


_bounded0 = bounded


def bounded(tier, seed):  # noqa
    out = _bounded0(tier, seed)
    p = denial_checks()
    out["evaluations"] += 4
    if p:
        out["failures"].append({"inputs": {"script": [], "ops": ["denial_checks"]}, "violated": p, "replay_fn": "replay_denial"})
    return out


def replay_denial(inputs):
    return {"violated": denial_checks()}
