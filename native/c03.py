"""C03 native oracle / bounded stand-in / replay for FileResponseMixin.parse_range."""
import itertools
import random
import re

from baize.exceptions import HTTPException, MalformedRangeHeader, RangeNotSatisfiable
from baize.responses import FileResponseMixin


def spec_of(header, size):
    """what the property statement demands, computed independently of the code under test.
    returns dict(allowed=set of outcome kinds, ranges=canonical list or None)"""
    if "=" not in header:
        return {"allowed": {"400"}, "ranges": None, "why": "no unit"}
    unit, rest = header.split("=", 1)
    if unit != "bytes":
        return {"allowed": {"400"}, "ranges": None, "why": "unit is not bytes"}
    specs = [(f, l) for f, l in re.findall(r"(\d*)-(\d*)", rest) if (f, l) != ("", "")]
    if not specs:
        return {"allowed": {"400"}, "ranges": None, "why": "no range spec"}
    allowed = set()
    ivs = []
    for f, l in specs:
        if f and l:
            first, last = int(f), int(l)
            bad = False
            if first > last:
                allowed.add("400")
                bad = True
            if first >= size:
                allowed.add("416")
                bad = True
            if bad:
                continue
            ivs.append((first, min(last + 1, size)))
        elif f:
            first = int(f)
            if first >= size:
                allowed.add("416")
                continue
            ivs.append((first, size))
        else:
            n = int(l)
            if n == 0 or n > size:
                allowed.add("416")
                continue
            ivs.append((size - n, size))
    if allowed:
        return {"allowed": allowed, "ranges": None, "why": "rejecting spec present"}
    ivs.sort()
    out = []
    for s, e in ivs:
        if out and s <= out[-1][1]:
            out[-1] = (out[-1][0], max(out[-1][1], e))
        else:
            out.append((s, e))
    return {"allowed": {"ok"}, "ranges": out, "why": ""}


def run_real(header, size):
    try:
        r = FileResponseMixin.parse_range(header, size)
        return {"kind": "ok", "ranges": [tuple(x) for x in r]}
    except MalformedRangeHeader as e:
        return {"kind": "400", "status": e.status_code, "headers": e.headers}
    except RangeNotSatisfiable as e:
        return {"kind": "416", "status": e.status_code, "headers": e.headers}
    except Exception as e:  # noqa
        return {"kind": "exc:" + type(e).__name__, "msg": str(e)[:200]}


def violations(header, size):
    """list of violated clause names (empty = property holds on this input)"""
    want = spec_of(header, size)
    got = run_real(header, size)
    out = []
    if got["kind"].startswith("exc:"):
        return ["noraise.%s" % got["kind"][4:]], want, got
    if got["kind"] not in want["allowed"]:
        out.append("outcome: got %s, the statement allows %s (%s)" % (got["kind"], sorted(want["allowed"]), want["why"]))
    if got["kind"] == "ok":
        rs = got["ranges"]
        if not rs:
            out.append("shape.nonempty")
        if any(not (0 <= s < e <= size) for s, e in rs):
            out.append("shape.bounds")
        if any(rs[i][1] >= rs[i + 1][0] for i in range(len(rs) - 1)):
            out.append("shape.separated")
        if want["ranges"] is not None and rs != want["ranges"]:
            out.append("meaning: got %s want %s" % (rs, want["ranges"]))
    if got["kind"] == "400" and (got["status"] != 400):
        out.append("raises.400.status")
    if got["kind"] == "416" and (got["status"] != 416 or got["headers"] != {"Content-Range": "*/%d" % size}):
        out.append("raises.416.headers")
    return out, want, got


def replay(inputs):
    header, size = inputs["header"], inputs["size"]
    v, want, got = violations(header, size)
    return {"violated": v, "expected": {"allowed": sorted(want["allowed"]), "ranges": want["ranges"]}, "observed": got}


def spec_texts(size, maxn):
    nums = list(range(0, min(size + 3, maxn + 1)))
    out = []
    for a in nums:
        out.append("%d-" % a)
        out.append("-%d" % a)
        for b in nums:
            out.append("%d-%d" % (a, b))
    return out


def bounded(tier, seed):
    rng = random.Random(seed)
    evals = 0
    seen = set()
    failures = []
    samples = []
    sizes = range(0, 5) if tier == "quick" else range(0, 7)
    maxk = 3
    for size in sizes:
        texts = spec_texts(size, 5 if tier == "quick" else 8)
        if tier == "quick" and size >= 3:
            texts = [t for i, t in enumerate(texts) if i % 2 == 0 or t.endswith("-") or t.startswith("-")]
        for k in range(1, maxk + 1):
            combos = itertools.product(texts, repeat=k)
            if k == 3:
                lim = 4000 if tier == "quick" else 60000
                pool = list(itertools.product(texts, repeat=3))
                combos = pool if len(pool) <= lim else rng.sample(pool, lim)
            for combo in combos:
                for sep in (",", ", "):
                    header = "bytes=" + sep.join(combo)
                    evals += 1
                    v, want, got = violations(header, size)
                    key = (size, tuple(combo))
                    if got["kind"] == "ok" and len(combo) > 1:
                        seen.add(key)
                    if v:
                        if len(failures) < 10:
                            failures.append({"inputs": {"header": header, "size": size}, "violated": v})
                    elif len(samples) < 6 and k == 3 and got["kind"] == "ok" and len(got["ranges"]) >= 2:
                        samples.append({"header": header, "size": size, "result": got["ranges"]})
    # noise / malformed text
    noise = ["", "bytes", "bytes=", "bytes=-", "bytes=--", "byte=0-1", "bytes =0-1", "bytes=0-1=", "=0-1", "bytes=abc",
             "bytes=0-1,hello", "bytes=0-1,-", "bytes=1-0", "bytes=5-4", "bytes=0-0,2-2,1-1", "bytes=0-9,20-29,5-24",
             "bytes=١-٢", "bytes=0-1\n", "items=0-1", "bytes=0-99999999999999999999"]
    for header in noise:
        for size in (0, 1, 10, 30):
            evals += 1
            v, want, got = violations(header, size)
            if v:
                failures.append({"inputs": {"header": header, "size": size}, "violated": v})
    # numerals of 18..45 digits (and with leading zeros): every digit counts - a position far beyond the file is not its low digits
    for size in (1, 10, 4623):
        for digits in (18, 19, 20, 21, 23, 30, 45):
            for low in (0, 5, size - 1):
                big = "1" + "0" * (digits - len(str(low)) - 1) + str(low)
                padded = "0" * (digits - len(str(low))) + str(low)
                for header in ("bytes=%s-" % big, "bytes=%s-%d" % (big, size + 3), "bytes=0-0,%s-%s9" % (big, big), "bytes=-%s" % big,
                               "bytes=%s-" % padded, "bytes=%d-%s" % (low, big), "bytes=%s-%s" % (padded, padded)):
                    evals += 1
                    v, want, got = violations(header, size)
                    if v and len(failures) < 10:
                        failures.append({"inputs": {"header": header, "size": size}, "violated": v})
    # seeded random large range sets
    n_rand = 300 if tier == "quick" else 20000
    for _ in range(n_rand):
        size = rng.choice([0, 1, 7, 100, 4623, 10 ** 6])
        k = rng.randint(1, 8)
        parts = []
        for _ in range(k):
            a, b = rng.randint(0, size + 5), rng.randint(0, size + 5)
            form = rng.random()
            parts.append("%d-%d" % (a, b) if form < 0.6 else ("%d-" % a if form < 0.8 else "-%d" % b))
        header = "bytes=" + ",".join(parts)
        evals += 1
        v, want, got = violations(header, size)
        if got["kind"] == "ok":
            seen.add((size, tuple(parts)))
        if v:
            failures.append({"inputs": {"header": header, "size": size}, "violated": v})
    return {"evaluations": evals, "distinct_nontrivial": len(seen), "failures": failures[:10], "samples": samples,
            "rule": "every Range header with <= 2 specs (3 specs: all or a seeded sample) over the numbers 0..size+2, "
                    "all three spec forms, sizes %s, two separators; plus noise strings, numerals of 18..45 digits and seeded random large sets; "
                    "non-trivial = accepted header with >= 2 specs, counted distinct by (size, spec tuple)" % (list(sizes),),
            "exhaustive": False}
