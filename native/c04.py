"""C04 native bounded stand-in: the same abstract request / response recipe through both stacks (differential)."""
import asyncio
import itertools
import os
import random
import shutil
import tempfile

from native.harness import run_wsgi, run_asgi, wsgi_environ, asgi_scope


def request_view_w(method, path, query, headers, body, root=""):
    import baize.wsgi as W
    env = wsgi_environ(method, path, headers, query=query, body=body, script_name=root)
    # PEP 3333: a server may pass the optional CGI variables as empty strings instead of leaving them out - the same
    # abstract request either way (alternating, so that both presentations are exercised)
    if (len(path) + len(query) + len(headers)) % 2:
        for k in ("CONTENT_TYPE", "CONTENT_LENGTH"):
            env.setdefault(k, "")
    req = W.Request(env)
    return view(req, lambda name: getattr(req, name))


def request_view_a(method, path, query, headers, chunks, root=""):
    import baize.asgi as A
    msgs = [{"type": "http.request", "body": c, "more_body": i < len(chunks) - 1} for i, c in enumerate(chunks)]

    async def go():
        async def receive():
            return msgs.pop(0) if msgs else {"type": "http.disconnect"}
        sc = asgi_scope(method, path, headers, query=query)
        if root:
            sc["root_path"] = root
        req = A.Request(sc, receive)

        async def get(name):
            v = getattr(req, name)
            if asyncio.isfuture(v) or asyncio.iscoroutine(v):
                v = await v
            return v
        out = {}
        for name in VIEW_FIELDS:
            try:
                out[name] = norm(name, await get(name))
            except Exception as e:  # noqa
                out[name] = "exc:" + type(e).__name__
        return out
    return asyncio.run(go())


VIEW_FIELDS = ["method", "url", "headers", "query_params", "cookies", "content_type", "content_length", "accepted_types", "client",
               "body", "json", "form"]


def norm(name, v):
    if name == "headers":
        return sorted(dict(v).items())
    if name in ("query_params", "form"):
        out = []
        for k, val in v.multi_items():
            if hasattr(val, "file"):
                out.append((k, "file:%s:%r" % (val.filename, val.file.read())))
            else:
                out.append((k, val))
        return out
    if name == "accepted_types":
        return [str(x) for x in v]
    if name in ("url", "content_type"):
        return str(v)
    if name == "client":
        return tuple(v)
    return v


def view(req, get):
    out = {}
    for name in VIEW_FIELDS:
        try:
            out[name] = norm(name, get(name))
        except Exception as e:  # noqa
            out[name] = "exc:" + type(e).__name__
    return out


def check_request(method, path, query, headers, body, chunks, root=""):
    w = request_view_w(method, path, query, headers, body, root)
    a = request_view_a(method, path, query, headers, chunks, root)
    v = []
    for name in VIEW_FIELDS:
        if name == "client":
            continue     # REMOTE_ADDR is the server's business (not part of the abstract request built here)
        if w[name] != a[name]:
            v.append("%s differs: wsgi %r, asgi %r" % (name, str(w[name])[:120], str(a[name])[:120]))
    return v


def response_recipes(tmpdir):
    import baize.wsgi as W
    import baize.asgi as A
    p = os.path.join(tmpdir, "f.txt")
    with open(p, "wb") as f:
        f.write(b"0123456789" * 5)
    os.makedirs(os.path.join(tmpdir, "site", "docs"), exist_ok=True)
    for rel, c in (("site/index.html", b"<i>"), ("site/docs/index.html", b"<d>"), ("site/a.txt", b"aaa"), ("site/x.html", b"<x>")):
        with open(os.path.join(tmpdir, rel), "wb") as f:
            f.write(c)
    os.utime(p, (1700000000, 1700000000))

    def mk(mod):
        out = {}
        out["empty404"] = lambda: mod.Response(404, {"X-A": "1"})
        out["text"] = lambda: mod.PlainTextResponse("héllo", 201)
        out["html"] = lambda: mod.HTMLResponse("<p>")
        out["json"] = lambda: mod.JSONResponse({"k": [1, None, "ü"]})
        out["redirect"] = lambda: mod.RedirectResponse("/ü?x=1")

        def cookies():
            r = mod.PlainTextResponse("c")
            r.set_cookie("a", "1", max_age=5)
            r.delete_cookie("b")
            return r
        out["cookies"] = cookies
        # constructor headers that meet the class's own required / default headers in another spelling (folding vs replacing
        # must be the same on both sides); streaming classes with an empty producer
        def sse(hs):
            if mod is W:
                return mod.SendEventResponse(iter([{"data": "x"}]), 200, hs)

            async def gen():
                yield {"data": "x"}
            return mod.SendEventResponse(gen(), 200, hs)
        out["sse_plain"] = lambda: sse(None)
        out["sse_cache_lower"] = lambda: sse({"cache-control": "no-store"})
        out["sse_ctype_lower"] = lambda: sse({"content-type": "text/plain", "X-Extra": "1"})
        out["sse_exact_case"] = lambda: sse({"Cache-Control": "private"})
        out["text_ctype_upper"] = lambda: mod.PlainTextResponse("t", 200, {"CONTENT-TYPE": "text/x"})
        out["json_clen"] = lambda: mod.JSONResponse({"a": 1}, 200, {"Content-Length": "999", "content-type": "application/x"})
        out["redirect_hdrs"] = lambda: mod.RedirectResponse("/t", 302, {"Location": "/other", "X-A": "1"})
        out["file"] = lambda: mod.FileResponse(p, chunk_size=16)
        out["file_dl"] = lambda: mod.FileResponse(p, download_name="dl.bin")
        return out
    return mk(W), mk(A), p


def normalise_response(rec, iface):
    if rec["exception"] is not None:
        return ("exc", type(rec["exception"]).__name__)
    if iface == "wsgi":
        status = int(rec["status"].split()[0])
        hs = [(k.lower(), v) for k, v in rec["headers"]]
    else:
        status = rec["status"]
        hs = [(k.decode("latin-1").lower(), v.decode("latin-1")) for k, v in rec["headers"]]
    out = []
    for k, v in hs:
        if k == "connection":
            continue      # sanctioned difference (ASGI event stream)
        if k == "content-type" and v.startswith("multipart/byteranges; boundary="):
            b = v.split("=", 1)[1]
            v = "multipart/byteranges; boundary=B"
            rec = dict(rec, body=rec["body"].replace(b.encode(), b"B"))
        if k == "set-cookie" and "expires=" in v:
            v = ";".join(p for p in v.split(";") if not p.strip().startswith("expires="))
        out.append((k, v))
    return (status, sorted(out), rec["body"])


def check_response(name, method, headers, tmp):
    wr, ar, p = response_recipes(tmp)
    rw = run_wsgi(wr[name](), wsgi_environ(method, "/", headers))
    ra = run_asgi(ar[name](), asgi_scope(method, "/", headers))
    nw, na = normalise_response(rw, "wsgi"), normalise_response(ra, "asgi")
    if nw != na:
        return ["%s (%s %s): wsgi %r, asgi %r" % (name, method, headers, str(nw)[:200], str(na)[:200])]
    return []


def check_app(kind, path, headers, tmp):
    import baize.wsgi as W
    import baize.asgi as A
    site = os.path.join(tmp, "site")

    def build(mod, leaf):
        if kind == "files":
            return mod.Files(site)
        if kind == "pages":
            return mod.Pages(site)
        if kind == "router":
            return mod.Router(("/u/{id:int}", leaf("int")), ("/u/{name}", leaf("str")), ("/{rest:any}", leaf("any")))
        if kind == "subpaths":
            return mod.Subpaths(("/static", mod.Files(site)), ("/api", mod.Router(("/v/{n:int}", leaf("n")))), ("", leaf("default")))
        if kind == "hosts":
            return mod.Hosts((r"a\.example", leaf("a")), (r".*\.example", leaf("wild")))

    def leaf_w(tag):
        def app(environ, start_response):
            start_response("200 OK", [("X-Tag", tag), ("X-Params", repr(sorted(environ.get("PATH_PARAMS", {}).items()))),
                                      ("X-Path", environ.get("SCRIPT_NAME", "") + "|" + environ.get("PATH_INFO", ""))])
            return [tag.encode()]
        return app

    def leaf_a(tag):
        async def app(scope, receive, send):
            await send({"type": "http.response.start", "status": 200, "headers": [
                (b"x-tag", tag.encode()), (b"x-params", repr(sorted(scope.get("path_params", {}).items())).encode()),
                (b"x-path", (scope.get("root_path", "") + "|" + scope["path"]).encode())]})
            await send({"type": "http.response.body", "body": tag.encode()})
        return app
    rw = run_wsgi(build(W, leaf_w), wsgi_environ("GET", path, headers))
    ra = run_asgi(build(A, leaf_a), asgi_scope("GET", path, headers))

    def n(rec, iface):
        from baize.exceptions import HTTPException
        if isinstance(rec["exception"], HTTPException):
            return ("http-exception", rec["exception"].status_code)
        return normalise_response(rec, iface)
    nw, na = n(rw, "wsgi"), n(ra, "asgi")
    if nw != na:
        return ["%s %s %s: wsgi %r, asgi %r" % (kind, path, headers, str(nw)[:200], str(na)[:200])]
    return []


def replay(inputs):
    d = tempfile.mkdtemp(prefix="verif_c04_")
    try:
        k = inputs["kind"]
        if k == "request":
            v = check_request(inputs["method"], inputs["path"], inputs["query"], [tuple(h) for h in inputs["headers"]],
                              inputs["body"].encode("latin-1"), [c.encode("latin-1") for c in inputs["chunks"]], inputs.get("root", ""))
        elif k == "response":
            v = check_response(inputs["name"], inputs["method"], [tuple(h) for h in inputs["headers"]], d)
        else:
            v = check_app(inputs["app"], inputs["path"], [tuple(h) for h in inputs["headers"]], d)
        return {"violated": v}
    finally:
        shutil.rmtree(d, ignore_errors=True)


def bounded(tier, seed):
    rng = random.Random(seed)
    evals = 0
    distinct = set()
    failures = []
    samples = []

    def rec(inp, v):
        region = None
        if v and inp.get("kind") == "response" and any(h[0] == "Range" and h[1] == "" for h in inp.get("headers", [])):
            region = "empty-range-header-value"
        inp = dict(inp, region=region)
        if v and sum(1 for f in failures if f["inputs"]["region"] == region) < 6:
            failures.append({"inputs": inp, "violated": v})

    header_sets = [[], [("Accept", "text/html, */*;q=0.1"), ("Cookie", 'a=1; b="x\\073y"')], [("X-Dup", "1"), ("X-Dup", "2"), ("Referer", "http://r/x")],
                   [("Host", "pub.example:81"), ("Date", "Wed, 21 Oct 2015 07:28:00 GMT")],
                   [("X-HTTP-Method-Override", "PATCH"), ("HTTP-Referer", "r"), ("X-Http-Foo", "1"), ("HTTP2-Settings", "s")]]
    bodies = [("application/json", b'{"a": [1, 2]}'), ("application/x-www-form-urlencoded", b"a=1&a=2&b=%C3%A9"),
              ("multipart/form-data; boundary=b", b'--b\r\nContent-Disposition: form-data; name="f"; filename="n.txt"\r\n\r\nDATA\r\n--b\r\n'
               b'Content-Disposition: form-data; name="t"\r\n\r\nv\r\n--b--\r\n'), ("text/plain", b"xyz"), (None, b"")]
    for method in ("GET", "POST"):
        for path, query in (("/", ""), ("/p/é", "x=1&x=2&y=%20"), ("/a b", "q")):
            for hs in header_sets:
                for ctype, body in bodies:
                    headers = list(hs) + ([("Content-Type", ctype), ("Content-Length", str(len(body)))] if ctype else [])
                    for chunks in ([body], [body[:3], body[3:]], [b""] + [bytes([b]) for b in body][:40] + [body[40:]]):
                        evals += 1
                        v = check_request(method, path, query, headers, body, chunks)
                        distinct.add(("req", method, path, query, str(headers), len(chunks)))
                        rec({"kind": "request", "method": method, "path": path, "query": query, "headers": [list(h) for h in headers],
                             "body": body.decode("latin-1"), "chunks": [c.decode("latin-1") for c in chunks]}, v)
    # requests to an application mounted below a prefix (SCRIPT_NAME / root_path), incl. paths that repeat the prefix text
    for root, path in (("/api", "/users"), ("/api", "/api/users"), ("/api", "/apiary"), ("/v1", "/v10/x"), ("/a", "/a"), ("/caf\u00e9", "/caf\u00e9/x"),
                       ("/api/", "/x"), ("/api", "/")):
        for query in ("", "a=1"):
            evals += 1
            v = check_request("GET", path, query, [("Host", "example.com")], b"", [b""], root)
            distinct.add(("req-mounted", root, path, query))
            rec({"kind": "request", "method": "GET", "path": path, "query": query, "headers": [["Host", "example.com"]], "body": "",
                 "chunks": [""], "root": root}, v)
    d = tempfile.mkdtemp(prefix="verif_c04_")
    try:
        wr, ar, p = response_recipes(d)
        for name in wr:
            for method in ("GET", "HEAD"):
                hsets = [[]]
                if name.startswith("file"):
                    hsets += [[("Range", r)] for r in ("bytes=0-4", "bytes=5-", "bytes=-3", "bytes=0-1,4-9,8-20", "bytes=99-", "bytes=2-1", "x", "")]
                    hsets += [[("Range", "bytes=0-4"), ("If-Range", '"nope"')]]
                for hs in hsets:
                    evals += 1
                    v = check_response(name, method, hs, d)
                    distinct.add(("resp", name, method, str(hs)))
                    rec({"kind": "response", "name": name, "method": method, "headers": [list(h) for h in hs]}, v)
                    if not v and len(samples) < 3 and hs:
                        samples.append({"recipe": name, "method": method, "headers": hs})
        app_cases = {
            "files": ["/a.txt", "/nope", "/docs", "/docs/", "/../f.txt", "/x.html"],
            "pages": ["/", "/docs", "/docs/", "/x", "/x.html", "/nope", "/a.txt"],
            "router": ["/u/12", "/u/bob", "/u/12/x", "/", "/zzz/y"],
            "subpaths": ["/static/a.txt", "/static", "/api/v/3", "/api/v/x", "/apix", "/other", ""],
            "hosts": ["/"],
        }
        for kind, paths in app_cases.items():
            for path in paths:
                hsets = [[]] if kind != "hosts" else [[("Host", h)] for h in ("a.example", "b.example", "nope", "")] + [[]]
                if kind in ("files", "pages"):
                    hsets = [[], [("If-None-Match", "*")], [("If-Modified-Since", "Wed, 21 Oct 2099 07:28:00 GMT")]]
                for hs in hsets:
                    evals += 1
                    v = check_app(kind, path, hs, d)
                    distinct.add(("app", kind, path, str(hs)))
                    rec({"kind": "app", "app": kind, "path": path, "headers": [list(h) for h in hs]}, v)
    finally:
        shutil.rmtree(d, ignore_errors=True)
    return {"evaluations": evals, "distinct_nontrivial": len(distinct), "failures": failures, "samples": samples,
            "rule": "request view: methods x paths/queries x 4 header sets x 5 bodies (JSON, urlencoded, multipart with a file, text, none) "
                    "x 3 chunkings, all accessors compared; responses: 8 recipes (all one-shot classes, cookies, files with 10 Range / "
                    "If-Range variants) x GET/HEAD; bundled apps: Files, Pages, Router, Subpaths (nested), Hosts over hand-picked "
                    "paths and conditional headers; same abstract request on both stacks, (status, header multiset, body) compared",
            "exhaustive": False}
