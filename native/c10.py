"""C10 native bounded stand-in: access sequences over {body, stream, json, form, close} x chunkings x disconnects."""
import asyncio
import io
import itertools
import random

from native.harness import wsgi_environ, asgi_scope

BODIES = {"json": (b'{"a":1}', "application/json"), "form": (b"a=1&b=2", "application/x-www-form-urlencoded")}


def chunkings(data, max_pieces):
    out = set()
    n = len(data)
    for k in range(1, max_pieces + 1):
        for cuts in itertools.combinations_with_replacement(range(0, n + 1), k - 1):
            pts = [0] + list(cuts) + [n]
            out.add(tuple(data[pts[i]:pts[i + 1]] for i in range(len(pts) - 1)))
    return sorted(out)


class Script:
    def __init__(self, chunks, disconnect_at=None):
        self.msgs = []
        for i, c in enumerate(chunks):
            if disconnect_at is not None and i == disconnect_at:
                break
            self.msgs.append({"type": "http.request", "body": c, "more_body": i < len(chunks) - 1})
        if disconnect_at is not None:
            self.msgs.append({"type": "http.disconnect"})
        self.n_recv = 0
        self.over = False

    async def receive(self):
        await asyncio.sleep(0)
        self.n_recv += 1
        if self.n_recv > len(self.msgs):
            self.over = True
            await asyncio.sleep(3600)
        return dict(self.msgs[self.n_recv - 1])


async def asgi_access(req, op):
    if op == "body":
        return await req.body
    if op == "stream":
        return b"".join([c async for c in req.stream()])
    if op == "json":
        return await req.json
    if op == "form":
        f = await req.form
        return sorted(f.multi_items())
    if op == "close":
        return await req.close()


def wsgi_access(req, op):
    if op == "body":
        return req.body
    if op == "stream":
        return b"".join(list(req.stream(3)))
    if op == "json":
        return req.json
    if op == "form":
        return sorted(req.form.multi_items())
    if op == "close":
        return req.close()


def expected(kind, data, ops, truncated):
    """reference: list of outcomes ('ok', value) / ('exc', name) for the sequential access sequence"""
    import json as _json
    from urllib.parse import parse_qsl
    out = []
    cached = None
    consumed = False
    dead = False
    failed_form = False
    failed_body = False
    for op in ops:
        if dead and failed_body and op in ("body", "stream"):
            # the failed `body` stays cached as it is: the same disconnect error again, for the body and for a stream replay
            out.append(("exc", "ClientDisconnect"))
            continue
        if dead:
            out.append(("skip", None))
            continue
        if op == "close":
            # close() after a FAILED form access re-raises the cached failure on ASGI; C10 has no clause about it
            out.append(("any", None) if failed_form else ("ok", None))
            continue
        if op in ("json", "form") and op != kind:
            out.append(("exc", "HTTPException"))
            failed_form = failed_form or op == "form"
            continue
        if op == "stream":
            if cached is not None:
                out.append(("ok", cached))
            elif consumed:
                out.append(("exc", "RuntimeError"))
            elif truncated:
                consumed = True
                dead = True
                out.append(("exc", "ClientDisconnect"))
            else:
                consumed = True
                out.append(("ok", data))
            continue
        # body / json / form all go through the cached body
        if cached is None:
            if consumed:
                out.append(("exc", "RuntimeError"))
                if op != "body":
                    dead = True      # a failed json/form leaves a cached failure behind; not followed further
                continue
            if truncated:
                dead = True
                failed_body = failed_body or op == "body"
                out.append(("exc", "ClientDisconnect"))
                continue
            cached = data
            consumed = True
        if op == "body":
            out.append(("ok", data))
        elif op == "json":
            out.append(("ok", _json.loads(data)))
        else:
            out.append(("ok", sorted(parse_qsl(data.decode("latin-1"), keep_blank_values=True))))
    return out


def run_case(iface, kind, chunks, disconnect_at, ops):
    data, ctype = BODIES[kind]
    truncated = disconnect_at is not None
    want = expected(kind, data, ops, truncated)
    v = []
    got = []
    if iface == "asgi":
        from baize.asgi import Request
        from baize.asgi.requests import ClientDisconnect
        script = Script(chunks, disconnect_at)

        async def go():
            req = Request(asgi_scope("POST", "/", [("Content-Type", ctype)]), script.receive)
            firsts = {}
            for op, w in zip(ops, want):
                if w[0] == "skip":
                    got.append(("skip", None))
                    continue
                try:
                    r = await asyncio.wait_for(asgi_access(req, op), 5)
                    got.append(("ok", r))
                    if op in ("body", "json") and op in firsts and firsts[op] is not r and op == "body":
                        v.append("repeated %s access returned a different object" % op)
                    firsts.setdefault(op, r)
                except Exception as e:  # noqa
                    name = type(e).__name__
                    got.append(("exc", "HTTPException" if name in ("UnsupportedMediaType", "MalformedJSON", "HTTPException") else name))
        asyncio.run(go())
        if script.over:
            v.append("receive() called after the script's last message (a message was expected twice)")
        if script.n_recv > len(script.msgs):
            v.append("more receive() calls (%d) than server messages (%d)" % (script.n_recv, len(script.msgs)))
    else:
        from baize.wsgi import Request

        class Inp(io.BytesIO):
            pass
        if truncated:
            return []   # WSGI has no disconnect event
        env = wsgi_environ("POST", "/", [("Content-Type", ctype)], body=b"".join(chunks))
        req = Request(env)
        firsts = {}
        for op, w in zip(ops, want):
            if w[0] == "skip":
                got.append(("skip", None))
                continue
            try:
                r = wsgi_access(req, op)
                got.append(("ok", r))
                if op == "body" and op in firsts and firsts[op] is not r:
                    v.append("repeated body access returned a different object")
                if op == "form":
                    fobj = req.form
                    if "form_obj" in firsts and firsts["form_obj"] is not fobj:
                        v.append("repeated form access returned a different object")
                    firsts.setdefault("form_obj", fobj)
                firsts.setdefault(op, r)
            except Exception as e:  # noqa
                name = type(e).__name__
                got.append(("exc", "HTTPException" if name in ("UnsupportedMediaType", "MalformedJSON", "HTTPException") else name))
    for i, (g, w) in enumerate(zip(got, want)):
        if w[0] in ("skip", "any"):
            continue
        if g != w:
            v.append("access %d (%s): got %r, expected %r" % (i, ops[i], g, w))
            break
    return v


def concurrent_case(kind, chunks, ops):
    """several tasks awaiting at once (samples schedules; not a proof of the interleaving clause)"""
    from baize.asgi import Request
    data, ctype = BODIES[kind]
    script = Script(chunks)
    v = []

    async def go():
        req = Request(asgi_scope("POST", "/", [("Content-Type", ctype)]), script.receive)
        res = await asyncio.wait_for(asyncio.gather(*[asgi_access(req, op) for op in ops], return_exceptions=True), 10)
        racing = "stream" in ops      # body and stream race for the one stream: the loser gets the documented error
        for op, r in zip(ops, res):
            documented = isinstance(r, RuntimeError) and "Stream consumed" in str(r) and racing
            if op == "body" and r != data and not documented:
                v.append("concurrent body gave %r" % (r,))
            if op == "stream" and r != data and not documented:
                v.append("concurrent stream gave %r" % (r,))
            if isinstance(r, Exception) and not documented and not (op in ("json", "form") and op != kind):
                v.append("concurrent %s raised %r" % (op, r))
    asyncio.run(go())
    if script.n_recv > len(script.msgs):
        v.append("messages consumed more than once under concurrency")
    return v


def wsgi_short_input_case(kind, chunks, cut):
    """WSGI: the client goes away after `cut` chunks - wsgi.input reaches EOF before CONTENT_LENGTH bytes were read.  The
    statement: a disconnect before the final chunk surfaces as an error, never as a truncated body."""
    from baize.wsgi import Request
    data = b"".join(chunks)
    sent = b"".join(chunks[:cut])
    if len(sent) >= len(data):
        return []
    env = wsgi_environ("POST", "/", [("Content-Type", BODIES[kind][1] if isinstance(BODIES[kind], tuple) and len(BODIES[kind]) > 1 else "application/octet-stream")], body=sent)
    env["CONTENT_LENGTH"] = str(len(data))
    try:
        got = Request(env).body
    except Exception:  # noqa  (any error is "not a truncated body")
        return []
    return ["WSGI body with CONTENT_LENGTH %d and only %d bytes before EOF returned the truncated %r without an error" % (
        len(data), len(sent), got[:30])]


def replay_stream(inputs):
    """replay of a solver counterexample for Request.stream on a fresh request: the chunks yielded concatenate to the body
    (raw bytes: no content type involved), none of them is empty except the final marker of the ASGI side, and a second
    stream() raises RuntimeError"""
    import asyncio
    import io
    v = []
    if inputs["iface"] == "wsgi":
        from baize.wsgi import Request
        body = inputs["body"].encode("latin-1")
        env = {"REQUEST_METHOD": "POST", "wsgi.input": io.BytesIO(body), "CONTENT_LENGTH": str(len(body)), "wsgi.url_scheme": "http",
               "SERVER_NAME": "s", "SERVER_PORT": "80", "PATH_INFO": "/", "QUERY_STRING": ""}
        req = Request(env)
        try:
            got = list(req.stream(max(1, int(inputs.get("chunk_size", 3)))))
        except Exception as e:  # noqa
            return {"violated": ["stream raised %r" % e]}
        if b"".join(got) != body:
            v.append("stream yielded %r for the body %r" % (got, body))
        try:
            list(req.stream())
            v.append("second stream() did not raise")
        except RuntimeError:
            pass
        return {"violated": v}
    from baize.asgi import Request
    msgs = [{"type": m[0], "body": m[1].encode("latin-1"), "more_body": bool(m[2])} if m[0] == "http.request" else {"type": m[0]}
            for m in inputs["msgs"]]
    want = b"".join(m.get("body", b"") for m in msgs if m["type"] == "http.request")
    disconnects = any(m["type"] == "http.disconnect" for m in msgs)

    async def go():
        script = list(msgs)

        async def receive():
            if script:
                return script.pop(0)
            await asyncio.sleep(3600)
        req = Request({"type": "http", "method": "POST", "headers": [], "path": "/", "query_string": b""}, receive)
        got = []
        try:
            async for c in req.stream():
                got.append(c)
        except Exception as e:  # noqa
            if disconnects and type(e).__name__ == "ClientDisconnect":
                return
            v.append("stream raised %r" % e)
            return
        if disconnects:
            v.append("a disconnect in the script did not raise ClientDisconnect")
        if b"".join(got) != want:
            v.append("stream yielded %r for the messages %r" % (got, msgs))
        try:
            async for _ in req.stream():
                pass
            v.append("second stream() did not raise")
        except RuntimeError:
            pass
    try:
        asyncio.run(asyncio.wait_for(go(), 20))
    except asyncio.TimeoutError:
        v.append("stream did not finish on a complete script")
    return {"violated": v}


def replay(inputs):
    if inputs.get("wsgi_short_input"):
        return {"violated": wsgi_short_input_case(inputs["kind"], [c.encode("latin-1") for c in inputs["chunks"]], inputs["cut"])}
    if inputs.get("concurrent"):
        return {"violated": concurrent_case(inputs["kind"], [c.encode("latin-1") for c in inputs["chunks"]], inputs["ops"])}
    return {"violated": run_case(inputs["iface"], inputs["kind"], [c.encode("latin-1") for c in inputs["chunks"]],
                                 inputs.get("disconnect_at"), inputs["ops"])}


def bounded(tier, seed):
    rng = random.Random(seed)
    evals = 0
    distinct = set()
    failures = []
    samples = []
    ops_all = ["body", "stream", "json", "form", "close"]
    maxlen = 3 if tier == "quick" else 4
    for kind in BODIES:
        data = BODIES[kind][0]
        chs = chunkings(data, 3)
        chs = [c for c in chs if len(c) <= 3]
        if tier == "quick":
            chs = rng.sample(chs, min(len(chs), 8)) + [(data,), (b"", data, b""), tuple(bytes([b]) for b in data)]
        else:
            chs = chs + [tuple(bytes([b]) for b in data)]
        seqs = [s for n in range(1, maxlen + 1) for s in itertools.product(ops_all, repeat=n)]
        if tier == "quick":
            seqs = [s for s in seqs if len(s) <= 2] + rng.sample([s for s in seqs if len(s) == 3], 40)
        # always: an accessor, close(), the same accessor again - close() releases files, it does not forget results
        seqs = list(seqs) + [s for s in (("form", "close", "form"), ("body", "close", "body"), ("json", "close", "json"),
                                         ("form", "close", "form", "body"), ("form", "form", "close", "form")) if s not in seqs]
        for iface in ("asgi", "wsgi"):
            for chunks in chs:
                for disc in [None] + (list(range(0, len(chunks))) if iface == "asgi" else []):
                    for ops in (seqs if disc is None else [s for s in seqs if len(s) <= 2]):
                        evals += 1
                        v = run_case(iface, kind, list(chunks), disc, list(ops))
                        distinct.add((iface, kind, chunks, disc, ops))
                        if v and len(failures) < 10:
                            failures.append({"inputs": {"iface": iface, "kind": kind, "chunks": [c.decode("latin-1") for c in chunks],
                                                        "disconnect_at": disc, "ops": list(ops)}, "violated": v})
                        elif len(samples) < 3 and len(ops) == 3 and disc is None and len(chunks) == 3:
                            samples.append({"iface": iface, "kind": kind, "chunks": [c.decode("latin-1") for c in chunks], "ops": ops})
        for chunks in chs[:6]:
            for cut in range(0, len(chunks)):
                evals += 1
                v = wsgi_short_input_case(kind, list(chunks), cut)
                if v and sum(1 for f in failures if f["inputs"].get("region") == "wsgi-input-shorter-than-content-length") < 2:
                    failures.append({"inputs": {"wsgi_short_input": True, "kind": kind, "chunks": [c.decode("latin-1") for c in chunks],
                                                "cut": cut, "region": "wsgi-input-shorter-than-content-length"}, "violated": v})
        for chunks in chs[:6]:
            for ops in (("body", "body"), ("body", "stream"), ("body", kind, "body"), (kind, kind, "body")):
                evals += 1
                v = concurrent_case(kind, list(chunks), list(ops))
                distinct.add(("conc", kind, chunks, ops))
                if v and len(failures) < 10:
                    failures.append({"inputs": {"concurrent": True, "kind": kind, "chunks": [c.decode("latin-1") for c in chunks],
                                                "ops": list(ops)}, "violated": v})
    return {"evaluations": evals, "distinct_nontrivial": len(distinct), "failures": failures, "samples": samples,
            "rule": "access sequences up to length %d over {body, stream, json, form, close} x chunkings of the body into <= 3 "
                    "messages (incl. empty ones and byte-at-a-time) x disconnect before message k (ASGI; WSGI: wsgi.input ending before "
                    "CONTENT_LENGTH bytes), both interfaces, "
                    "against a reference automaton; plus sets of concurrently awaiting ASGI tasks (samples schedules)" % maxlen,
            "exhaustive": False}
