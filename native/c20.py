"""C20 native bounded stand-in: identity middleware / decorator stacks of depth 0..3 around every kind of inner app."""
import asyncio
import os
import random
import shutil
import tempfile

from native.harness import run_wsgi, run_asgi, wsgi_environ, asgi_scope


CHUNK_ALPHABET = (b"", b"a", b"bc")


def norm_headers(hs, iface):
    out = []
    for k, v in hs or []:
        if isinstance(k, bytes):
            k, v = k.decode("latin-1"), v.decode("latin-1")
        out.append((k.lower(), v))
    return sorted(out)


_TIER = {"tier": "quick"}


def inner_apps(tmpdir):
    """name -> (wsgi app factory, asgi app factory, has_duplicate_headers)"""
    import baize.wsgi as W
    import baize.asgi as A
    p = os.path.join(tmpdir, "f.bin")
    with open(p, "wb") as f:
        f.write(bytes(range(200)))
    apps = {}

    def pair(name, wf, af, dup=False):
        apps[name] = (wf, af, dup)

    pair("plain", lambda: W.PlainTextResponse("hello", 201, {"X-A": "1"}), lambda: A.PlainTextResponse("hello", 201, {"X-A": "1"}))
    pair("empty", lambda: W.Response(204), lambda: A.Response(204))
    pair("unknown_status", lambda: W.PlainTextResponse("x", 299), lambda: A.PlainTextResponse("x", 299))
    pair("json", lambda: W.JSONResponse({"a": [1, "é"]}), lambda: A.JSONResponse({"a": [1, "é"]}))
    pair("redirect", lambda: W.RedirectResponse("/x?y=1"), lambda: A.RedirectResponse("/x?y=1"))

    def w_cookie():
        r = W.PlainTextResponse("c")
        r.set_cookie("a", "1")
        return r

    def a_cookie():
        r = A.PlainTextResponse("c")
        r.set_cookie("a", "1")
        return r
    pair("one_cookie", w_cookie, a_cookie)

    def w_cookies():
        r = W.PlainTextResponse("c")
        r.set_cookie("a", "1")
        r.set_cookie("b", "2")
        return r

    def a_cookies():
        r = A.PlainTextResponse("c")
        r.set_cookie("a", "1")
        r.set_cookie("b", "2")
        return r
    pair("two_cookies", w_cookies, a_cookies, dup=True)

    def w_stream():
        return W.StreamResponse(iter([b"a", b"bc", b"", b"def"]))

    def a_stream():
        async def gen():
            for c in [b"a", b"bc", b"", b"def"]:
                yield c
        return A.StreamResponse(gen())
    pair("stream", w_stream, a_stream)
    pair("file", lambda: W.FileResponse(p, chunk_size=64), lambda: A.FileResponse(p, chunk_size=64))
    # header bytes >= 0x80: a non-ASCII download name, a Latin-1 header value
    pair("file_named", lambda: W.FileResponse(p, download_name="résumé.txt"), lambda: A.FileResponse(p, download_name="résumé.txt"))
    pair("latin1_header", lambda: W.PlainTextResponse("x", 200, {"X-Author": "Zoë ÿ"}), lambda: A.PlainTextResponse("x", 200, {"X-Author": "Zoë ÿ"}))

    # raw applications
    def raw_list(environ, start_response):
        start_response("200 OK", [("X-Raw", "1")])
        return [b"hello"]

    def raw_tuple(environ, start_response):
        start_response("200 OK", [("X-Raw", "1")])
        return (b"he", b"llo")

    def raw_gen(environ, start_response):
        start_response("200 OK", [("X-Raw", "1")])
        yield b"he"
        yield b"llo"

    def raw_empty(environ, start_response):
        start_response("204 No Content", [])
        return []

    def raw_dup(environ, start_response):
        start_response("200 OK", [("Set-Cookie", "a=1"), ("Set-Cookie", "b=2"), ("X-Raw", "1")])
        return [b"x"]

    async def araw(scope, receive, send):
        await send({"type": "http.response.start", "status": 200, "headers": [(b"x-raw", b"1")]})
        await send({"type": "http.response.body", "body": b"he", "more_body": True})
        await send({"type": "http.response.body", "body": b"llo"})

    async def araw_empty(scope, receive, send):
        await send({"type": "http.response.start", "status": 204, "headers": []})
        await send({"type": "http.response.body", "body": b""})

    def raw_high(environ, start_response):
        # (PEP 3333: header text is the Latin-1 reading of the bytes on the wire - here UTF-8 bytes and a lone 0xFF)
        start_response("200 OK", [("X-Author", "Zo\xc3\xab"), ("X-Bin", "\xff\x80")])
        return [b"x"]

    async def araw_high(scope, receive, send):
        await send({"type": "http.response.start", "status": 200, "headers": [(b"x-author", b"Zo\xc3\xab"), (b"x-bin", b"\xff\x80")]})
        await send({"type": "http.response.body", "body": b"x"})

    def raw_hop(environ, start_response):
        # a hand-written application may emit Connection / Upgrade / Proxy-Authenticate: what it sends is what arrives
        start_response("426 Upgrade Required", [("Upgrade", "TLS/1.3"), ("Connection", "Upgrade"), ("X-Raw", "1"),
                                                  ("Proxy-Authenticate", 'Basic realm="x"'), ("Keep-Alive", "timeout=5")])
        return [b"upgrade"]

    def raw_restart(environ, start_response):
        # PEP 3333: until body bytes went out an application may replace its response with start_response(.., exc_info)
        start_response("200 OK", [("X-Raw", "first")])
        try:
            raise LookupError("report unavailable")
        except LookupError:
            import sys
            start_response("500 Internal Server Error", [("X-Raw", "second"), ("Content-Type", "text/plain")], sys.exc_info())
        return [b"report unavailable"]

    async def araw_hop(scope, receive, send):
        await send({"type": "http.response.start", "status": 426, "headers": [
            (b"upgrade", b"TLS/1.3"), (b"connection", b"Upgrade"), (b"x-raw", b"1"), (b"proxy-authenticate", b'Basic realm="x"'),
            (b"keep-alive", b"timeout=5")]})
        await send({"type": "http.response.body", "body": b"upgrade"})

    async def araw_dup(scope, receive, send):
        await send({"type": "http.response.start", "status": 200, "headers": [(b"set-cookie", b"a=1"), (b"set-cookie", b"b=2")]})
        await send({"type": "http.response.body", "body": b"x"})
    # header VALUES that contain ", " (the Expires date of a cookie, a list-valued header, a quoted string): one line in, the
    # same one line out - nothing between the application and the server re-splits or re-joins a value
    LISTY = [("Set-Cookie", "sid=1; expires=Fri, 15 Jan 2027 08:00:00 GMT; Path=/"), ("Vary", "Accept, Cookie"),
             ("Link", '</a>; rel="x, y", </b>; rel=next'), ("X-Raw", "1")]

    def raw_listy(environ, start_response):
        start_response("200 OK", list(LISTY))
        return [b"x"]

    async def araw_listy(scope, receive, send):
        await send({"type": "http.response.start", "status": 200,
                    "headers": [(k.lower().encode(), v.encode()) for k, v in LISTY]})
        await send({"type": "http.response.body", "body": b"x"})

    def chunk_apps(kind, chunks):
        def wapp(environ, start_response):
            start_response("200 OK", [("X-Raw", "1")])
            if kind == "list":
                return list(chunks)
            if kind == "tuple":
                return tuple(chunks)
            return (c for c in chunks)

        async def aapp(scope, receive, send):
            await send({"type": "http.response.start", "status": 200, "headers": [(b"x-raw", b"1")]})
            for c in chunks:
                await send({"type": "http.response.body", "body": c, "more_body": True})
            await send({"type": "http.response.body", "body": b""})
        return wapp, aapp, False

    extra = {}
    import itertools
    for n in range(0, 5 if _TIER["tier"] == "thorough" else 4):
        for seq in itertools.product(CHUNK_ALPHABET, repeat=n):
            for kind in ("list", "tuple", "gen"):
                extra["chunks/%s/%s" % (kind, ",".join(c.decode() or "-" for c in seq))] = chunk_apps(kind, seq)
    raw = {**extra, "raw_list": (raw_list, araw, False), "raw_tuple": (raw_tuple, araw, False), "raw_gen": (raw_gen, araw, False),
           "raw_empty": (raw_empty, araw_empty, False), "raw_dup_headers": (raw_dup, araw_dup, True),
           "raw_high_bytes": (raw_high, araw_high, False), "raw_hop_by_hop": (raw_hop, araw_hop, False), "raw_restart_with_exc_info": (raw_restart, araw, False),
           "raw_comma_space_in_values": (raw_listy, araw_listy, False)}
    return apps, raw


ZC = {"on": False}     # the ASGI server offers the zero-copy-send extension (toggled by the enumeration)


def run_one(iface, app):
    if iface == "wsgi":
        rec = run_wsgi(app, wsgi_environ("GET", "/"))
        status = int(rec["status"].split()[0]) if rec["status"] else None
    else:
        rec = run_asgi(app, asgi_scope("GET", "/"), zerocopy=ZC["on"])
        status = rec["status"]
    return rec, status


def case(name, iface, depth, kind, tmpdir):
    import baize.wsgi as W
    import baize.asgi as A
    apps, raw = inner_apps(tmpdir)
    calls = {"n": 0}
    v = []
    if name in apps:
        wf, af, dup = apps[name]
        if iface == "wsgi":
            def view(request):
                calls["n"] += 1
                return wf()
            bare = W.request_response(view)
        else:
            async def view(request):
                calls["n"] += 1
                return af()
            bare = A.request_response(view)
    else:
        wapp, aapp, dup = raw[name]
        if iface == "wsgi":
            def bare(environ, start_response):
                calls["n"] += 1
                return wapp(environ, start_response)
        else:
            async def bare(scope, receive, send):
                calls["n"] += 1
                return await aapp(scope, receive, send)
    ref, ref_status = run_one(iface, bare)
    calls["n"] = 0
    wrapped = bare
    if kind == "middleware":
        for _ in range(depth):
            if iface == "wsgi":
                @W.middleware
                def m(request, next_call):
                    return next_call(request)
            else:
                @A.middleware
                async def m(request, next_call):
                    return await next_call(request)
            wrapped = m(wrapped)
    else:
        if name not in apps:
            return [], dup
        wf, af, dup = apps[name]
        if iface == "wsgi":
            def v0(request):
                calls["n"] += 1
                return wf()
            vw = v0
            for _ in range(depth):
                @W.decorator
                def d(request, next_call):
                    return next_call(request)
                vw = d(vw)
            wrapped = W.request_response(vw)
        else:
            async def v0(request):
                calls["n"] += 1
                return af()
            vw = v0
            for _ in range(depth):
                @A.decorator
                async def d(request, next_call):
                    return await next_call(request)
                vw = d(vw)
            wrapped = A.request_response(vw)
    got, got_status = run_one(iface, wrapped)
    if got["exception"] is not None or ref["exception"] is not None:
        if repr(got["exception"]) != repr(ref["exception"]):
            v.append("exception differs: wrapped %r, bare %r" % (got["exception"], ref["exception"]))
        return v, dup
    if got["problems"]:
        v.append("protocol problems: %s" % got["problems"][:2])
    if got_status != ref_status:
        v.append("status %s != %s" % (got_status, ref_status))
    if got["body"] != ref["body"]:
        v.append("body %r != %r" % (got["body"][:40], ref["body"][:40]))
    gh, rh = norm_headers(got["headers"], iface), norm_headers(ref["headers"], iface)
    if gh != rh:
        v.append("headers differ: wrapped %s, bare %s" % (gh, rh))
    if calls["n"] != 1:
        v.append("inner application ran %d times" % calls["n"])
    return v, dup


def replay(inputs):
    _TIER["tier"] = "thorough"     # the superset of application names
    ZC["on"] = bool(inputs.get("zerocopy"))
    d = tempfile.mkdtemp(prefix="verif_c20_")
    try:
        v, dup = case(inputs["app"], inputs["iface"], inputs["depth"], inputs["kind"], d)
        return {"violated": v, "region": "duplicate-header-names" if dup and any("headers differ" in x for x in v) else None}
    finally:
        shutil.rmtree(d, ignore_errors=True)


def header_edit_case(iface):
    """a middleware that edits one header changes only that header"""
    import baize.wsgi as W
    import baize.asgi as A
    v = []
    if iface == "wsgi":
        def view(request):
            return W.PlainTextResponse("x", 200, {"X-A": "1", "X-B": "2"})

        @W.middleware
        def m(request, next_call):
            r = next_call(request)
            r.headers["x-a"] = "changed"
            return r
        bare, wrapped = W.request_response(view), m(W.request_response(view))
    else:
        async def view(request):
            return A.PlainTextResponse("x", 200, {"X-A": "1", "X-B": "2"})

        @A.middleware
        async def m(request, next_call):
            r = await next_call(request)
            r.headers["x-a"] = "changed"
            return r
        bare, wrapped = A.request_response(view), m(A.request_response(view))
    ref, _ = run_one(iface, bare)
    got, _ = run_one(iface, wrapped)
    rh = dict(norm_headers(ref["headers"], iface))
    gh = dict(norm_headers(got["headers"], iface))
    rh["x-a"] = "changed"
    if gh != rh or got["body"] != ref["body"]:
        v.append("editing one header changed more: %s vs %s" % (gh, rh))
    return v


def bounded(tier, seed):
    _TIER["tier"] = tier
    evals = 0
    distinct = set()
    failures = []
    samples = []
    d = tempfile.mkdtemp(prefix="verif_c20_")
    try:
        apps, raw = inner_apps(d)
        for iface in ("wsgi", "asgi"):
            for kind in ("middleware", "decorator"):
                for name in list(apps) + (list(raw) if kind == "middleware" else []):
                    for depth in range(0, 5 if tier == "thorough" else 4):
                        evals += 1
                        v, dup = case(name, iface, depth, kind, d)
                        distinct.add((iface, kind, name, depth))
                        region = "duplicate-header-names" if dup and v and all("headers differ" in x for x in v) else None
                        if v and sum(1 for f in failures if f["inputs"]["region"] == region) < 4:
                            failures.append({"inputs": {"app": name, "iface": iface, "depth": depth, "kind": kind, "region": region},
                                             "violated": v})
                        elif len(samples) < 3 and depth == 3:
                            samples.append({"app": name, "iface": iface, "kind": kind, "depth": depth})
            if iface == "asgi":
                # the same stacks with a server that offers zero-copy send (file responses use it when they can)
                ZC["on"] = True
                try:
                    for name in ("file", "plain", "stream"):
                        for depth in range(0, 3):
                            evals += 1
                            v, dup = case(name, "asgi", depth, "middleware", d)
                            distinct.add(("asgi+zc", name, depth))
                            if v and len(failures) < 12:
                                failures.append({"inputs": {"app": name, "iface": "asgi", "depth": depth, "kind": "middleware", "region": None,
                                                            "zerocopy": True}, "violated": v})
                finally:
                    ZC["on"] = False
            evals += 1
            v = header_edit_case(iface)
            if v:
                failures.append({"inputs": {"app": "header_edit", "iface": iface, "depth": 1, "kind": "edit", "region": None}, "violated": v,
                                 "replay_fn": "replay_edit"})
    finally:
        shutil.rmtree(d, ignore_errors=True)
    return {"evaluations": evals, "distinct_nontrivial": len(distinct), "failures": failures, "samples": samples,
            "rule": "inner applications: every bundled response class (incl. multi-chunk stream, file, 1 and 2 cookies, unknown "
                    "status), raw apps returning a list / tuple / generator / empty iterable / duplicate header names, and raw apps for "
                    "every chunk sequence of length <= 3 over {b'', b'a', b'bc'} as list, tuple and generator; identity "
                    "middleware and decorator stacks of depth 0..3; both interfaces (ASGI also with a server offering zero-copy send); compared with the bare application "
                    "(status, header multiset up to name case, body bytes, inner app ran once); one header-editing middleware",
            "exhaustive": False}


def replay_ensure_next(inputs):
    """solver counterexample of contracts/c20.py wsgi.ensure_next: the body relayed for a given chunk list"""
    from baize.wsgi.middleware import ensure_next
    items = [x.encode("latin-1") if isinstance(x, str) else bytes(x) for x in inputs["items"]]
    src = list(items) if inputs.get("reiterable", True) else (c for c in items)
    got = b"".join(ensure_next(src))
    v = []
    if got != b"".join(items):
        v.append("ensure_next relayed %r for chunks %r" % (got, items))
    return {"violated": v}


def replay_edit(inputs):
    return {"violated": header_edit_case(inputs["iface"])}
