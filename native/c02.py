"""C02 native oracle / bounded stand-in: file responses end-to-end on real temp files (both interfaces,
zero-copy extension on/off).  Labelled bounded."""
import itertools
import os
import random
import re
import shutil
import tempfile
from email.utils import formatdate

from native import c03
from native.harness import run_wsgi, run_asgi, wsgi_environ, asgi_scope


def content(size):
    return bytes(i % 251 for i in range(size))


def parse_multipart_byteranges(body, boundary):
    """strict parser of the layout of the property statement: returns list of (content_type, range text, bytes) or None"""
    parts = []
    pos = 0
    delim = b"--" + boundary + b"\n"
    closing = b"--" + boundary + b"--\n"
    while True:
        if body[pos:pos + len(closing)] == closing:
            pos += len(closing)
            break
        if body[pos:pos + len(delim)] != delim:
            return None
        pos += len(delim)
        m = re.compile(rb"Content-Type: ([^\n]*)\nContent-Range: bytes (\d+)-(\d+)/(\d+)\n\n").match(body, pos)
        if not m:
            return None
        pos = m.end()
        s, e = int(m.group(2)), int(m.group(3)) + 1
        data = body[pos:pos + (e - s)]
        pos += e - s
        if body[pos:pos + 1] != b"\n":
            return None
        pos += 1
        parts.append((m.group(1), s, e, int(m.group(4)), data))
    if pos != len(body):
        return None
    return parts


def expected(size, range_header, if_range_kind, etag, lastmod):
    """what the property statement demands: ('full',) | ('ranges', [...]) | ('reject', {400,416})"""
    if range_header is None:
        return ("full",)
    if if_range_kind == "junk":
        return ("full",)
    want = c03.spec_of(range_header, size)
    if want["ranges"] is None:
        return ("reject", want["allowed"])
    return ("ranges", want["ranges"])


def check_response(rec, iface, size, data, exp, method, ctype_expected=None):
    v = []
    if rec["exception"] is not None:
        return ["exception %r" % rec["exception"]]
    v += rec["problems"]
    if rec["n_start"] != 1:
        v.append("start count %d" % rec["n_start"])
        return v
    if iface == "wsgi":
        status = int(rec["status"].split(" ")[0])
        hdrs = {k.lower(): val for k, val in rec["headers"]}
        raw_names = [k for k, _ in rec["headers"]]
    else:
        status = rec["status"]
        hdrs = {k.decode("latin-1").lower(): val.decode("latin-1") for k, val in rec["headers"]}
        raw_names = [k.decode("latin-1") for k, _ in rec["headers"]]
        if not rec["closed"]:
            v.append("no final body event")
    body = rec["body"]
    head = method == "HEAD"
    if exp[0] == "reject":
        if str(status) not in exp[1]:
            v.append("status %s, statement allows %s" % (status, sorted(exp[1])))
        if status == 416 and hdrs.get("content-range") != "*/%d" % size:
            v.append("416 without Content-Range: */size (%r)" % hdrs.get("content-range"))
        if any(b in body for b in [data[i:i + 4] for i in range(0, max(0, size - 4), 7)][:3]) and size >= 8:
            v.append("file data in an error response")
        if head and body != b"":
            v.append("HEAD with a body (%d bytes) on a %s response" % (len(body), status))
        return v
    if "content-length" not in hdrs:
        v.append("no content-length")
        return v
    declared = int(hdrs["content-length"])
    if exp[0] == "full":
        if status != 200:
            v.append("status %s, expected 200" % status)
        if declared != size:
            v.append("content-length %d != file size %d" % (declared, size))
        if not head and body != data:
            v.append("body != file")
    else:
        rs = exp[1]
        if status != 206:
            v.append("status %s, expected 206" % status)
        if len(rs) == 1:
            s, e = rs[0]
            if hdrs.get("content-range") != "bytes %d-%d/%d" % (s, e - 1, size):
                v.append("content-range %r" % hdrs.get("content-range"))
            if declared != e - s:
                v.append("content-length %d != %d" % (declared, e - s))
            if not head and body != data[s:e]:
                v.append("body != file[%d:%d]" % (s, e))
        else:
            m = re.fullmatch(r"multipart/byteranges; boundary=(\S+)", hdrs.get("content-type", ""))
            if not m:
                v.append("content-type %r" % hdrs.get("content-type"))
                return v
            if not head:
                parts = parse_multipart_byteranges(body, m.group(1).encode())
                if parts is None:
                    v.append("multipart body does not parse")
                else:
                    got = [(p[1], p[2]) for p in parts]
                    if got != [tuple(r) for r in rs]:
                        v.append("parts %s != ranges %s" % (got, rs))
                    for ct, s, e, total, chunk in parts:
                        if chunk != data[s:e]:
                            v.append("part bytes != file[%d:%d]" % (s, e))
                        if total != size:
                            v.append("part total %d != size" % total)
                    if len(body) != declared:
                        v.append("content-length %d != bytes sent %d" % (declared, len(body)))
    if head:
        if body != b"":
            v.append("HEAD with a body")
    elif len(body) != declared:
        v.append("content-length %d != bytes sent %d" % (declared, len(body)))
    return v


class Enough(Exception):
    """enough failures collected: stop the enumeration (a broken tree can make every case slow)"""


class Env:
    def __init__(self):
        self.dir = tempfile.mkdtemp(prefix="verif_c02_")
        self.files = {}

    def file(self, size):
        if size not in self.files:
            p = os.path.join(self.dir, "f%d.bin" % size)
            with open(p, "wb") as f:
                f.write(content(size))
            os.utime(p, (1700000000, 1700000000))
            self.files[size] = p
        return self.files[size]

    def close(self):
        shutil.rmtree(self.dir, ignore_errors=True)


def one_case(env, iface, zc, size, chunk, range_header, if_range_kind, method):
    from baize.wsgi import FileResponse as WFR
    from baize.asgi import FileResponse as AFR
    path = env.file(size)
    data = content(size)
    cls = WFR if iface == "wsgi" else AFR
    resp = cls(path, chunk_size=chunk)
    st = os.stat(path)
    etag = '"%s"' % cls.generate_etag(st)
    lastmod = formatdate(st.st_mtime, usegmt=True)
    headers = []
    if range_header is not None:
        headers.append(("Range", range_header))
    if if_range_kind == "etag":
        headers.append(("If-Range", etag))
    elif if_range_kind == "date":
        headers.append(("If-Range", lastmod))
    elif if_range_kind == "junk":
        headers.append(("If-Range", '"nope"'))
    exp = expected(size, range_header, if_range_kind, etag, lastmod)
    if iface == "wsgi":
        rec = run_wsgi(resp, wsgi_environ(method, "/", headers))
    else:
        rec = run_asgi(resp, asgi_scope(method, "/", headers), zerocopy=zc)
    v = check_response(rec, iface, size, data, exp, method)
    # HEAD sends the same headers as GET
    return v, rec, exp


def replay(inputs):
    env = Env()
    try:
        v, rec, exp = one_case(env, inputs["iface"], inputs.get("zerocopy", False), inputs["size"], inputs["chunk"],
                               inputs.get("range"), inputs.get("if_range", "absent"), inputs.get("method", "GET"))
        return {"violated": v, "expected": str(exp), "observed": {"status": str(rec["status"]), "body_len": len(rec["body"]),
                                                                   "events": [str(e)[:120] for e in rec["events"][:12]]}}
    finally:
        env.close()


def bounded(tier, seed):
    rng = random.Random(seed)
    env = Env()
    evals = 0
    distinct = set()
    failures = []
    samples = []
    try:
        chunks = [1, 2, 3] if tier == "thorough" else [1, 3]
        combos = []
        for c in chunks:
            sizes = sorted({0, 1, c - 1, c, c + 1, 2 * c, 2 * c + 1, 3 * c, 3 * c + 1} - {-1})
            for size in sizes:
                texts = c03.spec_texts(size, 4)
                hdrs = [None] + ["bytes=" + t for t in texts]
                pairs = list(itertools.product(texts, repeat=2))
                if tier == "quick":
                    pairs = rng.sample(pairs, min(len(pairs), 12))
                hdrs += ["bytes=" + ",".join(p) for p in pairs]
                triples = list(itertools.product(texts, repeat=3))
                hdrs += ["bytes=" + ",".join(p) for p in rng.sample(triples, min(len(triples), 6 if tier == "quick" else 60))]
                hdrs += ["bytes=", "items=0-1", "bytes=1-0"]
                # always some genuine multi-part requests: parts that are whole chunks, one-byte parts, a part up to the end
                if size >= 3 * c:
                    hdrs += ["bytes=0-%d,%d-%d" % (c - 1, 2 * c, 3 * c - 1), "bytes=%d-%d,0-%d" % (2 * c, 3 * c - 1, c - 1)]
                if size >= 3:
                    hdrs += ["bytes=0-0,%d-%d" % (size - 1, size - 1), "bytes=0-0,-1", "bytes=0-0,2-"]
                for h in hdrs:
                    combos.append((size, c, h))
        ifaces = [("wsgi", False), ("asgi", False), ("asgi", True)]
        for size, c, h in combos:
            for iface, zc in ifaces:
                kinds = ["absent"] if h is None else (["absent", "etag", "date", "junk"] if (tier == "thorough" or rng.random() < 0.25) else ["absent"])
                for kind in kinds:
                    per_method = {}
                    for method in ("GET", "HEAD"):
                        v, rec, exp = one_case(env, iface, zc, size, c, h, kind, method)
                        evals += 1
                        per_method[method] = rec
                        if exp[0] == "ranges":
                            distinct.add((iface, zc, size, c, h, kind, method))
                        if v and len(failures) < 10:
                            failures.append({"inputs": {"iface": iface, "zerocopy": zc, "size": size, "chunk": c, "range": h,
                                                        "if_range": kind, "method": method}, "violated": v})
                            if len(failures) >= 6:
                                raise Enough()
                        elif len(samples) < 5 and exp[0] == "ranges" and len(exp[1]) > 1 and method == "GET":
                            samples.append({"iface": iface, "zerocopy": zc, "size": size, "chunk": c, "range": h,
                                            "status": str(rec["status"]), "body_len": len(rec["body"])})
                    g, hd = per_method["GET"], per_method["HEAD"]
                    if g["exception"] is None and hd["exception"] is None and g["headers"] is not None and hd["headers"] is not None:
                        def norm(hs):
                            out = []
                            for k, val in hs:
                                k = k.decode("latin-1") if isinstance(k, bytes) else k
                                val = val.decode("latin-1") if isinstance(val, bytes) else val
                                if k.lower() == "content-type" and val.startswith("multipart/byteranges"):
                                    val = "multipart/byteranges; boundary=*"
                                if k.lower() == "content-length" and "multipart" in str(hs):
                                    continue
                                out.append((k.lower(), val))
                            return sorted(out)
                        if norm(g["headers"]) != norm(hd["headers"]) and len(failures) < 10:
                            failures.append({"inputs": {"iface": iface, "zerocopy": zc, "size": size, "chunk": c, "range": h,
                                                        "if_range": kind, "method": "HEAD"},
                                             "violated": ["HEAD headers differ from GET headers"]})
        # a few big ones with the default chunk size
        for size in ([70000] if tier == "quick" else [70000, 262144, 262145, 600000]):
            for iface, zc in ifaces:
                for h in (None, "bytes=0-0", "bytes=100-65599", "bytes=-1", "bytes=0-9,65536-65545,%d-" % (size - 5)):
                    v, rec, exp = one_case(env, iface, zc, size, 4096 * 64 if size > 100000 else 4096, h, "absent", "GET")
                    evals += 1
                    if v and len(failures) < 10:
                        failures.append({"inputs": {"iface": iface, "zerocopy": zc, "size": size, "chunk": 4096, "range": h,
                                                    "if_range": "absent", "method": "GET"}, "violated": v})
    except Enough:
        pass
    finally:
        env.close()
    return {"evaluations": evals, "distinct_nontrivial": len(distinct), "failures": failures, "samples": samples,
            "rule": "real temp files of sizes {0,1,c-1,c,c+1,2c,2c+1,3c,3c+1} for chunk sizes c in %s (always incl. multi-part requests whose parts are whole chunks); Range headers: none, every single "
                    "spec over 0..size+2 (three forms), sampled pairs and triples, malformed ones; If-Range in "
                    "{absent, etag, date, junk}; GET and HEAD; WSGI, ASGI, ASGI+zero-copy; a few large files; non-trivial = "
                    "a satisfiable range request (206), counted distinct by the whole input tuple" % chunks,
            "exhaustive": False}
