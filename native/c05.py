"""C05 native bounded stand-in: every response class under a recording, protocol-checking server, with producer
faults and client disconnects injected at every point.  Labelled bounded."""
import asyncio
import os
import random
import re
import shutil
import tempfile

from native.harness import run_wsgi, run_asgi, wsgi_environ, asgi_scope

HOP = {"connection", "keep-alive", "proxy-authenticate", "proxy-authorization", "te", "trailers", "transfer-encoding", "upgrade"}


class Boom(Exception):
    pass


def check_wsgi(rec, allow_exc=False):
    v = list(rec["problems"])
    if rec["exception"] is not None and not allow_exc:
        v.append("exception %r" % (rec["exception"],))
    if rec["n_start"] > 1:
        v.append("start_response called %d times" % rec["n_start"])
    if rec["n_start"] == 0 and rec["exception"] is None:
        v.append("start_response never called")
    if rec["status"] is not None:
        if not isinstance(rec["status"], str) or not re.fullmatch(r"\d{3} [^\r\n\0]+", rec["status"]):
            v.append("status line %r" % (rec["status"],))
        for k, val in rec["headers"]:
            if type(k) is not str or type(val) is not str:
                v.append("header not native str: %r" % ((k, val),))
                continue
            try:
                k.encode("latin-1"), val.encode("latin-1")
            except UnicodeEncodeError:
                v.append("header not latin-1: %r" % ((k, val),))
            if any(c in k + val for c in "\r\n\0"):
                v.append("control character in header %r" % ((k, val),))
            if k.lower() in HOP:
                v.append("hop-by-hop header %r" % k)
    return v


def check_asgi(rec, allow_exc=False, need_final=True):
    v = list(rec["problems"])
    if rec["exception"] is not None and not allow_exc:
        v.append("exception %r" % (rec["exception"],))
    if rec["exception"] is None and need_final:
        if rec["n_start"] != 1:
            v.append("start count %d" % rec["n_start"])
        if not rec["closed"]:
            v.append("no final body event")
    return v


def small_recipes():
    out = []
    for status in (200, 201, 404, 599, 299):
        for hdrs in (None, {"X-A": "1"}, {"Content-Type": "x/y", "content-length": "3"}):
            out.append(("Response", dict(status_code=status, headers=hdrs)))
    for content in ("", "héllo", b"raw", "x" * 70000):
        for status in (200, 418):
            out.append(("PlainTextResponse", dict(content=content, status_code=status)))
            out.append(("HTMLResponse", dict(content=content, status_code=status)))
    for content in ({"a": [1, 2, "é"]}, [], "s", None, 1.5):
        out.append(("JSONResponse", dict(content=content)))
    for url in ("/a", "/é?q=1#f", "http://h/ü", "/a\r\nSet-Cookie: x=1", "/\0", "/\u6587\u6863/?q=\u4e2d", "http://h/\U0001f600"):
        out.append(("RedirectResponse", dict(url=url)))
        out.append(("RedirectResponse", dict(url=("URL", url))))       # the target given as a URL object
    return out


def cookie_variants(resp, k):
    if k == 1:
        resp.set_cookie("a", "b")
    if k == 2:
        resp.set_cookie("a", "b; c", max_age=3, expires=10)
        resp.set_cookie("n", 'q"\\é')
        resp.delete_cookie("gone")


def bounded(tier, seed):
    import baize.wsgi as W
    import baize.asgi as A
    rng = random.Random(seed)
    evals = 0
    distinct = set()
    failures = []
    samples = []

    def fail(inputs, v):
        if len(failures) < 10:
            failures.append({"inputs": inputs, "violated": v})

    # ---- one-shot responses
    for name, kwargs in small_recipes():
        for ck in (0, 1, 2):
            for method in ("GET", "HEAD"):
                for iface in ("wsgi", "asgi"):
                    mod = W if iface == "wsgi" else A
                    inputs = {"kind": "small", "cls": name, "kwargs": repr(kwargs), "cookies": ck, "method": method, "iface": iface}
                    try:
                        kw = dict(kwargs)
                        if isinstance(kw.get("url"), tuple):
                            from baize.datastructures import URL
                            try:
                                kw["url"] = URL(kw["url"][1])
                            except ValueError:
                                continue
                        resp = getattr(mod, name)(**kw)
                        cookie_variants(resp, ck)
                    except ValueError:
                        continue   # rejected at construction (control characters): allowed by C13
                    evals += 1
                    if iface == "wsgi":
                        rec = run_wsgi(resp, wsgi_environ(method))
                        v = check_wsgi(rec)
                    else:
                        rec = run_asgi(resp, asgi_scope(method))
                        v = check_asgi(rec)
                    distinct.add((name, repr(kwargs), ck, iface))
                    if v:
                        fail(inputs, v)
                    elif len(samples) < 3 and ck == 2 and iface == "asgi":
                        samples.append({"cls": name, "events": [str(e)[:100] for e in rec["events"]]})
    # ---- streaming responses with fault injection
    for iface in ("wsgi", "asgi"):
        mod = W if iface == "wsgi" else A
        for n_items in range(0, 4):
            for raise_at in [None] + list(range(0, n_items + 1)):
                for kind in ("StreamResponse", "SendEventResponse"):
                    def make_items():
                        if kind == "StreamResponse":
                            return [b"c%d" % i for i in range(n_items)]
                        return [{"data": "d%d" % i, "event": "e"} for i in range(n_items)]

                    items = make_items()
                    if iface == "wsgi":
                        def gen():
                            for i, it in enumerate(items):
                                if raise_at == i:
                                    raise Boom()
                                yield it
                            if raise_at == len(items):
                                raise Boom()
                        it_obj = gen()
                    else:
                        async def agen():
                            for i, it in enumerate(items):
                                if raise_at == i:
                                    raise Boom()
                                yield it
                            if raise_at == len(items):
                                raise Boom()
                        it_obj = agen()
                    kw = {"ping_interval": 0.2} if kind == "SendEventResponse" else {}
                    resp = getattr(mod, kind)(it_obj, **kw)
                    evals += 1
                    inputs = {"kind": "stream", "cls": kind, "n_items": n_items, "raise_at": raise_at, "iface": iface}
                    if iface == "wsgi":
                        rec = run_wsgi(resp, wsgi_environ("GET"))
                        v = check_wsgi(rec, allow_exc=raise_at is not None)
                        if raise_at is None and rec["exception"] is not None:
                            v.append("exception without a fault: %r" % rec["exception"])
                        if raise_at is not None and not isinstance(rec["exception"], Boom):
                            v.append("producer exception not propagated: %r" % (rec["exception"],))
                    else:
                        rec = run_asgi(resp, asgi_scope("GET"))
                        v = check_asgi(rec, allow_exc=raise_at is not None, need_final=raise_at is None)
                        if raise_at is not None and not isinstance(rec["exception"], Boom):
                            v.append("producer exception not propagated: %r" % (rec["exception"],))
                    if raise_at is None and kind == "StreamResponse":
                        if rec["body"] != b"".join(items):
                            v.append("streamed body differs")
                    distinct.add((kind, n_items, raise_at, iface))
                    if v:
                        fail(inputs, v)
        # client disconnect at every point (ASGI)
        if iface == "asgi":
            for n_items in (1, 3):
                for disc_after in range(0, n_items + 2):
                    async def agen2():
                        for i in range(n_items):
                            await asyncio.sleep(0.01)
                            yield b"c%d" % i
                    resp = A.StreamResponse(agen2())
                    evals += 1
                    rec = run_asgi(resp, asgi_scope("GET"), disconnect_after_body_events=disc_after)
                    v = check_asgi(rec, need_final=False)
                    distinct.add(("disconnect", n_items, disc_after))
                    if v:
                        fail({"kind": "disconnect", "n_items": n_items, "disc_after": disc_after}, v)
    # ---- file responses incl. non-ASCII names and range errors
    d = tempfile.mkdtemp(prefix="verif_c05_")
    try:
        for fname in ("a.txt", "b.bin", "naïve.txt", "π.txt", "sp ace.txt"):
            p = os.path.join(d, fname)
            with open(p, "wb") as f:
                f.write(b"0123456789")
            for dl in (None, "dl.txt", "ü.txt", "π.txt"):
              # (Range alone, and Range with an If-Range validator that is stale / junk / current: the request-header dispatch)
              for if_range in ((None,) if dl else (None, '"stale"', "Wed, 21 Oct 2015 07:28:00 GMT", "junk", "CURRENT")):
                for rng_h in (None, "bytes=0-3", "bytes=0-1,3-4", "bytes=99-", "bytes=5-4", "nope"):
                  for method in (("GET",) if dl else ("GET", "HEAD")):
                    for iface in ("wsgi", "asgi"):
                        mod = W if iface == "wsgi" else A
                        evals += 1
                        inputs = {"kind": "file", "file": fname, "download_name": dl, "range": rng_h, "iface": iface,
                                  "if_range": if_range, "method": method}
                        try:
                            resp = mod.FileResponse(p, download_name=dl)
                        except Exception as e:  # noqa
                            fail(inputs, ["constructor raised %r" % e])
                            continue
                        hs = [("Range", rng_h)] if rng_h else []
                        if if_range is not None:
                            cur = '"%s"' % mod.FileResponse.generate_etag(os.stat(p))
                            hs.append(("If-Range", cur if if_range == "CURRENT" else if_range))
                        if iface == "wsgi":
                            rec = run_wsgi(resp, wsgi_environ(method, "/", hs))
                            v = check_wsgi(rec)
                        else:
                            rec = run_asgi(resp, asgi_scope(method, "/", hs))
                            v = check_asgi(rec)
                        distinct.add((fname, dl, rng_h, iface, if_range, method))
                        if v:
                            fail(inputs, v)
    finally:
        shutil.rmtree(d, ignore_errors=True)
    # ---- status table (finite, exhaustive): A-status-table
    from baize.wsgi.responses import StatusStringMapping
    seen_lines = {}
    for code in range(100, 1000):
        line = StatusStringMapping[code]
        evals += 1
        if not re.fullmatch(r"%d [^\r\n\0]+" % code, line):
            fail({"kind": "status", "code": code}, ["status line %r" % line])
        seen_lines[line] = code
    if len(seen_lines) != 900:
        fail({"kind": "status"}, ["status lines are not injective"])
    return {"evaluations": evals, "distinct_nontrivial": len(distinct), "failures": failures, "samples": samples,
            "rule": "every bundled response class x a grid of constructor arguments (status codes incl. unknown ones, header "
                    "sets, 0/1/3 cookies, text/bytes/JSON, redirect targets incl. CR/LF/NUL, files incl. non-ASCII names, "
                    "range errors) x GET/HEAD x WSGI/ASGI; streaming classes with a producer raising before item k for every "
                    "k, ASGI disconnect after k body events for every k; the status table over all codes 100..999 "
                    "(exhaustive); distinct by recipe tuple",
            "exhaustive": False}


def replay(inputs):
    out = bounded("quick", 0)
    hits = [f for f in out["failures"] if f["inputs"] == inputs]
    return {"violated": hits[0]["violated"] if hits else [], "note": "replayed by re-running the recipe grid"}
