"""Recording WSGI / ASGI servers for the native layer (strictly protocol-checking; no network)."""
import asyncio
import os


class ProtocolError(AssertionError):
    pass


def run_wsgi(app, environ, close=True, max_chunks=100000):
    """returns dict(status, headers(list of pairs), body(bytes), chunks, events, problems)"""
    rec = {"status": None, "headers": None, "n_start": 0, "events": [], "problems": []}

    def start_response(status, headers, exc_info=None):
        rec["n_start"] += 1
        rec["events"].append(("start", status, list(headers)))
        if rec["n_start"] > 1 and exc_info is None:
            rec["problems"].append("start_response called twice")
        rec["status"] = status
        rec["headers"] = list(headers)
        return lambda data: rec["problems"].append("write() callable used")

    chunks = []
    exc = None
    try:
        it = app(environ, start_response)
        try:
            for chunk in it:
                rec["events"].append(("chunk", chunk if len(chunk) < 64 else len(chunk)))
                if not isinstance(chunk, bytes):
                    rec["problems"].append("non-bytes chunk %r" % type(chunk).__name__)
                    chunk = bytes(chunk) if isinstance(chunk, (bytearray, memoryview)) else b""
                if chunk and rec["n_start"] == 0:
                    rec["problems"].append("body bytes before start_response")
                chunks.append(chunk)
                if len(chunks) > max_chunks:
                    rec["problems"].append("too many chunks")
                    break
        finally:
            if close and hasattr(it, "close"):
                it.close()
    except Exception as e:  # noqa
        exc = e
    rec["chunks"] = chunks
    rec["body"] = b"".join(chunks)
    rec["exception"] = exc
    return rec


def run_asgi(app, scope, messages=None, zerocopy=False, disconnect_after_body_events=None, timeout=20, max_events=3000):
    """messages: list of receive() events (then http.disconnect forever, after a short sleep)."""
    rec = {"events": [], "problems": [], "status": None, "headers": None, "body": b"", "n_start": 0, "n_body": 0,
           "closed": False}
    msgs = list(messages or [])
    if zerocopy:
        scope = dict(scope)
        scope["extensions"] = dict(scope.get("extensions", {}), **{"http.response.zerocopysend": {}})
    state = {"disc": asyncio.Event() if False else None}

    async def receive():
        if msgs:
            return msgs.pop(0)
        if disconnect_after_body_events is not None:
            while rec["n_body"] < disconnect_after_body_events:
                await asyncio.sleep(0.001)
            return {"type": "http.disconnect"}
        await asyncio.sleep(3600)
        return {"type": "http.disconnect"}

    async def send(message):
        t = message.get("type")
        rec["n_events"] = rec.get("n_events", 0) + 1
        if rec["n_events"] > max_events:
            rec["problems"].append("runaway response: more than %d events" % max_events)
            raise ProtocolError("runaway response")
        if rec["closed"]:
            rec["problems"].append("event %s after the final body event" % t)
        if t == "http.response.start":
            rec["n_start"] += 1
            if rec["n_start"] > 1:
                rec["problems"].append("second http.response.start")
            if rec["n_body"]:
                rec["problems"].append("start after body")
            rec["status"] = message.get("status")
            rec["headers"] = list(message.get("headers", []))
            rec["events"].append(("start", message.get("status"), rec["headers"]))
            if type(message.get("status")) is not int:
                rec["problems"].append("status is not an int")
            for k, v in rec["headers"]:
                if not isinstance(k, bytes) or not isinstance(v, bytes):
                    rec["problems"].append("header name/value not bytes: %r" % ((k, v),))
                elif k != k.lower():
                    rec["problems"].append("header name not lower-case: %r" % k)
        elif t == "http.response.body":
            if rec["n_start"] != 1:
                rec["problems"].append("body before start")
            body = message.get("body", b"")
            if not isinstance(body, bytes):
                rec["problems"].append("body is not bytes")
                body = bytes(body)
            rec["body"] += body
            rec["n_body"] += 1
            more = message.get("more_body", False)
            rec["events"].append(("body", len(body), bool(more)))
            if not more:
                rec["closed"] = True
        elif t == "http.response.zerocopysend":
            if not zerocopy:
                rec["problems"].append("zerocopysend without the extension")
            if rec["n_start"] != 1:
                rec["problems"].append("body before start")
            fd = message["file"]
            if "offset" in message:
                os.lseek(fd, message["offset"], os.SEEK_SET)
            if "count" in message:
                data = b""
                want = message["count"]
                while len(data) < want:
                    piece = os.read(fd, want - len(data))
                    if not piece:
                        break
                    data += piece
            else:
                data = b""
                while True:
                    piece = os.read(fd, 65536)
                    if not piece:
                        break
                    data += piece
            rec["body"] += data
            rec["n_body"] += 1
            more = message.get("more_body", False)
            rec["events"].append(("zerocopy", len(data), bool(more)))
            if not more:
                rec["closed"] = True
        else:
            rec["problems"].append("unknown event type %r" % t)

    async def main():
        await asyncio.wait_for(app(scope, receive, send), timeout=timeout)

    exc = None
    try:
        asyncio.run(main())
    except Exception as e:  # noqa
        exc = e
    rec["exception"] = exc
    return rec


def wsgi_environ(method="GET", path="/", headers=(), query="", body=b"", scheme="http", server=("testserver", 80),
                 script_name=""):
    import io
    env = {
        # PEP 3333: the path arrives as UTF-8 bytes decoded with Latin-1
        "REQUEST_METHOD": method, "SCRIPT_NAME": script_name.encode("utf-8").decode("latin-1"),
        "PATH_INFO": path.encode("utf-8").decode("latin-1"), "QUERY_STRING": query,
        "SERVER_NAME": server[0], "SERVER_PORT": str(server[1]), "SERVER_PROTOCOL": "HTTP/1.1",
        "wsgi.version": (1, 0), "wsgi.url_scheme": scheme, "wsgi.input": io.BytesIO(body), "wsgi.errors": io.StringIO(),
        "wsgi.multithread": False, "wsgi.multiprocess": False, "wsgi.run_once": False,
    }
    for k, v in headers:
        key = k.upper().replace("-", "_")
        if key in ("CONTENT_TYPE", "CONTENT_LENGTH"):
            env[key] = v
        else:
            key = "HTTP_" + key
            env[key] = (env[key] + ", " + v) if key in env else v
    return env


def asgi_scope(method="GET", path="/", headers=(), query="", scheme="http", server=("testserver", 80), root_path="",
               typ="http"):
    return {"type": typ, "asgi": {"version": "3.0"}, "http_version": "1.1", "method": method, "scheme": scheme,
            "path": path, "raw_path": path.encode("utf8"), "root_path": root_path, "query_string": query.encode("latin-1"),
            "headers": [(k.lower().encode("latin-1"), v.encode("latin-1")) for k, v in headers],
            "server": server, "client": ("127.0.0.1", 1234)}
