"""C01 / C15 native bounded stand-in: the multipart decoder, the stream helpers and Request.form against a reference
encoder, for every chunking of the body (bounded)."""
import asyncio
import io
import itertools
import random

from native.harness import wsgi_environ, asgi_scope


def encode(parts, boundary, preamble=b"", epilogue=b"", nl=b"\r\n"):
    """parts: list of (name, filename or None, content_type or None, content bytes)"""
    out = [preamble]
    for k, (name, filename, ctype, content) in enumerate(parts):
        # every delimiter is  line-break "--" boundary;  only the very first one may omit the line break, when there is
        # no preamble (an EMPTY part content still gets its own line break before the next delimiter)
        out.append((nl if (k > 0 or preamble) else b"") + b"--" + boundary + nl)
        disp = b'Content-Disposition: form-data; name="' + name.encode() + b'"'
        if filename is not None:
            disp += b'; filename="' + filename.encode() + b'"'
        out.append(disp + nl)
        if ctype:
            out.append(b"Content-Type: " + ctype.encode() + nl)
        out.append(nl)
        out.append(content)
    out.append(nl + b"--" + boundary + b"--" + nl + epilogue)
    return b"".join(out)


def cuts(n, k):
    return itertools.combinations(range(1, n), k)


def chunkings(body, max_cuts, rng, limit):
    n = len(body)
    out = [[body], [bytes([b]) for b in body], [b""] + [body] + [b""]]
    allc = []
    for k in range(1, max_cuts + 1):
        allc += list(cuts(n, k))
    if len(allc) > limit:
        allc = rng.sample(allc, limit)
    for c in allc:
        pts = [0] + list(c) + [n]
        out.append([body[pts[i]:pts[i + 1]] for i in range(len(pts) - 1)])
    return out


def decode_events(chunks, boundary, charset="utf8"):
    from baize.multipart import MultipartDecoder, NeedData, Epilogue, Field, File, Data, Preamble
    d = MultipartDecoder(boundary, charset)
    parts = []
    cur = None
    maxbuf = 0
    for chunk in list(chunks) + [None]:
        d.receive_data(chunk)
        while True:
            ev = d.next_event()
            maxbuf = max(maxbuf, len(d.buffer) - (len(chunk) if chunk else 0))
            if isinstance(ev, NeedData):
                break
            if isinstance(ev, Epilogue):
                return parts, maxbuf
            if isinstance(ev, Field):
                cur = {"name": ev.name, "filename": None, "headers": dict(ev.headers), "data": b""}
            elif isinstance(ev, File):
                cur = {"name": ev.name, "filename": ev.filename, "headers": dict(ev.headers), "data": b""}
            elif isinstance(ev, Data):
                cur["data"] += ev.data
                if not ev.more_data:
                    parts.append(cur)
                    cur = None
            elif isinstance(ev, Preamble):
                pass
    return parts, maxbuf


def want_parts(parts):
    return [{"name": n, "filename": f, "data": c, "ctype": ct} for n, f, ct, c in parts]


def compare(got, parts, via):
    v = []
    want = want_parts(parts)
    if len(got) != len(want):
        return ["%s: %d parts decoded, %d encoded" % (via, len(got), len(want))]
    for g, w in zip(got, want):
        if g["name"] != w["name"] or g["filename"] != w["filename"] or g["data"] != w["data"]:
            v.append("%s: part %r decoded as name=%r filename=%r data=%r" % (via, w, g["name"], g["filename"], g["data"][:40]))
        if w["ctype"] and g["headers"].get("content-type") != w["ctype"]:
            v.append("%s: content-type header %r" % (via, g["headers"].get("content-type")))
    return v


def via_helpers(chunks, boundary, parts):
    from baize.multipart_helper import parse_stream, parse_async_stream
    from baize.datastructures import UploadFile
    v = []

    def norm(items):
        out = []
        for name, val in items:
            if isinstance(val, str):
                out.append({"name": name, "filename": None, "data": val.encode("utf8"), "headers": {}})
            else:
                out.append({"name": name, "filename": val.filename, "data": val.file.read(), "headers": dict(val.headers)})
        return out
    try:
        items = parse_stream(iter(chunks), boundary, "utf8", file_factory=UploadFile)
        v += compare(norm(items), parts, "parse_stream")
    except Exception as e:  # noqa
        v.append("parse_stream raised %r" % e)

    async def agen():
        for c in chunks:
            yield c

    async def go():
        return await parse_async_stream(agen(), boundary, "utf8", file_factory=UploadFile)
    try:
        items = asyncio.run(go())
        v += compare(norm(items), parts, "parse_async_stream")
    except Exception as e:  # noqa
        v.append("parse_async_stream raised %r" % e)
    return v


def via_requests(chunks, boundary, parts):
    import baize.wsgi as W
    import baize.asgi as A
    v = []
    # the media type is case-insensitive (RFC 9110 8.3.1): the spelling varies with the input
    mt = ("multipart/form-data", "Multipart/Form-Data", "MULTIPART/FORM-DATA")[len(b"".join(chunks)) % 3]
    ctype = mt + "; boundary=" + boundary.decode()

    def norm(form):
        out = []
        for name, val in form.multi_items():
            if isinstance(val, str):
                out.append({"name": name, "filename": None, "data": val.encode("utf8"), "headers": {}})
            else:
                out.append({"name": name, "filename": val.filename, "data": val.file.read(), "headers": dict(val.headers)})
        return out
    try:
        req = W.Request(wsgi_environ("POST", "/", [("Content-Type", ctype)], body=b"".join(chunks)))
        v += compare(norm(req.form), parts, "wsgi Request.form")
    except Exception as e:  # noqa
        v.append("wsgi form raised %r" % e)
    msgs = [{"type": "http.request", "body": c, "more_body": i < len(chunks) - 1} for i, c in enumerate(chunks)]

    async def go():
        async def receive():
            return msgs.pop(0)
        req = A.Request(asgi_scope("POST", "/", [("Content-Type", ctype)]), receive)
        return norm(await req.form)
    try:
        v += compare(asyncio.run(go()), parts, "asgi Request.form")
    except Exception as e:  # noqa
        v.append("asgi form raised %r" % e)
    return v


def check_body(parts, boundary, chunks, deep):
    v = []
    try:
        got, maxbuf = decode_events(chunks, boundary)
        v += compare(got, parts, "decoder")
    except Exception as e:  # noqa
        return ["decoder raised %r" % e]
    if deep:
        v += via_helpers(chunks, boundary, parts)
        v += via_requests(chunks, boundary, parts)
    return v


def replay(inputs):
    parts = [(p[0], p[1], p[2], p[3].encode("latin-1")) for p in inputs["parts"]]
    chunks = [c.encode("latin-1") for c in inputs["chunks"]]
    return {"violated": check_body(parts, inputs["boundary"].encode("latin-1"), chunks, True)}


def contents(boundary, maxlen):
    alpha = [b"\r", b"\n", b"-", boundary[:1], b"x"]
    out = [b""]
    for n in range(1, maxlen + 1):
        out += [b"".join(p) for p in itertools.product(alpha, repeat=n)]
    return [c for c in out if (b"--" + boundary) not in c]


def bounded(tier, seed):
    rng = random.Random(seed)
    evals = 0
    distinct = set()
    failures = []
    samples = []
    boundaries = [b"b", b"-b", b"b-"] if tier == "thorough" else [b"b", b"-b"]
    maxlen = 4 if tier == "thorough" else 3
    for boundary in boundaries:
        cs = contents(boundary, maxlen)
        if tier == "quick":
            cs = rng.sample(cs, min(len(cs), 60)) + [b"\r\n--", b"\r\n-" + boundary, b"--", b"\r", b"\n\r\n"]
        for content in cs:
            for second in ((None,), ("field",), ("file",)) if tier == "thorough" or rng.random() < 0.3 else ((None,),):
                parts = [("f", "up.bin", "application/octet-stream", content)]
                if second[0] == "field":
                    parts.append(("t", None, None, b"v\r\n-"))
                elif second[0] == "file":
                    parts.insert(0, ("a", None, None, b"text"))
                for pre, epi in ((b"", b""), (b"pre", b"epi\r\n")) if rng.random() < 0.2 else ((b"", b""),):
                    body = encode(parts, boundary, pre, epi)
                    chs = chunkings(body, 2 if tier == "quick" else 3, rng, 40 if tier == "quick" else 200)
                    for i, chunks in enumerate(chs):
                        evals += 1
                        deep = i < 3 or rng.random() < 0.05
                        v = check_body(parts, boundary, chunks, deep)
                        distinct.add((boundary, content, second, len(chunks), tuple(len(c) for c in chunks)))
                        if v and len(failures) < 10:
                            failures.append({"inputs": {"parts": [[p[0], p[1], p[2], p[3].decode("latin-1")] for p in parts],
                                                        "boundary": boundary.decode("latin-1"), "chunks": [c.decode("latin-1") for c in chunks]},
                                             "violated": v[:3]})
                        elif len(samples) < 3 and deep and len(chunks) == 3:
                            samples.append({"content": content.decode("latin-1"), "boundary": boundary.decode(), "chunk_lengths": [len(c) for c in chunks]})
    # a TEXT field (no filename) whose content holds 2-, 3- and 4-byte UTF-8 characters and an embedded CRLF: every chunk
    # edge inside a character, through the decoder, both helpers and both Request.form (text is decoded per part, never per chunk)
    utext = "caf\u00e9 \u4f60\u597d \U0001f600\r\nzwei \u00fc\u00df \u20ac"
    uparts = [("t", None, None, utext.encode("utf-8")), ("u", None, None, "\u00e9".encode("utf-8"))]
    ubody = encode(uparts, b"bnd")
    uch = [[ubody], [bytes([b]) for b in ubody]]
    for cut in range(1, len(ubody)):
        if tier == "thorough" or (ubody[cut] & 0xC0) == 0x80 or cut % 7 == 0:     # quick: every edge inside a character, and a sample
            uch.append([ubody[:cut], ubody[cut:]])
    for chunks in uch:
        evals += 1
        v = check_body(uparts, b"bnd", chunks, True)
        distinct.add((b"bnd", b"utf8-text", len(chunks), tuple(len(c) for c in chunks)))
        if v and len(failures) < 10:
            failures.append({"inputs": {"parts": [[p[0], p[1], p[2], p[3].decode("latin-1")] for p in uparts], "boundary": "bnd",
                                        "chunks": [c.decode("latin-1") for c in chunks]}, "violated": v[:3]})
    # names, filenames and part-header values holding VT, FF, FS, GS, RS, NEL, LS, PS: characters a TEXT splitlines() would split
    # at, but which are ordinary content of a header line (only CR / LF / CRLF end one)
    for odd in ("\x0b", "\x0c", "\x1c", "\x1d", "\x1e", "\x85", "\u2028", "\u2029"):
        oparts = [("pa" + odd + "ge", None, None, b"v"), ("f", "Q3" + odd + "r: x.txt", "text/plain", b"data " + odd.encode("utf-8"))]
        obody = encode(oparts, b"bnd")
        for chunks in ([obody], [obody[:40], obody[40:]], [bytes([b]) for b in obody]):
            evals += 1
            v = check_body(oparts, b"bnd", chunks, True)
            distinct.add((b"bnd", odd.encode("utf-8"), len(chunks)))
            if v and len(failures) < 10:
                failures.append({"inputs": {"parts": [[p[0], p[1], p[2], p[3].decode("latin-1")] for p in oparts], "boundary": "bnd",
                                            "chunks": [c.decode("latin-1") for c in chunks]}, "violated": v[:3]})
    # zero parts, LF-only line breaks, unicode names, a file part with an empty filename
    for parts, nl in (([("a", None, None, b"t"), ("f", "", "application/octet-stream", b"\x00bin\xff")], b"\r\n"), ([], b"\r\n"), ([("n", None, None, b"v")], b"\n"), ([("é", "ü.txt", "text/plain", b"\xff\x00")], b"\r\n")):
        body = encode(parts, b"bnd", nl=nl)
        for chunks in chunkings(body, 1, rng, 30):
            evals += 1
            v = check_body(parts, b"bnd", chunks, True)
            if v and len(failures) < 10:
                failures.append({"inputs": {"parts": [[p[0], p[1], p[2], p[3].decode("latin-1")] for p in parts], "boundary": "bnd",
                                            "chunks": [c.decode("latin-1") for c in chunks]}, "violated": v[:3]})
    return {"evaluations": evals, "distinct_nontrivial": len(distinct), "failures": failures, "samples": samples,
            "rule": "file part contents: every string up to length %d over {CR, LF, '-', first boundary byte, 'x'} that does not contain "
                    "the delimiter (quick: seeded sample), boundaries %s, optionally a second field/file part, preamble/epilogue; "
                    "every chunking with up to %d cuts (or a seeded sample) plus one-chunk, byte-at-a-time and empty chunks; through "
                    "the event decoder always and through both stream helpers and both Request.form for a sample; compared with "
                    "what a reference encoder put in" % (maxlen, boundaries, 2 if tier == "quick" else 3),
            "exhaustive": False}
