"""Run-time contract checking of the real function on a concrete case (see pyvc/rtreplay.py).

Runs under the interpreter of the library.  The clause language is the Python-expression language of the contracts; it is
interpreted here directly on Python values (no solver).  Quantifiers over an index range are enumerated; a quantifier over ALL
strings (`forall((k, Str), ...)`) is enumerated over the strings that occur in the case (arguments, result, object state) and
their lower-case forms - enough to FIND a violating key, never to prove there is none, which is all a replay needs.
Anything the interpreter does not know makes the clause 'skipped'; if nothing could be checked the case is 'unsupported'."""
import ast
import asyncio
import copy
import importlib
import inspect


class Skip(Exception):
    pass


def untag(v):
    t = v["t"]
    if t == "none":
        return None
    if t in ("int", "bool"):
        return v["v"]
    if t == "str":
        return v["v"]
    if t == "bytes":
        return v["v"].encode("latin-1", "replace")
    if t == "tuple":
        return tuple(untag(x) for x in v["v"])
    if t == "list":
        return [untag(x) for x in v["v"]]
    if t == "dict":
        return {k: untag(x) for k, x in v["v"].items()}
    if t == "obj":
        return make_obj(v["cls"], {k: untag(x) for k, x in v["v"].items()})
    raise Skip("value tag %s" % t)


def make_obj(cls_path, fields):
    if cls_path == "SplitResult":
        from urllib.parse import SplitResult
        return SplitResult(*[fields.get(k) or "" for k in ("scheme", "netloc", "path", "query", "fragment")])
    if ":" not in cls_path:
        raise Skip("abstract object %s" % cls_path)
    rel, cn = cls_path.split(":")
    mod = importlib.import_module(rel[:-3].replace("/", "."))
    cls = getattr(mod, cn)
    o = object.__new__(cls)
    for k, val in fields.items():
        object.__setattr__(o, k, val) if not hasattr(type(o), "__slots__") else setattr(o, k, val)
    return o


def strings_in(x, out, depth=0):
    if depth > 5:
        return
    if isinstance(x, str):
        out.add(x)
    elif isinstance(x, bytes):
        try:
            out.add(x.decode("latin-1"))
        except Exception:
            pass
    elif isinstance(x, dict):
        for k, v in x.items():
            strings_in(k, out, depth + 1)
            strings_in(v, out, depth + 1)
    elif isinstance(x, (list, tuple, set)):
        for v in x:
            strings_in(v, out, depth + 1)
    elif hasattr(x, "__dict__") or hasattr(type(x), "__slots__"):
        names = list(getattr(x, "__dict__", {})) + [s for c in type(x).__mro__ for s in getattr(c, "__slots__", ())]
        for n in names:
            try:
                strings_in(getattr(x, n), out, depth + 1)
            except Exception:
                pass


def _utf8_ok(s):
    try:
        s.encode("latin-1").decode("utf-8")
        return True
    except Exception:
        return False


def native_ufuncs():
    from urllib.parse import SplitResult
    uf = {
        "lower": lambda s: s.lower(), "is_none": lambda x: x is None, "len": len, "str": str, "min": min, "max": max,
        "last_index_of": lambda s, c: s.rfind(c), "utf8_decode": lambda s: s.encode("latin-1").decode("utf-8"), "utf8_ok": _utf8_ok,
        "geturl": lambda *f: SplitResult(*f).geturl(), "repr_str": repr, "int_of": int,
        "int_ok": lambda s: s.isascii() and s.isdigit(), "abs": abs, "bool": bool, "int": int,
    }
    try:
        from baize.responses import iri_to_uri
        uf["iri_to_uri"] = iri_to_uri
    except Exception:
        pass
    return uf


class Spec:
    def __init__(self, defs):
        self.macros = {}
        for sig, body in (defs or {}).items():
            name, _, rest = sig.partition("(")
            ps = [p.strip() for p in rest.rstrip(")").split(",") if p.strip()]
            self.macros[name.strip()] = (ps, ast.parse(body.strip(), mode="eval").body)
        self.uf = native_ufuncs()
        self.universe = set()

    def eval_text(self, text, env):
        return self.ev(ast.parse(text.strip(), mode="eval").body, env)

    def ev(self, n, env):
        m = getattr(self, "e_" + type(n).__name__, None)
        if m is None:
            raise Skip("clause construct %s" % type(n).__name__)
        return m(n, env)

    def e_Constant(self, n, env):
        return n.value

    def e_Name(self, n, env):
        if n.id in env:
            return env[n.id]
        if n.id in ("True", "False", "None"):
            return {"True": True, "False": False, "None": None}[n.id]
        raise Skip("name %s" % n.id)

    def e_Tuple(self, n, env):
        return tuple(self.ev(e, env) for e in n.elts)

    def e_List(self, n, env):
        return [self.ev(e, env) for e in n.elts]

    def e_BoolOp(self, n, env):
        if isinstance(n.op, ast.And):
            for v in n.values:
                if not self.ev(v, env):
                    return False
            return True
        for v in n.values:
            if self.ev(v, env):
                return True
        return False

    def e_UnaryOp(self, n, env):
        v = self.ev(n.operand, env)
        if isinstance(n.op, ast.Not):
            return not v
        if isinstance(n.op, ast.USub):
            return -v
        raise Skip("unary operator")

    def e_BinOp(self, n, env):
        a, b = self.ev(n.left, env), self.ev(n.right, env)
        if isinstance(n.op, ast.Add):
            return a + b
        if isinstance(n.op, ast.Sub):
            return a - b
        if isinstance(n.op, ast.Mult):
            return a * b
        if isinstance(n.op, ast.FloorDiv):
            return a // b
        if isinstance(n.op, ast.Mod):
            return a % b
        raise Skip("binary operator")

    def e_Compare(self, n, env):
        left = self.ev(n.left, env)
        for op, c in zip(n.ops, n.comparators):
            right = self.ev(c, env)
            if isinstance(op, ast.Eq):
                ok = left == right
            elif isinstance(op, ast.NotEq):
                ok = left != right
            elif isinstance(op, ast.Lt):
                ok = left < right
            elif isinstance(op, ast.LtE):
                ok = left <= right
            elif isinstance(op, ast.Gt):
                ok = left > right
            elif isinstance(op, ast.GtE):
                ok = left >= right
            elif isinstance(op, ast.In):
                ok = left in right
            elif isinstance(op, ast.NotIn):
                ok = left not in right
            elif isinstance(op, ast.Is):
                ok = left is right
            elif isinstance(op, ast.IsNot):
                ok = left is not right
            else:
                raise Skip("comparison")
            if not ok:
                return False
            left = right
        return True

    def e_IfExp(self, n, env):
        return self.ev(n.body, env) if self.ev(n.test, env) else self.ev(n.orelse, env)

    def e_Subscript(self, n, env):
        base = self.ev(n.value, env)
        if isinstance(n.slice, ast.Slice):
            lo = self.ev(n.slice.lower, env) if n.slice.lower else None
            hi = self.ev(n.slice.upper, env) if n.slice.upper else None
            if (lo is not None and lo < 0) or (hi is not None and hi < 0):
                raise Skip("negative slice bound (the clause language clamps differently)")
            return base[lo:hi]
        idx = self.ev(n.slice, env)
        if isinstance(base, (bytes, bytearray)) and isinstance(idx, int):
            return base[idx:idx + 1]
        return base[idx]

    def e_Attribute(self, n, env):
        base = self.ev(n.value, env)
        if isinstance(base, dict) and n.attr in base and not hasattr(dict, n.attr):
            return base[n.attr]
        return getattr(base, n.attr)

    def e_Call(self, n, env):
        f = n.func
        if isinstance(f, ast.Name):
            name = f.id
            if name == "implies":
                return (not self.ev(n.args[0], env)) or bool(self.ev(n.args[1], env))
            if name in ("forall", "exists"):
                return self.quant(name, n, env)
            if name == "old":
                return self.ev(n.args[0], dict(env["__old__"], __old__=env["__old__"]))
            if name == "has":
                c, k = self.ev(n.args[0], env), self.ev(n.args[1], env)
                return k in c
            if name in self.macros:
                ps, body = self.macros[name]
                vals = [self.ev(a, env) for a in n.args]
                return self.ev(body, dict(env, **dict(zip(ps, vals))))
            if name in self.uf:
                return self.uf[name](*[self.ev(a, env) for a in n.args])
            raise Skip("function %s" % name)
        if isinstance(f, ast.Attribute):
            base = self.ev(f.value, env)
            args = [self.ev(a, env) for a in n.args]
            kw = {k.arg: self.ev(k.value, env) for k in n.keywords}
            return getattr(base, f.attr)(*args, **kw)
        raise Skip("call")

    def quant(self, kind, n, env):
        var = n.args[0]
        if isinstance(var, ast.Tuple):          # forall((k, Str), body): over the strings of the case
            name = var.elts[0].id
            dom = sorted(self.universe)
            body = n.args[1]
        else:
            name = var.id
            lo, hi = self.ev(n.args[1], env), self.ev(n.args[2], env)
            if hi - lo > 2000:
                raise Skip("quantifier range too large")
            dom = range(lo, hi)
            body = n.args[3]
        if kind == "forall":
            return all(self.ev(body, dict(env, **{name: x})) for x in dom)
        return any(self.ev(body, dict(env, **{name: x})) for x in dom)


def resolve(rel, qualname):
    mod = importlib.import_module(rel[:-3].replace("/", "."))
    obj = mod
    owner = None
    for part in qualname.split("."):
        if part == "<locals>":
            raise Skip("nested function")
        owner, obj = obj, getattr(obj, part) if not isinstance(obj, type) else obj.__dict__.get(part, getattr(obj, part))
    return obj, owner


def replay(case):
    """first the solver's model itself; if the real code does not violate a clause on it (the model may rest on the abstract
    reading of an uninterpreted function, e.g. int() of a string the real int() rejects), a bounded family of inputs generated
    from the parameter types and the string constants of the function and of the clauses.  A violation found either way is a
    concrete failing input of the real code; `exact_model_replayed` tells whether the model itself could be run to a clause."""
    try:
        if case.get("args") is None:
            raise Skip("family only")
        first = _replay(case, {k: untag(v) for k, v in case["args"].items()})
    except Skip as e:
        first = {"unsupported": str(e), "violated": []}
    if first.get("violated"):
        first["exact_model_replayed"] = True
        return first
    import random
    rng = random.Random(0)
    tokens = _tokens(case)
    tried = 0
    for _ in range(int(case.get("family", 400))):
        try:
            args = {k: gen(t, rng, tokens) for k, t in case["types"].items()}
            r = _replay(case, args, check_requires=True)
        except Skip:
            continue
        except Exception:  # noqa
            continue
        if r.get("unsupported") or r.get("precondition_false"):
            continue
        tried += 1
        if r.get("violated"):
            r["exact_model_replayed"] = False
            r["family_inputs_tried"] = tried
            return r
    first["exact_model_replayed"] = not first.get("unsupported")
    first["family_inputs_tried"] = tried
    if first.get("unsupported"):
        # the model itself could not be run to a clause and the family found nothing: nothing was replayed
        return first
    return first


def _tokens(case):
    toks = {"", "a", "A", "é", " ", "1", "80", "443", ":", "/", "[", "]", "@", "\n", "x=1", "host", "%"}
    texts = list(case.get("ensures", {}).values()) + list((case.get("defs") or {}).values()) + list(case.get("requires") or [])
    try:
        fn, _ = resolve(case["file"], case["qualname"])
        fn = getattr(fn, "fget", None) or getattr(fn, "__func__", None) or getattr(fn, "func", None) or fn
        import textwrap
        texts.append(textwrap.dedent(inspect.getsource(fn)))
    except Exception:
        pass
    for t in texts:
        try:
            tree = ast.parse(t.strip(), mode="exec")
        except Exception:
            try:
                tree = ast.parse(t.strip(), mode="eval")
            except Exception:
                continue
        for n in ast.walk(tree):
            if isinstance(n, ast.Constant) and isinstance(n.value, (str, bytes)) and len(n.value) <= 24:
                toks.add(n.value if isinstance(n.value, str) else n.value.decode("latin-1"))
    return sorted(toks)


def gen(t, rng, tokens, depth=0):
    k = t["k"]
    if k == "none":
        return None
    if k == "opt":
        return None if rng.random() < 0.3 else gen(t["t"], rng, tokens, depth)
    if k == "int":
        return rng.choice([0, 1, 2, 80, 443, 8000, -1, 65535])
    if k == "bool":
        return rng.random() < 0.5
    if k in ("str", "bytes"):
        s = "".join(rng.choice(tokens) for _ in range(rng.choice([0, 1, 1, 2, 3])))
        return s if k == "str" else s.encode("latin-1", "replace")
    if k == "tuple":
        return tuple(gen(x, rng, tokens, depth + 1) for x in t["items"])
    if k == "list":
        return [gen(t["elem"], rng, tokens, depth + 1) for _ in range(rng.choice([0, 1, 2, 3]))]
    if k == "dict":
        out = {}
        for name, f in t["fields"].items():
            if f["maybe"] and rng.random() < 0.4:
                continue
            out[name] = gen(f["t"], rng, tokens, depth + 1)
        return out
    if k == "obj":
        return make_obj(t["cls"], {name: gen(ft, rng, tokens, depth + 1) for name, ft in t["fields"].items()})
    raise Skip("type %s" % k)


def _replay(case, args, check_requires=False):
    fn, owner = resolve(case["file"], case["qualname"])
    if isinstance(fn, property):
        fn = fn.fget
    elif isinstance(fn, (staticmethod, classmethod)):
        fn = fn.__func__
    elif hasattr(fn, "func") and not inspect.isfunction(fn):        # cached_property-like descriptors of the library
        fn = fn.func
    if not inspect.isfunction(fn):
        raise Skip("not a plain function")
    spec = Spec(case.get("defs"))
    old = copy.deepcopy(args)
    if check_requires:
        strings_in(args, spec.universe)
        for text in case.get("requires") or []:
            try:
                if not spec.eval_text(text, dict(args, __old__=old)):
                    return {"precondition_false": True, "violated": []}
            except Skip:
                return {"precondition_false": True, "violated": []}
            except Exception:  # noqa
                return {"precondition_false": True, "violated": []}
    sig = inspect.signature(fn)
    pos, kw = [], {}
    for p in sig.parameters.values():
        if p.name not in args:
            if p.default is inspect.Parameter.empty and p.kind in (p.POSITIONAL_ONLY, p.POSITIONAL_OR_KEYWORD):
                raise Skip("no value for parameter %s" % p.name)
            continue
        val = args[p.name]
        if p.kind in (p.POSITIONAL_ONLY, p.POSITIONAL_OR_KEYWORD):
            pos.append(val)
        elif p.kind == p.KEYWORD_ONLY:
            kw[p.name] = val
        elif p.kind == p.VAR_KEYWORD:
            kw.update(val or {})
        elif p.kind == p.VAR_POSITIONAL:
            pos.extend(val or [])
    exc = None
    result = None
    try:
        result = fn(*pos, **kw)
        if inspect.iscoroutine(result):
            result = asyncio.run(asyncio.wait_for(result, 20))
    except BaseException as e:  # noqa
        if isinstance(e, (KeyboardInterrupt, SystemExit)):
            raise
        exc = e
    env = dict(args, result=result, __old__=old)
    env["__old__"]["__old__"] = old
    strings_in(args, spec.universe)
    strings_in(old, spec.universe)
    strings_in(result, spec.universe)
    spec.universe |= {s.lower() for s in spec.universe}
    violated, skipped, checked = [], [], 0
    if exc is not None:
        names = [c.__name__ for c in type(exc).__mro__]
        raises = case.get("raises")
        allowed = None if raises is None else [k for k in raises if k in names]
        if raises is not None and not allowed:
            violated.append("raised %s (%s), allowed: %s" % (type(exc).__name__, str(exc)[:80], sorted(raises)))
        else:
            for k in allowed or []:
                cond = raises[k]
                if cond:
                    try:
                        checked += 1
                        if not spec.eval_text(cond, dict(old, __old__=old)):
                            violated.append("raised %s although its condition is false: %s" % (k, cond[:120]))
                    except Skip as s:
                        skipped.append("raises.%s: %s" % (k, s))
                for text in (case.get("raises_ensures") or {}).get(k, []):
                    try:
                        checked += 1
                        if not spec.eval_text(text, env):
                            violated.append("after %s: %s" % (k, text[:120]))
                    except Skip as s:
                        skipped.append("raises_ensures.%s: %s" % (k, s))
    else:
        for name, text in case["ensures"].items():
            try:
                ok = spec.eval_text(text, env)
                checked += 1
                if not ok:
                    violated.append("ensures %s is false: %s" % (name, " ".join(text.split())[:160]))
            except Skip as s:
                skipped.append("%s: %s" % (name, s))
            except Exception as e:  # noqa  (an index error inside a clause: the clause does not apply to this shape)
                skipped.append("%s: %s while evaluating" % (name, type(e).__name__))
    if checked == 0 and not violated:
        return {"unsupported": "no clause could be evaluated: %s" % skipped[:3], "violated": []}
    return {"violated": violated, "checked": checked, "skipped": skipped[:6],
            "outcome": ("raised %s" % type(exc).__name__) if exc is not None else "returned", "args": repr(args)[:600]}
