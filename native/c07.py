"""C07 native bounded stand-in: static-file apps against a lexical reference resolver, with an audit hook recording
every file the apps open or stat."""
import itertools
import os
import random
import shutil
import stat
import sys
import tempfile

from native.harness import run_wsgi, run_asgi, wsgi_environ, asgi_scope

SEGS = ["", ".", "..", "a.txt", "sub", "..name", "%2e%2e", "index.html", "x.html", "x", "é.txt", "empty", "b.txt", "page"]
AUDIT = {"on": False, "paths": []}


def _hook(event, args):
    if AUDIT["on"] and event in ("open", "os.stat", "os.open", "os.lstat", "os.scandir", "os.listdir"):
        if args and isinstance(args[0], (str, bytes)):
            AUDIT["paths"].append((event, args[0] if isinstance(args[0], str) else args[0].decode("utf8", "replace")))


sys.addaudithook(_hook)


def build_tree(base):
    os.makedirs(os.path.join(base, "static", "sub"))
    os.makedirs(os.path.join(base, "static", "empty"))
    os.makedirs(os.path.join(base, "static2"))
    # directories whose NAMES look like pages: "adir.html" (there is no "adir") and a directory called index.html
    os.makedirs(os.path.join(base, "static", "adir.html"))
    os.makedirs(os.path.join(base, "static", "idx", "index.html"))
    os.makedirs(os.path.join(base, "static", "p%20q"))          # a directory whose name contains a percent sign
    files = {
        "secret.txt": b"TOP-SECRET", "static2/sibling.txt": b"SIBLING-SECRET", "static/index.html": b"<root index>",
        "static/a.txt": b"file a", "static/x.html": b"<x html>", "static/é.txt": b"e-acute", "static/..name": b"dotdot name",
        "static/%2e%2e": b"literal percent name", "static/sub/index.html": b"<sub index>", "static/sub/b.txt": b"file b",
        "static/sub/page.html": b"<page>", "static/sub/a.txt": b"sub a", "static/adir.html/inner.txt": b"inner",
        "nosuch.html": b"SIBLING OF A MISSING DIRECTORY", "static/p%20q/index.html": b"<percent dir index>",
        "static/release-1.2.html": b"<release notes>", "static/sub/v2.0.html": b"<v2.0>", "static/jquery.min.html": b"<odd page>",
    }
    for rel, content in files.items():
        with open(os.path.join(base, rel), "wb") as f:
            f.write(content)
    return files


def resolve(path):
    """lexical resolution below the directory: list of segments or None when it leaves the directory"""
    out = []
    for seg in path.split("/"):
        if seg in ("", "."):
            continue
        if seg == "..":
            if not out:
                return None
            out.pop()
            continue
        out.append(seg)
    return out


def fs_kind(base, segs):
    p = os.path.join(base, "static", *segs)
    try:
        st = os.lstat(p)
    except (FileNotFoundError, NotADirectoryError):
        return "absent", p
    if stat.S_ISREG(st.st_mode):
        return "file", p
    if stat.S_ISDIR(st.st_mode):
        return "dir", p
    return "other", p


def expected(kind, base, path):
    """('serve', file path) | ('redirect', location suffix) | ('404',)   and whether the path is canonical"""
    segs = resolve(path)
    if segs is None:
        return ("404",)
    k, p = fs_kind(base, segs)
    canonical = path == "/" + "/".join(segs)
    if kind == "Files":
        if k != "file":
            return ("404",)
        # a file must be served at its own (canonical) path; under other spellings that resolve to it, serving it or
        # answering not-found are both within the statement
        return ("serve", p) if canonical else ("serve-or-404", p)
    # Pages
    if path.endswith("/"):
        if k == "dir":
            k2, p2 = fs_kind(base, segs + ["index.html"])
            return ("serve", p2) if k2 == "file" else ("404",)
        return ("404",) if k != "file" else ("serve-or-404", p)
    if k == "file":
        return ("serve", p)
    if k == "absent" and segs and not segs[-1].endswith(".html"):
        k2, p2 = fs_kind(base, segs[:-1] + [segs[-1] + ".html"])
        if k2 == "file":
            return ("serve", p2)
    if k == "dir":
        return ("redirect", path + "/")
    return ("404",)


def run(kind, iface, directory_arg, base, path, mount=None):
    import baize.wsgi as W
    import baize.asgi as A
    mod = W if iface == "wsgi" else A
    app = getattr(mod, kind)(directory_arg)
    AUDIT["paths"] = []
    AUDIT["on"] = True
    try:
        if iface == "wsgi":
            env = wsgi_environ("GET", path)
            if mount:
                env["SCRIPT_NAME"] = mount
            rec = run_wsgi(app, env)
            status = int(rec["status"].split()[0]) if rec["status"] else None
            hdrs = {k.lower(): v for k, v in (rec["headers"] or [])}
        else:
            sc = asgi_scope("GET", path)
            if mount:
                sc["root_path"] = mount
            rec = run_asgi(app, sc)
            status = rec["status"]
            hdrs = {k.decode().lower(): v.decode("latin-1") for k, v in (rec["headers"] or [])}
    finally:
        AUDIT["on"] = False
    return rec, status, hdrs, list(AUDIT["paths"])


def check(kind, iface, base, path, directory_arg=None, mount=None):
    from baize.exceptions import HTTPException
    v = []
    droot = os.path.join(base, "static")
    rec, status, hdrs, touched = run(kind, iface, directory_arg or droot, base, path, mount)
    exp = expected(kind, base, path)
    exc = rec["exception"]
    if exc is not None:
        if isinstance(exc, HTTPException) and exc.status_code == 404:
            status = 404
        else:
            return ["exception %r (expected %s)" % (exc, exp[0])], exp
    # nothing outside the directory is ever opened or stat'ed
    real_root = os.path.realpath(droot)
    for ev, p in touched:
        rp = os.path.normpath(os.path.join(os.getcwd(), p))
        if not (rp == real_root or rp.startswith(real_root + os.sep)) and (rp.startswith(os.path.realpath(base))):
            v.append("%s touched a path outside the directory: %s" % (ev, p))
    if exp[0] == "serve":
        want = open(exp[1], "rb").read()
        if status != 200 or rec["body"] != want:
            v.append("expected the content of %s, got status %s body %r" % (os.path.relpath(exp[1], base), status, rec["body"][:30]))
    elif exp[0] == "serve-or-404":
        if not (status == 404 or (status == 200 and rec["body"] == open(exp[1], "rb").read())):
            v.append("status %s body %r" % (status, rec["body"][:30]))
    elif exp[0] == "redirect":
        loc = hdrs.get("location", "")
        from urllib.parse import quote
        if status not in (301, 302, 307, 308) or not loc.endswith(quote(exp[1], safe="/")):
            v.append("expected a redirect to %r, got status %s location %r" % (exp[1], status, loc))
    else:
        if status == 200:
            v.append("expected not-found, got 200 with body %r" % rec["body"][:30])
        elif status != 404 and not (status in (301, 302, 307, 308)):
            v.append("expected not-found, got status %s" % status)
        elif status in (301, 302, 307, 308):
            v.append("expected not-found, got a redirect to %r" % hdrs.get("location"))
    return v, exp


def paths(depth):
    out = ["", "/"]
    for n in range(1, depth + 1):
        for segs in itertools.product(SEGS, repeat=n):
            out.append("/" + "/".join(segs))
    return out


def chdir_case(kind, iface, base):
    """relative directory 'static' configured while the working directory is `base`; requests after chdir to a tree that has
    a directory of the same relative name"""
    import baize.wsgi as W2
    import baize.asgi as A2
    from baize.exceptions import HTTPException as _H
    other = os.path.join(base, "elsewhere")
    if not os.path.isdir(os.path.join(other, "static")):
        os.makedirs(os.path.join(other, "static"))
        with open(os.path.join(other, "static", "a.txt"), "wb") as f:
            f.write(b"A FILE OF ANOTHER TREE")
        with open(os.path.join(other, "static", "only_here.txt"), "wb") as f:
            f.write(b"ONLY IN THE OTHER TREE")
    cwd = os.getcwd()
    v = []
    os.chdir(base)
    try:
        app = getattr(W2 if iface == "wsgi" else A2, kind)("static")
        os.chdir(other)
        for path, want in (("/a.txt", b"file a"), ("/only_here.txt", None)):
            rec = run_wsgi(app, wsgi_environ("GET", path)) if iface == "wsgi" else run_asgi(app, asgi_scope("GET", path))
            body = rec["body"]
            nf = isinstance(rec["exception"], _H) and rec["exception"].status_code == 404
            okay = (body == want) if want is not None else (nf or not body or b"OTHER TREE" not in body)
            if not okay:
                v.append("relative directory 'static' configured in <base>, request after chdir to <base>/elsewhere: GET %s -> %r %r" % (
                    path, body[:40] if body else body, rec["exception"]))
    finally:
        os.chdir(cwd)
    return v


def replay(inputs):
    base = tempfile.mkdtemp(prefix="verif_c07_")
    try:
        build_tree(base)
        if inputs.get("chdir_after_construction"):
            return {"violated": chdir_case(inputs["kind"], inputs["iface"], base)}
        v, exp = check(inputs["kind"], inputs["iface"], base, inputs["path"], mount=inputs.get("mount"))
        return {"violated": v, "expected": str(exp[0])}
    finally:
        shutil.rmtree(base, ignore_errors=True)


def region_of(kind, path, v):
    segs = [s for s in path.split("/") if s not in ("", ".")]
    if v and segs and any(s.startswith("..") and s != ".." for s in segs):
        return "name-starting-with-two-dots"
    return None


def bounded(tier, seed):
    rng = random.Random(seed)
    evals = 0
    distinct = set()
    failures = []
    samples = []
    base = tempfile.mkdtemp(prefix="verif_c07_")
    try:
        build_tree(base)
        ps = paths(2)
        p3 = [p for p in paths(3) if p.count("/") == 3]
        ps += p3 if tier == "thorough" else rng.sample(p3, 400)
        ps += ["/p%20q", "/p%20q/", "/p%20q/index.html", "/p q", "/p q/"]
        ps += ["/release-1.2", "/release-1.2.html", "/sub/v2.0", "/sub/v2.0.html", "/jquery.min", "/release-1", "/sub/v2"]
        ps += ["/adir", "/adir/", "/adir.html", "/adir.html/", "/adir.html/inner.txt", "/idx", "/idx/", "/idx/index.html", "/idx/index.html/"]
        ps += ["/sub/", "/sub", "/sub/page", "/sub/page.html", "/a.txt/", "/a.txt/x", "/sub/../a.txt", "/sub/../../secret.txt",
               "/../static2/sibling.txt", "//a.txt", "/sub//b.txt", "/./a.txt", "/empty/", "/empty", "/x", "/%2e%2e/secret.txt"]
        for kind in ("Files", "Pages"):
            for iface in ("wsgi", "asgi"):
                for path in ps:
                    evals += 1
                    v, exp = check(kind, iface, base, path)
                    if exp[0] in ("serve", "redirect"):
                        distinct.add((kind, iface, path))
                    region = region_of(kind, path, v)
                    if v and sum(1 for f in failures if f["inputs"]["region"] == region) < 6:
                        failures.append({"inputs": {"kind": kind, "iface": iface, "path": path, "region": region}, "violated": v})
                    elif len(samples) < 3 and exp[0] == "serve" and ".." in path:
                        samples.append({"kind": kind, "iface": iface, "path": path})
        # a configured directory that does not exist, next to a file "<directory>.html": nothing may be served
        for kind in ("Files", "Pages"):
            for iface in ("wsgi", "asgi"):
                for path in ("", "/", "/.", "/x/..", "/index"):
                    evals += 1
                    rec, status, hdrs, touched = run(kind, iface, os.path.join(base, "nosuch"), base, path)
                    from baize.exceptions import HTTPException
                    if isinstance(rec["exception"], HTTPException) and rec["exception"].status_code == 404:
                        status = 404
                    if status == 200 or (rec["exception"] is not None and status != 404):
                        failures.append({"inputs": {"kind": kind, "iface": iface, "path": path, "region": None, "missing_directory": True},
                                         "violated": ["directory %r does not exist; %r answered %s %r %r" % (
                                             "nosuch", path, status, (rec["body"] or b"")[:40], rec["exception"])]})
        # WSGI: request bytes that are not UTF-8 must not alias the file whose name is their Latin-1 reading
        for kind in ("Files", "Pages"):
            evals += 1
            env = wsgi_environ("GET", "/")
            env["PATH_INFO"] = "/\xe9.txt"          # the single byte 0xE9; the tree only holds the UTF-8 name
            import baize.wsgi as W
            rec = run_wsgi(getattr(W, kind)(os.path.join(base, "static")), env)
            st_ = int(rec["status"].split()[0]) if rec["status"] else None
            if st_ == 200:
                failures.append({"inputs": {"kind": kind, "iface": "wsgi", "path": "/\xe9.txt (raw byte)", "region": None, "raw_byte": True},
                                 "violated": ["GET /%%E9.txt served %r (the file é.txt has the URL /%%C3%%A9.txt)" % rec["body"][:30]]})
        # directory given as a relative path
        cwd = os.getcwd()
        os.chdir(base)
        try:
            for path in ("/a.txt", "/sub/b.txt", "/../secret.txt", "/nope"):
                for kind in ("Files", "Pages"):
                    evals += 1
                    v, exp = check(kind, "wsgi", base, path, directory_arg="static")
                    if v and len(failures) < 30:
                        failures.append({"inputs": {"kind": kind, "iface": "wsgi", "path": path, "region": None, "relative": True}, "violated": v})
        finally:
            os.chdir(cwd)
        # Pages mounted below a prefix (root_path / SCRIPT_NAME): the directory redirect is the SAME URL plus '/'
        import baize.wsgi as W3
        import baize.asgi as A3
        for iface in ("wsgi", "asgi"):
            for prefix in ("/mnt", "/m n"):
                evals += 1
                app = (W3 if iface == "wsgi" else A3).Pages(os.path.join(base, "static"))
                if iface == "wsgi":
                    env = wsgi_environ("GET", "/sub")
                    env["SCRIPT_NAME"] = prefix
                    rec = run_wsgi(app, env)
                    loc = dict((k.lower(), v) for k, v in (rec["headers"] or [])).get("location", "")
                else:
                    sc = asgi_scope("GET", "/sub")
                    sc["root_path"] = prefix
                    rec = run_asgi(app, sc)
                    loc = dict((k.decode().lower(), v.decode("latin-1")) for k, v in (rec["headers"] or [])).get("location", "")
                from urllib.parse import quote as _q
                if not loc.endswith(_q(prefix, safe="/") + "/sub/") and len(failures) < 30:
                    failures.append({"inputs": {"kind": "Pages", "iface": iface, "path": "/sub", "region": None, "mounted_below": prefix},
                                     "violated": ["Pages mounted below %r: GET /sub redirects to %r, expected ...%s/sub/ (%r)" % (
                                         prefix, loc, _q(prefix, safe="/"), rec["exception"])]})
        # an application mounted below a prefix whose TEXT is also the name of a directory inside the served one (mount '/sub',
        # directory static/sub): the path it is handed is already relative to the mount point (Subpaths / the server removed
        # the prefix) and names the file as it stands - nothing strips the prefix a second time
        for kind in ("Files", "Pages"):
            for iface in ("wsgi", "asgi"):
                for mount in ("/sub", "/static", "/sub/sub"):
                    for path in ("/sub/a.txt", "/sub/b.txt", "/a.txt", "/sub/", "/sub/page", "/sub/sub/a.txt", "/static/a.txt", "/sub"):
                        evals += 1
                        v, exp = check(kind, iface, base, path, mount=mount)
                        if v and len(failures) < 30:
                            failures.append({"inputs": {"kind": kind, "iface": iface, "path": path, "region": None, "mount": mount},
                                             "violated": ["mounted below %r: %s" % (mount, x) for x in v]})
        # ... and the working directory CHANGES between construction and request: the configured directory is the one named at
        # construction time (another tree with the same relative name must not be served instead)
        for kind in ("Files", "Pages"):
            for iface in ("wsgi", "asgi"):
                evals += 2
                v = chdir_case(kind, iface, base)
                if v and len(failures) < 30:
                    failures.append({"inputs": {"kind": kind, "iface": iface, "path": "/a.txt", "region": None,
                                                "chdir_after_construction": True}, "violated": v})
    finally:
        shutil.rmtree(base, ignore_errors=True)
    return {"evaluations": evals, "distinct_nontrivial": len(distinct), "failures": failures, "samples": samples,
            "rule": "request paths built from the segments %s up to depth 2 exhaustively (depth 3: %s) plus hand-picked ones, on a real "
                    "temp tree with a parent secret, a sibling directory, directories named like pages (adir.html, idx/index.html), a "
                    "missing configured directory next to '<directory>.html', a non-UTF-8 request byte on WSGI; Files and Pages, both interfaces, absolute and "
                    "relative directory (also with a change of the working directory after construction); compared with a lexical reference resolver; an audit hook records every "
                    "open/stat so that nothing outside the directory is touched" % (SEGS, "exhaustively" if tier == "thorough" else "seeded sample of 400"),
            "exhaustive": False}
