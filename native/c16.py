"""C16 native bounded stand-in: cookie round trip (set on a response -> Cookie header -> request.cookies) and Expires."""
import itertools
import json
import os
import random
import subprocess
import sys
import time

_HERE = os.path.dirname(os.path.dirname(os.path.abspath(__file__)))


def set_cookie_pair(name, value):
    from baize.wsgi import Response
    r = Response()
    r.set_cookie(name, value)
    line = str(r.cookies[0])
    return line, line.split("; ")[0] if "; " in line else line


def request_cookies(header):
    from baize.wsgi import Request
    from native.harness import wsgi_environ
    return Request(wsgi_environ("GET", "/", [("Cookie", header)])).cookies


def check_roundtrip(name, value, context):
    v = []
    try:
        line, _ = set_cookie_pair(name, value)
    except Exception as e:  # noqa
        return ["set_cookie raised %r" % e]
    try:
        line.encode("ascii")
    except UnicodeEncodeError:
        v.append("Set-Cookie line is not ASCII: %r" % line)
    # the name=value pair is everything before the first attribute
    first_attr = line.find("; path=")
    pair = line[:first_attr] if first_attr >= 0 else line
    if ";" in pair:
        v.append("';' inside the pair %r" % pair)
    if context == "fields":
        # one Cookie header FIELD per pair (HTTP/2 clients may do that; RFC 9113 8.2.3 has them combined with "; ")
        try:
            from baize.asgi import Request as ARequest
            from native.harness import asgi_scope
            got = ARequest(asgi_scope("GET", "/", [("Cookie", "x=1"), ("Cookie", pair), ("Cookie", "y=2")])).cookies
        except Exception as e:  # noqa
            return v + ["request.cookies (separate fields) raised %r" % e]
        if got.get(name) != value or got.get("x") != "1" or got.get("y") != "2":
            v.append("round trip (one Cookie field per pair): sent %r, request sees %r" % (value, dict(got)))
        return v
    header = {"alone": pair, "middle": "x=1; " + pair + "; y=2", "dup_before": name + "=old; " + pair}[context]
    try:
        got = request_cookies(header)
    except Exception as e:  # noqa
        return v + ["request.cookies raised %r" % e]
    if got.get(name) != value:
        v.append("round trip (%s): sent %r, request sees %r" % (context, value, got.get(name)))
    if context == "middle" and (got.get("x") != "1" or got.get("y") != "2"):
        v.append("neighbour cookies disturbed: %r" % got)
    return v


def expires_probe():
    """run in a subprocess with TZ set: returns the offset (seconds) between Expires and now+delta"""
    from email.utils import parsedate_to_datetime
    from baize.wsgi import Response
    out = {}
    for delta in (0, 3600, 86400 * 200):
        r = Response()
        t0 = time.time()
        r.set_cookie("a", "b", expires=delta, max_age=delta)
        line = str(r.cookies[0])
        exp = [p for p in line.split("; ") if p.startswith("expires=")]
        ma = [p for p in line.split("; ") if p.startswith("max-age=")]
        if not exp or not exp[0].endswith(" GMT"):
            out[str(delta)] = {"error": "no GMT expires attribute in %r" % line}
            continue
        ts = parsedate_to_datetime(exp[0][len("expires="):]).timestamp()
        out[str(delta)] = {"offset": ts - (t0 + delta), "max_age": ma[0] if ma else None}
    r = Response()
    r.delete_cookie("gone")
    line = str(r.cookies[0])
    exp = [p for p in line.split("; ") if p.startswith("expires=")]
    out["delete"] = {"line": line, "expired": bool(exp) and parsedate_to_datetime(exp[0][8:]).timestamp() <= time.time() + 1,
                     "max_age_zero": "max-age=0" in line}
    return out


def dst_probe():
    """run in a subprocess with a POSIX TZ rule (no tz database needed): Expires for lifetimes that cross a clock change, and
    for an instant in the repeated hour, must still be the UTC instant now + lifetime"""
    from email.utils import formatdate
    from baize.wsgi import Response
    import calendar
    out = []
    real = time.time
    # instants (UTC): the day before the EU spring change 2024, before the US autumn change 2024, in the repeated hour
    nows = [calendar.timegm((2024, 3, 30, 12, 0, 0)), calendar.timegm((2024, 11, 2, 18, 0, 0)), calendar.timegm((2024, 10, 27, 0, 30, 0)),
            calendar.timegm((2024, 7, 1, 12, 0, 0)),
            # days whose ISO week belongs to the neighbouring year
            calendar.timegm((2026, 12, 31, 12, 0, 0)), calendar.timegm((2027, 1, 2, 12, 0, 0)), calendar.timegm((2029, 12, 30, 12, 0, 0)),
            calendar.timegm((2030, 12, 29, 23, 30, 0))]
    try:
        for now in nows:
            time.time = lambda _n=now: float(_n)
            for delta in (0, 3600, 86400, 86400 * 2, 86400 * 200):
                r = Response()
                r.set_cookie("a", "b", expires=delta)
                line = str(r.cookies[0])
                want = "expires=" + formatdate(now + delta, usegmt=True)
                if want not in line:
                    out.append("now=%d lifetime=%d: %r, expected %s" % (now, delta, line, want))
    finally:
        time.time = real
    return out


def check_dst(tz):
    env = dict(os.environ, TZ=tz, PYTHONPATH=os.environ.get("VERIF_REPO", "/repo") + ":" + _HERE)
    p = subprocess.run([sys.executable, "-c", "import json, time; time.tzset(); from native import c16; print(json.dumps(c16.dst_probe()))"],
                       capture_output=True, text=True, env=env, timeout=60, cwd=_HERE)
    if p.returncode:
        return ["DST probe failed under TZ=%s: %s" % (tz, p.stderr[-300:])]
    return ["TZ=%s: %s" % (tz, x) for x in json.loads(p.stdout)[:3]]


def check_tz(tz):
    env = dict(os.environ, TZ=tz, PYTHONPATH=os.environ.get("VERIF_REPO", "/repo") + ":" + _HERE)
    p = subprocess.run([sys.executable, "-c", "import json; from native import c16; print(json.dumps(c16.expires_probe()))"],
                       capture_output=True, text=True, env=env, timeout=60, cwd=_HERE)
    if p.returncode:
        return ["probe failed under TZ=%s: %s" % (tz, p.stderr[-300:])]
    out = json.loads(p.stdout)
    v = []
    for k, r in out.items():
        if k == "delete":
            if not r["expired"] or not r["max_age_zero"]:
                v.append("TZ=%s: delete_cookie emitted %r" % (tz, r["line"]))
            continue
        if "error" in r:
            v.append("TZ=%s: %s" % (tz, r["error"]))
        elif abs(r["offset"]) > 2:
            v.append("TZ=%s: Expires is %.0f s away from now+%s" % (tz, r["offset"], k))
        elif r["max_age"] != "max-age=%s" % k:
            v.append("TZ=%s: max-age attribute %r for %s" % (tz, r["max_age"], k))
    return v


def replay(inputs):
    if inputs.get("kind") == "tz":
        return {"violated": check_tz(inputs["tz"])}
    if inputs.get("kind") == "dst":
        return {"violated": check_dst(inputs["tz"])}
    return {"violated": check_roundtrip(inputs["name"], inputs["value"], inputs["context"])}


def bounded(tier, seed):
    rng = random.Random(seed)
    evals = 0
    distinct = set()
    failures = []
    samples = []
    names = ["n", "session-id", "a.b", "x_y", "A1", "k~!"]
    chars = [chr(c) for c in range(256)]
    values = [""] + chars
    pairs2 = [a + b for a in chars for b in chars]
    values += pairs2 if tier == "thorough" else rng.sample(pairs2, 3000)
    values += ['a b', 'q"uo"te', "back\\slash", "semi;colon", "com,ma", "eq=ual", " lead", "trail ", "\tTab", "é€"[:1], "\x7f", "\\073",
               '"already quoted"', "a" * 300, "\\\\", '\\"']
    for name in names:
        vals = values if name == "n" else values[:257] + values[-16:]
        for value in vals:
            for context in (("alone", "middle", "dup_before", "fields") if (name == "n" and len(value) <= 1) or len(value) > 2 else ("alone",)):
                evals += 1
                v = check_roundtrip(name, value, context)
                distinct.add((name, value, context))
                if v and len(failures) < 10:
                    failures.append({"inputs": {"name": name, "value": value, "context": context}, "violated": v})
                elif len(samples) < 3 and ";" in value:
                    samples.append({"name": name, "value": value, "serialised": set_cookie_pair(name, value)[0]})
    for tz in ("UTC", "Asia/Tokyo", "America/New_York", "Europe/London") + (("Pacific/Chatham", "Asia/Kolkata") if tier == "thorough" else ()):
        evals += 1
        v = check_tz(tz)
        distinct.add(("tz", tz))
        if v:
            failures.append({"inputs": {"kind": "tz", "tz": tz}, "violated": v})
    # lifetimes that cross a clock change / an instant in the repeated hour, under POSIX TZ rules (no tz database needed)
    for tz in ("CET-1CEST,M3.5.0,M10.5.0/3", "EST5EDT,M3.2.0,M11.1.0", "AEST-10AEDT,M10.1.0,M4.1.0/3", "UTC0", "IST-5:30"):
        evals += 20
        v = check_dst(tz)
        distinct.add(("dst", tz))
        if v:
            failures.append({"inputs": {"kind": "dst", "tz": tz}, "violated": v})
    return {"evaluations": evals, "distinct_nontrivial": len(distinct), "failures": failures, "samples": samples,
            "rule": "token names x all values of length <= 1 over the 256 Latin-1 code points, %s, structured ones; sent back alone, "
                    "between two other cookies, after an older cookie of the same name and as one Cookie header field per pair (ASGI); Expires/Max-Age/delete_cookie "
                    "probed in subprocesses under several TZ values, and at pinned instants around daylight-saving changes under POSIX TZ rules" % ("all 65536 values of length 2" if tier == "thorough" else "a seeded sample of 3000 values of length 2"),
            "exhaustive": False}
