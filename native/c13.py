"""C13 native bounded stand-in: header splitting / smuggling through the mapping, cookies and redirects."""
import itertools
import random

from native.harness import run_wsgi, run_asgi, wsgi_environ, asgi_scope

ALPHA = ["a", "\r", "\n", "\0", ";", ",", "=", '"', "\\", "é", "€", " "]
BAD = "\r\n\0"
ATTRS = ("expires=", "max-age=", "domain=", "path=", "httponly", "secure", "samesite=")


def strings(maxlen):
    out = [""]
    for n in range(1, maxlen + 1):
        out += ["".join(p) for p in itertools.product(ALPHA, repeat=n)]
    return out


def emitted_lines(resp, iface):
    if iface == "wsgi":
        rec = run_wsgi(resp, wsgi_environ("GET"))
        if rec["exception"] is not None:
            return None, rec["exception"]
        return [(k, v) for k, v in rec["headers"]], None
    rec = run_asgi(resp, asgi_scope("GET"))
    if rec["exception"] is not None:
        return None, rec["exception"]
    return [(k.decode("latin-1"), v.decode("latin-1")) for k, v in rec["headers"]], None


def check_lines(lines):
    v = []
    for k, val in lines:
        if any(c in k for c in BAD) or any(c in val for c in BAD):
            v.append("control character in emitted header %r" % ((k, val),))
    return v


def check_cookie_line(line, n_expected_attr_max=8):
    """a Set-Cookie value: the first ';'-separated piece is name=value, every later piece is a known attribute"""
    v = []
    pieces = line.split("; ")
    for p in pieces[1:]:
        if not p.lower().startswith(ATTRS):
            v.append("cookie text introduced the attribute / piece %r" % p)
    if ";" in pieces[0]:
        v.append("';' inside the name=value pair %r" % pieces[0])
    if any(";" in p for p in pieces[1:]):
        v.append("stray ';' in %r" % line)
    return v


def mapping_ops(h, ops):
    """apply mutation ops; returns the list of (op, raised?)"""
    res = []
    for op, k, val in ops:
        try:
            if op == "set":
                h[k] = val
            elif op == "append":
                h.append(k, val)
            elif op == "update":
                h.update({k: val})
            elif op == "setdefault":
                h.setdefault(k, val)
            res.append(None)
        except ValueError as e:
            res.append("ValueError")
        except Exception as e:  # noqa
            res.append(type(e).__name__)
    return res


def case_mapping(ops, iface):
    import baize.wsgi as W
    import baize.asgi as A
    mod = W if iface == "wsgi" else A
    resp = mod.Response(200)
    raised = mapping_ops(resp.headers, ops)
    v = []
    for (op, k, val), r in zip(ops, raised):
        dirty = any(c in k for c in BAD) or any(c in val for c in BAD)
        if dirty and r != "ValueError" and not (op == "setdefault" and k.lower() in [x for x in resp.headers] and False):
            if op == "setdefault" and r is None:
                # setdefault on an existing key stores nothing: allowed
                pass
            else:
                v.append("%s(%r, %r) accepted control characters (%s)" % (op, k, val, r))
        if r not in (None, "ValueError"):
            v.append("%s(%r, %r) raised %s" % (op, k, val, r))
    lines, exc = emitted_lines(resp, iface)
    if lines is None:
        if not isinstance(exc, UnicodeEncodeError):
            v.append("emission raised %r" % exc)
        return v
    v += check_lines(lines)
    return v


def case_cookie(name, value, iface):
    import baize.wsgi as W
    import baize.asgi as A
    mod = W if iface == "wsgi" else A
    resp = mod.Response(200)
    resp.set_cookie(name, value, max_age=5)
    resp.set_cookie("second", "2")
    lines, exc = emitted_lines(resp, iface)
    if lines is None:
        return [] if isinstance(exc, UnicodeEncodeError) else ["emission raised %r" % exc]
    v = check_lines(lines)
    cookies = [val for k, val in lines if k.lower() == "set-cookie"]
    if len(cookies) != 2:
        v.append("expected 2 set-cookie lines, got %d" % len(cookies))
    for c in cookies:
        v += check_cookie_line(c)
    return v


def case_redirect(url, iface):
    import baize.wsgi as W
    import baize.asgi as A
    mod = W if iface == "wsgi" else A
    try:
        resp = mod.RedirectResponse(url)
    except ValueError:
        return ["redirect target %r was rejected instead of escaped" % url]
    lines, exc = emitted_lines(resp, iface)
    if lines is None:
        return ["emission raised %r" % exc]
    v = check_lines(lines)
    locs = [val for k, val in lines if k.lower() == "location"]
    if len(locs) != 1:
        v.append("location lines: %r" % locs)
    if len([1 for k, _ in lines if k.lower() not in ("location", "content-length")]) > 0:
        v.append("redirect introduced extra headers %r" % lines)
    return v


CTORS = ["Response", "PlainTextResponse", "HTMLResponse", "JSONResponse", "RedirectResponse", "StreamResponse", "SendEventResponse"]


def case_ctor(cls, headers, iface):
    """headers given to a response constructor: either rejected there (ValueError) or emitted without CR / LF / NUL"""
    import baize.wsgi as W
    import baize.asgi as A
    mod = W if iface == "wsgi" else A
    hs = dict(headers)
    try:
        if cls == "Response":
            resp = mod.Response(200, hs)
        elif cls in ("PlainTextResponse", "HTMLResponse"):
            resp = getattr(mod, cls)("body", 200, hs)
        elif cls == "JSONResponse":
            resp = mod.JSONResponse({"a": 1}, 200, hs)
        elif cls == "RedirectResponse":
            resp = mod.RedirectResponse("/t", 307, hs)
        elif cls == "StreamResponse":
            if iface == "wsgi":
                resp = mod.StreamResponse(iter([b"x"]), 200, hs)
            else:
                async def gen():
                    yield b"x"
                resp = mod.StreamResponse(gen(), 200, hs)
        else:
            if iface == "wsgi":
                resp = mod.SendEventResponse(iter([]), 200, hs)
            else:
                async def gen2():
                    return
                    yield
                resp = mod.SendEventResponse(gen2(), 200, hs)
    except ValueError:
        dirty = any(c in k + val for k, val in hs.items() for c in BAD)
        return [] if dirty else ["clean constructor headers %r were rejected" % (hs,)]
    except Exception as e:  # noqa
        return ["constructor raised %r" % e]
    lines, exc = emitted_lines(resp, iface)
    if lines is None:
        return [] if isinstance(exc, UnicodeEncodeError) else ["emission raised %r" % exc]
    return check_lines(lines)


def replay(inputs):
    k = inputs["kind"]
    if k == "ctor":
        return {"violated": case_ctor(inputs["cls"], [tuple(h) for h in inputs["headers"]], inputs["iface"])}
    if k == "mapping":
        return {"violated": case_mapping([tuple(o) for o in inputs["ops"]], inputs["iface"])}
    if k == "cookie":
        return {"violated": case_cookie(inputs["name"], inputs["value"], inputs["iface"])}
    return {"violated": case_redirect(inputs["url"], inputs["iface"])}


def bounded(tier, seed):
    rng = random.Random(seed)
    evals = 0
    distinct = set()
    failures = []
    samples = []
    ss = strings(2 if tier == "quick" else 3)
    dirty = [s for s in ss if any(c in s for c in BAD)]
    keys = ["x", "X-A", "a\nb", "", "é"] + (dirty[:6] if tier == "thorough" else dirty[:2])
    ops_names = ["set", "append", "update", "setdefault"]
    for iface in ("wsgi", "asgi"):
        # single operations with every value, then sequences of 2-3 operations
        for op in ops_names:
            for k in keys:
                for val in ss:
                    evals += 1
                    v = case_mapping([(op, k, val)], iface)
                    if any(c in k + val for c in BAD):
                        distinct.add((iface, op, k, val))
                    if v and len(failures) < 10:
                        failures.append({"inputs": {"kind": "mapping", "ops": [[op, k, val]], "iface": iface}, "violated": v})
        vals = ["a", "a\r\nb: c", "\0", "x, y", "é"]
        seqs = list(itertools.product(ops_names, repeat=3 if tier == "thorough" else 2))
        for seq in seqs:
            for combo in itertools.product(vals, repeat=len(seq)):
                evals += 1
                ops = [(o, "x-k", val) for o, val in zip(seq, combo)]
                v = case_mapping(ops, iface)
                distinct.add((iface, seq, combo))
                if v and len(failures) < 10:
                    failures.append({"inputs": {"kind": "mapping", "ops": [list(o) for o in ops], "iface": iface}, "violated": v})
        for name in ["n", "a b", "a;b", "a=b", "a\r\nSet-Cookie: evil=1", 'q"', "é"]:
            for value in ss:
                evals += 1
                v = case_cookie(name, value, iface)
                distinct.add((iface, "cookie", name, value))
                if v and len(failures) < 10:
                    failures.append({"inputs": {"kind": "cookie", "name": name, "value": value, "iface": iface}, "violated": v})
                elif len(samples) < 3 and ";" in value and "\n" in value:
                    samples.append({"cookie": (name, value), "iface": iface})
        # names / values that LOOK like a finished quoted-string (wrapped in double quotes, inner quotes escaped)
        for value in ('"abc\r\nSet-Cookie: admin=1"', '"abc; domain=evil.example"', '"\0"', '"a\\"b\n"', '"x,y"', '"\\012"', '""', '"'):
            for name in ("sid", '"n\r\n"'):
                evals += 1
                v = case_cookie(name, value, iface)
                distinct.add((iface, "cookie-quoted", name, value))
                if v and len(failures) < 10:
                    failures.append({"inputs": {"kind": "cookie", "name": name, "value": value, "iface": iface}, "violated": v})
        for url in ["/a"] + ["/p" + s for s in ss] + ["http://h/\r\nSet-Cookie: a=b", "/\r\n\r\n<html>"]:
            evals += 1
            v = case_redirect(url, iface)
            distinct.add((iface, "redirect", url))
            if v and len(failures) < 10:
                failures.append({"inputs": {"kind": "redirect", "url": url, "iface": iface}, "violated": v})
        # long values outside Latin-1 (CJK, emoji, the euro sign): whatever the response does with them at emission time - send
        # them, refuse them (UnicodeEncodeError) - the emitted lines hold no CR / LF / NUL (e.g. no folded encoded-words)
        for text in ("\u62a5\u544a" * 12, "\u20ac" * 40, "title \U0001f600 " * 8, "x" * 70 + "\u20ac", "\u62a5 " * 30):
            for op in ops_names:
                evals += 1
                v = case_mapping([(op, "X-Title", text)], iface)
                distinct.add((iface, "long", op, text[:4]))
                if v and len(failures) < 10:
                    failures.append({"inputs": {"kind": "mapping", "ops": [[op, "X-Title", text]], "iface": iface}, "violated": v})
            evals += 1
            v = case_ctor("Response", [("X-Title", text)], iface)
            if v and len(failures) < 10:
                failures.append({"inputs": {"kind": "ctor", "cls": "Response", "headers": [["X-Title", text]], "iface": iface}, "violated": v})
        # headers handed to a constructor (the mapping is built by MutableHeaders.__init__, not by __setitem__)
        cvals = ["v", "a\r\nX-Evil: 1", "a\nb", "\0", "x\ry"] + (dirty[:40] if tier == "thorough" else dirty[:6])
        for cls in CTORS:
            for hk in ("X-K", "x\nk", "Content-Type"):
                for val in cvals:
                    for extra in ((), (("x-k", "w\r\n"),)):
                        evals += 1
                        hs = [(hk, val)] + list(extra)
                        v = case_ctor(cls, hs, iface)
                        distinct.add((iface, "ctor", cls, hk, val, extra))
                        if v and len(failures) < 10:
                            failures.append({"inputs": {"kind": "ctor", "cls": cls, "headers": [list(h) for h in hs], "iface": iface},
                                             "violated": v})
    return {"evaluations": evals, "distinct_nontrivial": len(distinct), "failures": failures, "samples": samples,
            "rule": "constructor-supplied headers with CR / LF / NUL in name or value on every bundled response class (rejected at "
                    "construction or emitted clean); every string up to length %d over {a, CR, LF, NUL, ';', ',', '=', '\"', '\\\\', e-acute, euro, space} as header "
                    "value through item assignment / append / update / setdefault (single and in sequences), as cookie name "
                    "and value, and as redirect target, on both interfaces; emitted header lines are inspected on a recording "
                    "server; non-trivial = input containing CR, LF or NUL (mapping) / any cookie / any redirect"
                    % (2 if tier == "quick" else 3),
            "exhaustive": False}
