"""C15 native bounded stand-in: multipart limits are exact; buffering is bounded."""
import asyncio
import itertools
import random

from native import c01


def run_limits(parts, boundary, chunks, max_parts, max_mem, which):
    from baize.multipart_helper import parse_stream, parse_async_stream
    from baize.datastructures import UploadFile
    from baize.exceptions import RequestEntityTooLarge
    try:
        if which == "sync":
            parse_stream(iter(chunks), boundary, "utf8", file_factory=UploadFile, max_form_parts=max_parts, max_form_memory_size=max_mem)
        else:
            async def agen():
                for c in chunks:
                    yield c

            async def go():
                return await parse_async_stream(agen(), boundary, "utf8", file_factory=UploadFile, max_form_parts=max_parts,
                                                max_form_memory_size=max_mem)
            asyncio.run(go())
        return "ok"
    except RequestEntityTooLarge:
        return "413"
    except Exception as e:  # noqa
        return "exc:%r" % e


def check_limits(parts, boundary, chunks, max_parts, max_mem):
    n = len(parts)
    field_bytes = sum(len(c) for name, fn, ct, c in parts if fn is None)
    want = "413" if (n > max_parts or (max_mem is not None and field_bytes > max_mem)) else "ok"
    v = []
    for which in ("sync", "async"):
        got = run_limits(parts, boundary, chunks, max_parts, max_mem, which)
        if got != want:
            v.append("%s: %s, expected %s (parts=%d limit=%s, field bytes=%d limit=%s)" % (which, got, want, n, max_parts, field_bytes, max_mem))
    return v


def check_buffer(content, boundary, chunk_size):
    """bytes received but not yet handed on never exceed one chunk + delimiter + a small constant"""
    from baize.multipart import MultipartDecoder, NeedData, Epilogue
    body = c01.encode([("f", "big.bin", "application/octet-stream", content)], boundary)
    d = MultipartDecoder(boundary, "utf8")
    worst = 0
    emitted = 0
    for i in range(0, len(body), chunk_size):
        chunk = body[i:i + chunk_size]
        d.receive_data(chunk)
        while True:
            ev = d.next_event()
            if isinstance(ev, (NeedData, Epilogue)):
                break
        worst = max(worst, len(d.buffer))
    bound = chunk_size + len(boundary) + 8
    if worst > bound:
        return ["%d bytes buffered, bound is %d (chunk %d + delimiter %d + 8)" % (worst, bound, chunk_size, len(boundary))]
    return []


def check_buffer_body(body, boundary, chunk_size):
    """the same monitor on a raw body (long padding after a delimiter, long header block, long preamble / epilogue)"""
    from baize.multipart import MultipartDecoder, NeedData, Epilogue
    d = MultipartDecoder(boundary, "utf8")
    worst = 0
    try:
        for i in range(0, len(body), chunk_size):
            d.receive_data(body[i:i + chunk_size])
            while True:
                ev = d.next_event()
                if isinstance(ev, (NeedData, Epilogue)):
                    break
            worst = max(worst, len(d.buffer))
    except Exception as e:  # noqa
        return ["decoder raised %r" % e]
    bound = chunk_size + len(boundary) + 8
    if worst > bound:
        return ["%d bytes buffered, bound is %d (chunk %d + delimiter %d + 8)" % (worst, bound, chunk_size, len(boundary))]
    return []


def raw_bodies(n):
    part = b'Content-Disposition: form-data; name="a"\r\n\r\nv'
    return {
        "padding-after-delimiter": b"--bnd\r\n" + part + b"\r\n--bnd" + b" " * n + b"\r\n" + part + b"\r\n--bnd--\r\n",
        "long-header-block": b"--bnd\r\nX-Junk: " + b"j" * n + b"\r\n" + part + b"\r\n--bnd--\r\n",
        "long-preamble": b"p" * n + b"\r\n--bnd\r\n" + part + b"\r\n--bnd--\r\n",
        "long-epilogue": b"--bnd\r\n" + part + b"\r\n--bnd--\r\n" + b"e" * n,
    }


def replay(inputs):
    if inputs["kind"] == "raw":
        return {"violated": check_buffer_body(raw_bodies(inputs["n"])[inputs["shape"]], b"bnd", inputs["chunk"])}
    if inputs["kind"] == "buffer":
        return {"violated": check_buffer(inputs["lead"].encode("latin-1") + b"x" * inputs["n"], inputs["boundary"].encode("latin-1"), inputs["chunk"])}
    parts = [(p[0], p[1], p[2], p[3].encode("latin-1")) for p in inputs["parts"]]
    return {"violated": check_limits(parts, inputs["boundary"].encode("latin-1"), [c.encode("latin-1") for c in inputs["chunks"]],
                                     inputs["max_parts"], inputs["max_mem"])}


def bounded(tier, seed):
    rng = random.Random(seed)
    evals = 0
    distinct = set()
    failures = []
    samples = []
    boundary = b"bnd"
    forms = [
        [],
        [("a", None, None, b"12345")],
        [("a", None, None, b"12345"), ("b", None, None, b"")],
        [("a", None, None, b"12"), ("f", "x.bin", "application/octet-stream", b"0123456789" * 3), ("c", None, None, b"345")],
        [("f", "x.bin", "application/octet-stream", b"\r\n--bn\r\nzz"), ("g", "y.bin", None, b"")],
        # a file part whose filename is EMPTY (what a browser sends for an empty file input) is still a file part: its bytes do
        # not count as field data
        [("a", None, None, b"12"), ("f", "", "application/octet-stream", b"0123456789" * 3)],
        # quoted-string syntax in the Content-Disposition parameters: an escaped quote followed by ';' INSIDE the quotes does
        # not end the parameter - a field whose NAME spells `";filename="x` stays a field (its bytes count), a file whose field
        # name contains `";` stays a file (its bytes do not)
        [("a\\\";filename=\\\"x", None, None, b"12345")],
        [("f\\\";x", "big.bin", "application/octet-stream", b"0123456789" * 3), ("a", None, None, b"12")],
        [("a;b", None, None, b"123"), ("q\\\"q", "n;m.bin", None, b"0123456789")],
    ]
    for parts in forms:
        n = len(parts)
        fb = sum(len(c) for _, fn, _, c in parts if fn is None)
        body = c01.encode(parts, boundary)
        chs = c01.chunkings(body, 2, rng, 12 if tier == "quick" else 150)
        for max_parts in sorted({max(0, n - 1), n, n + 1}):
            for max_mem in sorted({max(0, fb - 1), fb, fb + 1}) + [None]:
                for chunks in chs:
                    evals += 1
                    v = check_limits(parts, boundary, chunks, max_parts, max_mem)
                    distinct.add((n, fb, max_parts, max_mem, tuple(len(c) for c in chunks)))
                    if v and len([f for f in failures if f["inputs"].get("region") is None]) < 8:
                        failures.append({"inputs": {"kind": "limits", "parts": [[p[0], p[1], p[2], p[3].decode("latin-1")] for p in parts],
                                                    "boundary": "bnd", "chunks": [c.decode("latin-1") for c in chunks], "max_parts": max_parts,
                                                    "max_mem": max_mem, "region": None}, "violated": v})
                    elif len(samples) < 3 and n == 3 and len(chunks) == 3:
                        samples.append({"parts": n, "field_bytes": fb, "max_parts": max_parts, "max_mem": max_mem})
    sizes = [1024, 100000] if tier == "quick" else [1024, 100000, 1 << 20]
    # (leads that contain the text '--bnd' in the middle of a line: it is content, not a delimiter, and must not stop the flow)
    for lead in (b"", b"\r", b"\n", b"ab\r", b"\r\n-", b"x--bndz", b"--bnd", b"a--bnd--b"):
        for n in sizes:
            for chunk in (64, 4096):
                evals += 1
                v = check_buffer(lead + b"x" * n, boundary, chunk)
                region = "lone-CR-or-LF-then-long-run" if (v and (b"\r" in lead or b"\n" in lead)) else None
                distinct.add(("buf", lead, n, chunk))
                if v and len([f for f in failures if f["inputs"].get("region") == region]) < 3:
                    failures.append({"inputs": {"kind": "buffer", "lead": lead.decode("latin-1"), "n": n, "boundary": "bnd", "chunk": chunk,
                                                "region": region}, "violated": v})
    for shape in ("padding-after-delimiter", "long-header-block", "long-preamble", "long-epilogue"):
        for n in sizes[:2]:
            evals += 1
            v = check_buffer_body(raw_bodies(n)[shape], b"bnd", 64)
            distinct.add(("raw", shape, n))
            region = "unbounded-buffering-outside-part-data" if v and "buffered" in v[0] else None
            if v and len([f for f in failures if f["inputs"].get("region") == region]) < 3:
                failures.append({"inputs": {"kind": "raw", "shape": shape, "n": n, "chunk": 64, "region": region}, "violated": v})
    return {"evaluations": evals, "distinct_nontrivial": len(distinct), "failures": failures, "samples": samples,
            "rule": "five forms (0..3 parts, fields and files) x max_form_parts in {n-1, n, n+1} x max_form_memory_size in {B-1, B, B+1, "
                    "None} x chunkings (one chunk, byte-at-a-time, empty chunks, seeded 2-cut ones) through the sync and the async "
                    "helper; buffer monitor: after every next_event len(buffer) <= chunk + len(boundary) + 8 for file parts that "
                    "start with '', CR, LF, 'ab\\\\r', CRLF-, or with the text '--bnd' inside a line, followed by 1 KiB .. 1 MiB without a line break, and for raw bodies with long padding "
                    "after a delimiter, a long header block, a long preamble, a long epilogue",
            "exhaustive": False}
