#!/bin/sh
# development helper: every thorough check in sequence (from the directory this script lives in)
cd "$(dirname "$0")"
for p in C01 C03 C07 C08 C09 C10 C11 C14 C15 C17 C18 C19 C20 C04 C12 C13 C16 C02 C05; do
  /usr/bin/time -f "%es" ./check $p --tier thorough 2>&1 | grep -v "^KNOWN-FINDING" | tail -4
done
echo ALLDONE
