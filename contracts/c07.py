"""C07 -- static files: BaseFiles.ensure_absolute_path / check_path_is_file, Pages.ensure_absolute_path."""
import z3

from pyvc.contract import Contract
from pyvc.stubs import USED
from pyvc.values import *  # noqa
from pyvc.builtins import ufunc, S, I, Bz
from pyvc.engine import PyRaise, Unsupported

SF = "baize/staticfiles.py"
WS = "baize/wsgi/staticfiles.py"
AS = "baize/asgi/staticfiles.py"


def path_join(ev, args, kwargs, node):
    """os.path.join: a function of its arguments (A-path-1)"""
    USED.add("A-path-1")
    if len(args) == 1 and isinstance(args[0], VFunc) and args[0].kind == "starred":
        # join(*path.split('/')): a function of the split request path
        return VStr(ufunc("join_segments", S, S)(ev.frame.lookup("path").t))
    if len(args) == 2 and all(isinstance(a, VStr) for a in args):
        return VStr(ufunc("path_join", S, S, S)(args[0].t, args[1].t))
    raise Unsupported("os.path.join arity")


ABSN = z3.Function("is_abs_norm", z3.StringSort(), z3.BoolSort())     # "an absolute, normalised path"


def path_abspath(ev, args, kwargs, node):
    """os.path.abspath: a function of its argument (and the working directory); the result is absolute and normalised"""
    USED.add("A-path-1")
    r = ufunc("abspath", S, S)(args[0].t)
    ev.st.assume(ABSN(r))
    ev.st.assume(z3.PrefixOf(z3.StringVal("/"), r))
    return VStr(r)


def path_normpath(ev, args, kwargs, node):
    """os.path.normpath: normalised; absolute exactly when its argument is (a relative path STAYS relative)"""
    USED.add("A-path-1")
    r = ufunc("normpath", S, S)(args[0].t)
    ev.st.assume(ABSN(r) == z3.PrefixOf(z3.StringVal("/"), args[0].t))
    return VStr(r)


def path_join3(ev, args, kwargs, node):
    """os.path.join(a, '..', b) with a relative b: absolute exactly when a is"""
    USED.add("A-path-1")
    r = ufunc("path_join3", S, S, S, S)(args[0].t, args[1].t, args[2].t)
    ev.st.assume(z3.PrefixOf(z3.StringVal("/"), r) == z3.Or(z3.PrefixOf(z3.StringVal("/"), args[0].t),
                                                             z3.PrefixOf(z3.StringVal("/"), args[2].t)))
    return VStr(r)


def find_spec_stub(ev, args, kwargs, node):
    """importlib.util.find_spec(package): None, or a spec whose origin is None or the ABSOLUTE path of the package's
    __init__ file (A-importlib)"""
    USED.add("A-importlib")
    st = ev.st
    k = st.choose([z3.BoolVal(True)] * 3, force_record=True)
    if k == 0:
        return NONE
    if k == 1:
        return st.alloc(Obj("ModuleSpec", {"origin": NONE}))
    o = st.fresh(Str, "spec.origin")
    st.assume(z3.PrefixOf(z3.StringVal("/"), o.t))
    return st.alloc(Obj("ModuleSpec", {"origin": o}))


def path_relpath(ev, args, kwargs, node):
    """os.path.relpath(p, d) for an absolute normalised d: it is '..' or starts with '../' exactly when p is neither d
    nor below d (A-path-2; validated by the bounded layer on a real tree)"""
    USED.add("A-path-2")
    p, d = args[0].t, args[1].t
    r = ufunc("relpath", S, S, S)(p, d)
    inside = z3.Or(p == d, z3.PrefixOf(z3.Concat(d, z3.StringVal("/")), p))
    outside_form = z3.Or(r == z3.StringVal(".."), z3.PrefixOf(z3.StringVal("../"), r))
    ev.st.assume(outside_form == z3.Not(inside))
    return VStr(r)


DEFS = {
    "inside(d, p)": "p == d or p.startswith(d + '/')",
    "resolved()": "abspath(path_join(self.directory, join_segments(path)))",
}
UF = {"abspath": ([Str], Str), "path_join": ([Str, Str], Str), "join_segments": ([Str], Str), "relpath": ([Str, Str], Str)}

ENSURE_ABS = Contract(
    id="ensure_absolute_path", file=SF, qualname="BaseFiles.ensure_absolute_path", props=["C07"],
    params={"self": ObjT(SF + ":BaseFiles", directory=Str), "path": Str}, returns=Opt(Str),
    # (the class invariant BaseFiles.__init__ establishes through normalize_dir_path: see NORMALIZE_DIR)
    requires=["self.directory != '' and not self.directory.endswith('/')", "is_abs_norm(self.directory)"],
    defs=DEFS, ufuncs=dict(UF, is_abs_norm=([Str], Bool)), cls="BaseFiles",
    stubs={"os.path.join": path_join, "os.path.abspath": path_abspath, "os.path.relpath": path_relpath, "os.sep": None},
    consts={"os": VGlobal("os")},
    ensures={
        # nothing outside the configured directory is ever handed on
        "confined": "is_none(result) or inside(self.directory, result)",
        "is_the_lexical_resolution": "is_none(result) or result == resolved() + ('/' if path.endswith('/') else '')",
        "complete": "implies(inside(self.directory, resolved() + ('/' if path.endswith('/') else '')), not is_none(result))",
    },
    canaries={"always_rejects": "is_none(result)"},
    assumptions=["A-path-1", "A-path-2"],
)
ENSURE_ABS.stubs.pop("os.sep")


def os_stat(ev, args, kwargs, node):
    """os.stat: the entry's stat result, FileNotFoundError, NotADirectoryError or ValueError (A-stat; other OSErrors are environment
    faults, not request content).  Every attempt is recorded on the ghost `fs`: how many, the last path, and whether all
    paths so far were inside the configured directory."""
    USED.add("A-stat")
    st = ev.st
    g = st.obj(st.ghost["fs"])
    g.fields["n_stat"] = VInt(g.fields["n_stat"].t + 1)
    g.fields["last"] = args[0]
    d = st.obj(ev.frame.lookup("self")).fields["directory"].t
    inside = z3.Or(args[0].t == d, z3.PrefixOf(z3.Concat(d, z3.StringVal("/")), args[0].t))
    g.fields["all_inside"] = VBool(z3.And(g.fields["all_inside"].t, inside))
    k = st.choose([z3.BoolVal(True)] * 4, force_record=True)
    if k in (1, 2, 3):
        # (ValueError: a NUL byte in the path.  The configured directory itself may be missing too.)
        raise PyRaise(("FileNotFoundError", "NotADirectoryError", "ValueError")[k - 1], None, getattr(node, "lineno", 0))
    fields = {"st_mode": st.fresh(Int, "st_mode"), "st_size": st.fresh(Int, "st_size"),
              "st_mtime": st.fresh(Opaque("Float"), "st_mtime"), "st_ctime": st.fresh(Opaque("Float"), "st_ctime")}
    # the last successful stat: the state of that entry as the request saw it (C14: the validators are compared with THIS)
    g.fields["ok_path"] = args[0]
    g.fields["ok_mtime"], g.fields["ok_size"], g.fields["ok_ctime"] = fields["st_mtime"], fields["st_size"], fields["st_ctime"]
    return st.alloc(Obj("stat_result", fields))


os_stat.mods = ("fs",)


def s_isreg(ev, args, kwargs, node):
    return VBool(ufunc("S_ISREG", I, Bz)(args[0].t))


FS_T = ObjT("FsGhost", n_stat=Int, last=Str, all_inside=Bool, ok_path=Str, ok_mtime=Opaque("Float"), ok_size=Int, ok_ctime=Opaque("Float"))
STAT_T = ObjT("stat_result", st_mode=Int, st_size=Int, st_mtime=Opaque("Float"), st_ctime=Opaque("Float"))

NORMALIZE_DIR = Contract(
    id="BaseFiles.normalize_dir_path", file=SF, qualname="BaseFiles.normalize_dir_path", props=["C07"],
    params={"self": ObjT(SF + ":BaseFiles"), "directory": Str, "package": Opt(Str)}, returns=Str,
    # (with a package, BaseFiles.__init__ has asserted that `directory` is relative)
    requires=["implies(not is_none(package), not directory.startswith('/'))"],
    ufuncs={"is_abs_norm": ([Str], Bool)},
    stubs={"os.path.abspath": path_abspath, "os.path.normpath": path_normpath, "os.path.join": path_join3,
           "importlib.util.find_spec": find_spec_stub,
           "os.path.isdir": lambda ev, a, k, n: VBool(z3.Bool(ev.st.run.fresh_name("isdir")))},
    raises={"AssertionError": "not is_none(package)"},
    ensures={
        # the configured directory is fixed when the application is constructed: an absolute, normalised path - NOT a relative
        # one that every request would resolve against the working directory of the moment
        "absolute": "is_abs_norm(result)",
    },
    canaries={"never_returns": "False"},
    assumptions=["A-path-1", "A-importlib"],
)

CHECK_FILE = Contract(
    id="check_path_is_file", file=SF, qualname="BaseFiles.check_path_is_file", props=["C07", "C12"],
    params={"self": ObjT(SF + ":BaseFiles", directory=Str), "path": Opt(Str)}, returns=Tup(Opt(STAT_T), Bool),
    ghosts={"fs": FS_T},
    defs=DEFS, ufuncs={"S_ISREG": ([Int], Bool)},
    stubs={"os.stat": os_stat, "stat.S_ISREG": s_isreg},
    ghost_modifies=["fs"],
    raises={},     # a missing entry or a path below a regular file is "not found", never an exception
    ensures={
        "none_is_not_a_file": "implies(is_none(path), is_none(result[0]) and not result[1] and fs.n_stat == old(fs.n_stat) and "
                              "fs.all_inside == old(fs.all_inside))",
        "one_stat_on_the_given_path": "implies(not is_none(path), fs.n_stat == old(fs.n_stat) + 1 and fs.last == path and "
                                      "fs.all_inside == (old(fs.all_inside) and inside(self.directory, path)))",
        "regular_iff_mode": "implies(not is_none(result[0]), result[1] == S_ISREG(result[0].st_mode))",
        "absent": "implies(is_none(result[0]), not result[1])",
        # the stat result handed back is the one os.stat gave for this path (recorded as the last successful stat); a failed
        # attempt leaves that record alone
        "stat_recorded": "implies(not is_none(result[0]), fs.ok_path == path and fs.ok_mtime == result[0].st_mtime and "
                         "fs.ok_size == result[0].st_size and fs.ok_ctime == result[0].st_ctime)",
        "failed_stat_keeps_record": "implies(is_none(result[0]), fs.ok_path == old(fs.ok_path) and fs.ok_mtime == old(fs.ok_mtime) and "
                                    "fs.ok_size == old(fs.ok_size) and fs.ok_ctime == old(fs.ok_ctime))",
    },
    canaries={"never_a_file": "not result[1]"},
    assumptions=["A-stat"],
)


def base_ensure(ev, args, kwargs, node):
    """super().ensure_absolute_path(path): the contract of BaseFiles.ensure_absolute_path"""
    from pyvc.contract import apply_contract
    return apply_contract(ev, ENSURE_ABS, [ev.frame.lookup("self")] + args, kwargs, node)


def pages_ensure(file_, iface):
    return Contract(
        id=iface + ".Pages.ensure_absolute_path", file=file_, qualname="Pages.ensure_absolute_path", props=["C07"],
        params={"self": ObjT(file_ + ":Pages", directory=Str), "path": Str}, returns=Opt(Str),
        requires=["self.directory != '' and not self.directory.endswith('/')", "is_abs_norm(self.directory)"],
        defs=DEFS, ufuncs=dict(UF, is_abs_norm=([Str], Bool)),
        stubs={"super().ensure_absolute_path": base_ensure},
        ensures={
            "confined": "is_none(result) or inside(self.directory, result)",
            "index_for_directory_urls": "implies(not is_none(result) and path.endswith('/'), result == resolved() + '/index.html')",
            "plain_otherwise": "implies(not is_none(result) and not path.endswith('/') and not resolved().endswith('/'), result == resolved())",
        },
        canaries={"always_rejects": "is_none(result)"},
        assumptions=["A-path-1", "A-path-2"],
    )


# --------------------------------------------------------------------------- the applications: Files / Pages __call__
from contracts import c14 as _c14
from contracts import c02 as _c02

SV_T = ObjT("ServedGhost", n=Int, kind=Int, path=Str, n_404=Int, n_redirect=Int, malformed=Bool, url_path=Str, redirect_path=Str,
            # what the served response was decided for (C14): the file, the validators, the stat fields
            for_path=Str, inm=Str, ims=Str, mtime=Opaque("Float"), size=Int, ctime=Opaque("Float"))


def _served(ev, recv, args, kwargs, node):
    """the response object is called with the server's arguments: recorded (what it then emits is C02 / C05 / C14)"""
    st = ev.st
    o = st.obj(recv)
    g = st.obj(st.ghost["sv"])
    g.fields["n"] = VInt(g.fields["n"].t + 1)
    g.fields["kind"] = o.fields["kind"]
    if "filepath" in o.fields:
        g.fields["path"] = o.fields["filepath"]
    for a, b in (("for_path", "g_path"), ("inm", "g_inm"), ("ims", "g_ims"), ("mtime", "g_mtime"), ("size", "g_size"), ("ctime", "g_ctime")):
        if b in o.fields:
            g.fields[a] = o.fields[b]
    return NONE


_served.mods = ("sv",)


def _handle_404(ev, args, kwargs, node):
    g = ev.st.obj(ev.st.ghost["sv"])
    g.fields["n_404"] = VInt(g.fields["n_404"].t + 1)
    return NONE


_handle_404.mods = ("sv",)


def _redirect_stub(ev, args, kwargs, node):
    g = ev.st.obj(ev.st.ghost["sv"])
    g.fields["n_redirect"] = VInt(g.fields["n_redirect"].t + 1)
    return VFunc("py", lambda ev2, a, k, n: NONE, "redirect-response")


_redirect_stub.mods = ("sv",)


def _malformed(ev, node):
    """URL(environ=...) / url.replace(...): urlsplit may reject the client's Host header, the path / query may not be UTF-8
    (ValueError; A-urlsplit) - recorded on the ghost, so that the 400 it becomes can be told from a 404"""
    g = ev.st.obj(ev.st.ghost["sv"])
    if ev.st.choose([z3.BoolVal(True)] * 2, force_record=True) == 1:
        g.fields["malformed"] = VBool(True)
        raise PyRaise("ValueError", None, getattr(node, "lineno", 0))


def _url_stub(ev, args, kwargs, node):
    _malformed(ev, node)
    up = ev.st.fresh(Str, "url.path")
    ev.st.obj(ev.st.ghost["sv"]).fields["url_path"] = up       # the path of the REQUEST URL (mount prefix + path)
    return ev.st.alloc(Obj("URL", {"path": up}))


_url_stub.mods = ("sv",)


def _url_replace(ev, recv, args, kwargs, node):
    _malformed(ev, node)
    if "path" in kwargs:
        ev.st.obj(ev.st.ghost["sv"]).fields["redirect_path"] = kwargs["path"]
    return ev.st.alloc(Obj("URL", {"path": kwargs.get("path", ev.st.obj(recv).fields["path"])}))


_url_replace.mods = ("sv",)
_url_replace.mutates_recv = False


def _s_isdir(ev, args, kwargs, node):
    return VBool(ufunc("S_ISDIR", I, Bz)(args[0].t))


def mk_app_call(file_, iface, cls):
    resp = file_.replace("staticfiles", "responses")
    self_t = ObjT(file_ + ":" + cls, directory=Str, handle_404=Opt(TFunc(_handle_404, "handle_404")))
    if iface == "wsgi":
        params = {"self": self_t, "environ": Dict(HTTP_IF_NONE_MATCH=Maybe_(Str), HTTP_IF_MODIFIED_SINCE=Maybe_(Str), PATH_INFO=Maybe_(Str)),
                  "start_response": Opaque("StartResponse")}
    else:
        params = {"self": self_t, "scope": Dict(path=Str, root_path=Maybe_(Str), headers=List(Tup(Bytes, Bytes))), "receive": Opaque("Receive"),
                  "send": Opaque("Send")}
    ensures = {
        # C07: whatever the request says, every path handed to os.stat - and therefore every file that can be served -
        # is the configured directory or lies below it
        "nothing_outside_is_touched": "fs.all_inside",
        "serves_only_what_it_checked": "implies(sv.n == 1 and sv.kind == 200, sv.path == fs.last and inside(self.directory, sv.path))",
        "one_outcome": "sv.n + sv.n_404 + sv.n_redirect == 1",
        "stats": "fs.n_stat <= %d" % (1 if cls == "Files" else 2),
    }
    if cls == "Files":
        ensures["lookup"] = "implies(sv.n == 1, fs.n_stat == 1 and fs.last == resolved_rp())"
    else:
        # the directory redirect goes to the SAME URL plus '/': the path of the request URL (which includes the mount prefix -
        # root_path / SCRIPT_NAME), quoted again, not the application-relative path
        ensures["redirect_keeps_the_request_url"] = "implies(sv.n_redirect == 1, sv.redirect_path == quote_path(sv.url_path) + '/')"
    # ----- C14 at the level of the application: the 304 / 200 decision is taken for the validators THIS request presented,
    # against the stat result os.stat gave during THIS request for the very file that is served
    ensures["decided_on_current_state"] = ("implies(sv.n == 1, sv.for_path == fs.ok_path and sv.mtime == fs.ok_mtime and "
                                           "sv.size == fs.ok_size and sv.ctime == fs.ok_ctime and "
                                           "implies(sv.kind == 200, sv.path == sv.for_path))")
    ensures["validators_from_request"] = "implies(sv.n == 1, sv.inm == REQ_INM() and sv.ims == REQ_IMS())"
    ensures["conditional_decision"] = (
        "implies(sv.n == 1, (sv.kind == 304) == (((REQ_INM() == '*' or exists(i, 0, len(pieces), "
        "etag_of(fs.ok_mtime, fs.ok_size) == tag(pieces[i]))) if REQ_INM() != '' else "
        "(REQ_IMS() != '' and date_parses(REQ_IMS()) and "
        "floor_int(fs.ok_ctime) <= floor_int(dt_timestamp(parsed_date(REQ_IMS())))))))")
    inv = {}
    extra_requires = []
    if iface == "wsgi":
        req_defs = {"REQ_INM()": "(environ['HTTP_IF_NONE_MATCH'] if has(environ, 'HTTP_IF_NONE_MATCH') else '')",
                    "REQ_IMS()": "(environ['HTTP_IF_MODIFIED_SINCE'] if has(environ, 'HTTP_IF_MODIFIED_SINCE') else '')"}
    else:
        # the header list is read front to back: every If-None-Match line joins one comma-separated list, the last
        # If-Modified-Since line counts.  inm_upto(k) / ims_upto(k): the two values after the first k header pairs (ghost
        # functions, defined by recursion on k - these requires are their definition, not a restriction of the request)
        req_defs = {"REQ_INM()": "inm_upto(len(scope['headers']))", "REQ_IMS()": "ims_upto(len(scope['headers']))",
                    "HK(k)": "scope['headers'][k][0]", "HV(k)": "scope['headers'][k][1].decode('latin-1')"}
        extra_requires = [
            "inm_upto(0) == '' and ims_upto(0) == ''",
            "forall(k, 0, len(scope['headers']), inm_upto(k + 1) == (((inm_upto(k) + ', ' + HV(k)) if inm_upto(k) != '' else HV(k)) "
            "if HK(k) == b'if-none-match' else inm_upto(k)))",
            "forall(k, 0, len(scope['headers']), ims_upto(k + 1) == (HV(k) if (HK(k) != b'if-none-match' and HK(k) == b'if-modified-since') "
            "else ims_upto(k)))",
        ]
        inv = {1: ["fs.n_stat == 0 and fs.all_inside and sv.n == 0 and sv.n_404 == 0 and sv.n_redirect == 0",
                   "if_none_match == inm_upto(IDX) and if_modified_since == ims_upto(IDX)"]}
    return Contract(
        id="%s.%s.__call__" % (iface, cls), file=file_, qualname=cls + ".__call__", props=["C07", "C12"],
        params=params,
        ghosts={"fs": FS_T, "sv": SV_T, "rp": Str, "fx": ObjT("FxGhost", n_set_headers=Int), "pieces": List(Str)},
        requires=["self.directory != '' and not self.directory.endswith('/')", "is_abs_norm(self.directory)", "fs.n_stat == 0 and fs.all_inside",
                  "sv.n == 0 and sv.n_404 == 0 and sv.n_redirect == 0 and not sv.malformed", "fx.n_set_headers == 0"] + (
                  ["rp == scope['path']"] if iface == "asgi" else []) + extra_requires,
        defs=dict(DEFS, **dict(req_defs, **dict(_c14.DEFS, **{
            "resolved_rp()": "abspath(path_join(self.directory, join_segments(rp))) + ('/' if rp.endswith('/') else '')"}))),
        ufuncs=dict(UF, quote_path=([Str], Str), is_abs_norm=([Str], Bool), S_ISREG=([Int], Bool), S_ISDIR=([Int], Bool), inm_upto=([Int], Str), ims_upto=([Int], Str),
                    date_parses=([Str], Bool), parsed_date=([Str], Opaque("Datetime")), dt_timestamp=([Opaque("Datetime")], Opaque("Float")),
                    floor_int=([Opaque("Float")], Int), etag_of=([Opaque("Float"), Int], Str)),
        # (request_path is the WSGI module's reading of PATH_INFO, its own contract in C04; the ASGI module has no such function -
        # a stub by that name there would hide whatever a new function of that name does)
        stubs={**({"request_path": lambda ev, a, k, n: ev.st.ghost["rp"]} if iface == "wsgi" else {}), "stat.S_ISDIR": _s_isdir, "URL": _url_stub,
               "RedirectResponse": _redirect_stub,
               "quote": lambda ev, a, k, n: VStr(ufunc("quote_path", S, S)(a[0].t))},      # (A-quote-1; the target's text is C13)
        stub_methods={(resp + ":Response", "__call__"): _served, (resp + ":FileResponse", "__call__"): _served,
                      ("URL", "replace"): _url_replace},
        ghost_modifies=["fs", "sv", "fx"], frame_check=False, invariants=inv,
        # 404 only without a handler; 400 only for a request URL that cannot be rebuilt (directory redirect of Pages)
        # (stated on the state at the raise: the ghost records whether the request URL could not be rebuilt)
        raises={"HTTPException": None},
        raises_ensures={"HTTPException": {"ensures": ["fs.all_inside", "sv.n == 0 and sv.n_redirect == 0",
                                                      "is_none(self.handle_404) or sv.malformed"]}},
        ensures=ensures,
        canaries={"never_serves": "sv.n == 0"},
        # replay: the model's request path on the real temp tree of the native layer (the model's directory name and
        # stat outcomes are abstract; a refutation whose path behaves correctly there is reported as undecided)
        model_to_inputs=(lambda m, _i=iface, _c=cls: {"kind": _c, "iface": _i,
                                                      "path": "/" + str(m.get("rp", m.get("scope['path']", ""))).lstrip("/"),
                                                      "mount": (m.get("scope['root_path']") if m.get("scope.has['root_path']") else None)}),
        native=("c07", "replay"),
        assumptions=["A-path-1", "A-path-2", "A-stat"],
        notes="ensure_absolute_path, check_path_is_file and file_response enter through their own contracts; calling the "
              "response object is recorded on the ghost `sv` (its emissions are C02 / C05 / C14); handle_404 is an opaque app",
    )


APP_CALLS = [mk_app_call(f, i, c) for f, i in ((WS, "wsgi"), (AS, "asgi")) for c in ("Files", "Pages")]

C14_CLAUSES = ("decided_on_current_state", "validators_from_request", "conditional_decision", "/inv1.keep.2", "/inv1.entry.2")


def _c14_select(kind, iface):
    def sel(name, model):
        if name.endswith(C14_CLAUSES):
            return ("c14", "replay_family"), {"kind": kind, "iface": iface}
        return None
    return sel


for _c in APP_CALLS:
    _c.replay_select = _c14_select(_c.id.split(".")[1], _c.id.split(".")[0])


def register(reg):
    for c in (ENSURE_ABS, CHECK_FILE, NORMALIZE_DIR, pages_ensure(WS, "wsgi"), pages_ensure(AS, "asgi")):
        reg.add(c)
    for c in APP_CALLS:
        reg.add(c)
