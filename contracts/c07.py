"""C07 -- static files: BaseFiles.ensure_absolute_path / check_path_is_file, Pages.ensure_absolute_path."""
import z3

from pyvc.contract import Contract
from pyvc.stubs import USED
from pyvc.values import *  # noqa
from pyvc.builtins import ufunc, S, I, Bz
from pyvc.engine import PyRaise, Unsupported

SF = "baize/staticfiles.py"
WS = "baize/wsgi/staticfiles.py"
AS = "baize/asgi/staticfiles.py"


def path_join(ev, args, kwargs, node):
    """os.path.join: a function of its arguments (A-path-1)"""
    USED.add("A-path-1")
    if len(args) == 1 and isinstance(args[0], VFunc) and args[0].kind == "starred":
        # join(*path.split('/')): a function of the split request path
        return VStr(ufunc("join_segments", S, S)(ev.frame.lookup("path").t))
    if len(args) == 2 and all(isinstance(a, VStr) for a in args):
        return VStr(ufunc("path_join", S, S, S)(args[0].t, args[1].t))
    raise Unsupported("os.path.join arity")


def path_abspath(ev, args, kwargs, node):
    USED.add("A-path-1")
    return VStr(ufunc("abspath", S, S)(args[0].t))


def path_relpath(ev, args, kwargs, node):
    """os.path.relpath(p, d) for an absolute normalised d: it is '..' or starts with '../' exactly when p is neither d
    nor below d (A-path-2; validated by the bounded layer on a real tree)"""
    USED.add("A-path-2")
    p, d = args[0].t, args[1].t
    r = ufunc("relpath", S, S, S)(p, d)
    inside = z3.Or(p == d, z3.PrefixOf(z3.Concat(d, z3.StringVal("/")), p))
    outside_form = z3.Or(r == z3.StringVal(".."), z3.PrefixOf(z3.StringVal("../"), r))
    ev.st.assume(outside_form == z3.Not(inside))
    return VStr(r)


DEFS = {
    "inside(d, p)": "p == d or p.startswith(d + '/')",
    "resolved()": "abspath(path_join(self.directory, join_segments(path)))",
}
UF = {"abspath": ([Str], Str), "path_join": ([Str, Str], Str), "join_segments": ([Str], Str), "relpath": ([Str, Str], Str)}

ENSURE_ABS = Contract(
    id="ensure_absolute_path", file=SF, qualname="BaseFiles.ensure_absolute_path", props=["C07"],
    params={"self": ObjT(SF + ":BaseFiles", directory=Str), "path": Str}, returns=Opt(Str),
    requires=["self.directory != '' and not self.directory.endswith('/')"],
    defs=DEFS, ufuncs=UF, cls="BaseFiles",
    stubs={"os.path.join": path_join, "os.path.abspath": path_abspath, "os.path.relpath": path_relpath, "os.sep": None},
    consts={"os": VGlobal("os")},
    ensures={
        # nothing outside the configured directory is ever handed on
        "confined": "is_none(result) or inside(self.directory, result)",
        "is_the_lexical_resolution": "is_none(result) or result == resolved() + ('/' if path.endswith('/') else '')",
        "complete": "implies(inside(self.directory, resolved() + ('/' if path.endswith('/') else '')), not is_none(result))",
    },
    canaries={"always_rejects": "is_none(result)"},
    assumptions=["A-path-1", "A-path-2"],
)
ENSURE_ABS.stubs.pop("os.sep")


def os_stat(ev, args, kwargs, node):
    """os.stat: the entry's stat result, FileNotFoundError or NotADirectoryError (A-stat; other OSErrors are environment
    faults, not request content)"""
    USED.add("A-stat")
    st = ev.st
    k = st.choose([z3.BoolVal(True)] * 3, force_record=True)
    if k == 1:
        raise PyRaise("FileNotFoundError", None, getattr(node, "lineno", 0))
    if k == 2:
        raise PyRaise("NotADirectoryError", None, getattr(node, "lineno", 0))
    g = st.obj(st.ghost["fs"])
    g.fields["n_stat"] = VInt(g.fields["n_stat"].t + 1)
    g.fields["last"] = args[0]
    return st.alloc(Obj("stat_result", {"st_mode": st.fresh(Int, "st_mode")}))


os_stat.mods = ("fs",)


def s_isreg(ev, args, kwargs, node):
    return VBool(ufunc("S_ISREG", I, Bz)(args[0].t))


CHECK_FILE = Contract(
    id="check_path_is_file", file=SF, qualname="BaseFiles.check_path_is_file", props=["C07", "C12"],
    params={"self": ObjT(SF + ":BaseFiles", directory=Str), "path": Opt(Str)},
    ghosts={"fs": ObjT("FsGhost", n_stat=Int, last=Str)},
    requires=["fs.n_stat == 0"],
    ufuncs={"S_ISREG": ([Int], Bool)},
    stubs={"os.stat": os_stat, "stat.S_ISREG": s_isreg},
    ghost_modifies=["fs"],
    raises={},     # a missing entry or a path below a regular file is "not found", never an exception
    ensures={
        "none_is_not_a_file": "implies(is_none(path), is_none(result[0]) and not result[1] and fs.n_stat == 0)",
        "regular_iff_mode": "implies(not is_none(result[0]), result[1] == S_ISREG(result[0].st_mode) and fs.last == path)",
        "absent": "implies(is_none(result[0]), not result[1])",
    },
    canaries={"never_a_file": "not result[1]"},
    assumptions=["A-stat"],
)


def base_ensure(ev, args, kwargs, node):
    """super().ensure_absolute_path(path): the contract of BaseFiles.ensure_absolute_path"""
    from pyvc.contract import apply_contract
    return apply_contract(ev, ENSURE_ABS, [ev.frame.lookup("self")] + args, kwargs, node)


def pages_ensure(file_, iface):
    return Contract(
        id=iface + ".Pages.ensure_absolute_path", file=file_, qualname="Pages.ensure_absolute_path", props=["C07"],
        params={"self": ObjT(file_ + ":Pages", directory=Str), "path": Str}, returns=Opt(Str),
        requires=["self.directory != '' and not self.directory.endswith('/')"],
        defs=DEFS, ufuncs=UF,
        stubs={"super().ensure_absolute_path": base_ensure},
        ensures={
            "confined": "is_none(result) or inside(self.directory, result)",
            "index_for_directory_urls": "implies(not is_none(result) and path.endswith('/'), result == resolved() + '/index.html')",
            "plain_otherwise": "implies(not is_none(result) and not path.endswith('/') and not resolved().endswith('/'), result == resolved())",
        },
        canaries={"always_rejects": "is_none(result)"},
        assumptions=["A-path-1", "A-path-2"],
    )


def register(reg):
    for c in (ENSURE_ABS, CHECK_FILE, pages_ensure(WS, "wsgi"), pages_ensure(AS, "asgi")):
        reg.add(c)
