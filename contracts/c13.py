"""C13 / C16 -- cookies: the escape table (finite, exhaustive), Cookie._quote, Cookie.__str__."""
import importlib
import sys

import z3

from pyvc import source
from pyvc.contract import Contract
from pyvc.stubs import USED
from pyvc.values import *  # noqa
from pyvc.builtins import ufunc, S, I, Bz
from pyvc.engine import Unsupported

D = "baize/datastructures.py"
CK = D + ":Cookie"


def _module():
    """the real module, imported from the tree under verification (pure stdlib imports)"""
    if source.REPO not in sys.path:
        sys.path.insert(0, source.REPO)
    for k in [k for k in sys.modules if k == "baize" or k.startswith("baize.")]:
        del sys.modules[k]
    return importlib.import_module("baize.datastructures")


def table_facts():
    m = _module()
    T, legal = m._cookie_translator, m._cookie_legal_chars
    bad = []
    unescaped = set()
    for c in range(256):
        img = T.get(c, chr(c))
        if not isinstance(img, str):
            bad.append((c, "image is not a string"))
            continue
        if any(ch in img for ch in "\r\n\0;,") or any(ord(ch) > 127 for ch in img):
            bad.append((c, "image %r contains CR/LF/NUL/';'/',' or non-ASCII" % img))
        if img == chr(c):
            unescaped.add(c)
            if c < 0x20 or c > 0x7e or chr(c) in '"\;,':
                bad.append((c, "left unescaped"))
        elif not (img == "\\%03o" % c or (chr(c) == '"' and img == '\\"') or (chr(c) == "\\" and img == "\\\\")):
            bad.append((c, "image %r is not the octal / backslash escape http.cookies._unquote inverts" % img))
    for ch in legal:
        if ord(ch) > 127 or ch in ' ";,\\\r\n\0=' or ord(ch) < 0x21:
            bad.append((ord(ch), "legal (unquoted) character %r is not a token character" % ch))
    return bad, legal


def lemma_table(ev):
    bad, legal = table_facts()
    lemma_table.details = bad[:5]
    return z3.BoolVal(not bad)


lemma_table.note = ("for every code point 0..255 the real _cookie_translator maps it to ASCII text without CR, LF, NUL, ';' or ',' "
                    "that is either the character itself (printable, not quote/backslash/;/,) or its \\ooo / \\\" / \\\\ escape; "
                    "every character of _cookie_legal_chars is a token character (exhaustive: 256 ground facts)")

COOKIE_TABLE = Contract(
    id="cookie.table", file=D, qualname="Cookie", props=["C13", "C16"], bodyless=True, lemmas={"escape_table": lemma_table},
    notes="finite part: the table constants are evaluated from the real module and checked for all 256 code points",
)


def legal_re():
    _, legal = table_facts()
    return z3.Plus(z3.Union(*[z3.Re(c) for c in legal]))


def is_legal_key_stub(ev, args, kwargs, node):
    """_cookie_is_legal_key = re.compile('[<legal>]+').fullmatch (A-re-2): truthy iff value is a non-empty run of
    legal characters (the class is read from the real module)"""
    USED.add("A-re-2")
    v = args[0]
    ok = z3.InRe(v.t, legal_re())
    if ev.pure:
        raise Unsupported("fullmatch in pure context")
    if ev.st.decide(ok):
        return ev.st.alloc(Obj("Match", {}))
    return NONE


def translate_stub(ev, args, kwargs, node):
    return _translate(ev, ev.frame.lookup("value"))


def _translate(ev, recv):
    """str.translate(_cookie_translator) (A-translate: character-wise homomorphism).  Consequences of the table lemma:
    the image is free of CR, LF, NUL, ';', ',' unless the source has such a character >= 256 (none of these are)."""
    USED.add("A-translate")
    r = ufunc("cookie_escape", S, S)(recv.t)
    for ch in ("\r", "\n", "\0", ";", ","):
        ev.st.assume(z3.Not(z3.Contains(r, z3.StringVal(ch))))
    return VStr(r)


QUOTE_DEFS = {
    "clean(s)": "not has(s, '\\n') and not has(s, '\\r') and not has(s, '\\0') and not has(s, ';')",
}

COOKIE_SELF = ObjT(CK, name=Str, value=Str, expires=Opt(Opaque("Datetime")), domain=Opt(Str), path=Opt(Str), httponly=Bool,
                   secure=Bool, max_age=Int, samesite=Str)

QUOTE = Contract(
    id="Cookie._quote", file=D, qualname="Cookie._quote", props=["C13", "C16"],
    params={"self": COOKIE_SELF, "value": Str}, returns=lambda ev, env: quote_returns(ev, env),
    defs=QUOTE_DEFS, ufuncs={"cookie_escape": ([Str], Str)},
    stubs={"_cookie_is_legal_key": is_legal_key_stub, "value.translate": translate_stub},
    ensures={
        "clean": "clean(result)",
        "shape": "result == value or result == '\"' + cookie_escape(value) + '\"'",
        "no_comma": "not has(result, ',')",
    },
    canaries={"identity": "result == value"},
    assumptions=["A-re-2", "A-translate"],
)

STR_DEFS = dict(QUOTE_DEFS)
STR_DEFS.update({
    "q(s)": "cookie_quote(s)",
    "pair()": "cookie_quote(self.name) + '=' + cookie_quote(self.value)",
})


def quote_returns(ev, env):
    return VStr(ufunc("cookie_quote", S, S)(env["value"].t))


QUOTE_AT_CALL = None


def strftime_stub(ev, recv, args, kwargs, node):
    USED.add("A-time-1")
    r = ufunc("strftime_gmt", opaque_sort("Datetime"), S)(recv.t)
    for ch in ("\r", "\n", "\0", ";"):
        ev.st.assume(z3.Not(z3.Contains(r, z3.StringVal(ch))))
    return VStr(r)


STR = Contract(
    id="Cookie.__str__", file=D, qualname="Cookie.__str__", props=["C13", "C16"],
    params={"self": COOKIE_SELF}, returns=Str,
    requires=["implies(not is_none(self.domain), clean(self.domain))", "implies(not is_none(self.path), clean(self.path))",
              "clean(self.samesite)"],
    defs=STR_DEFS, ufuncs={"cookie_quote": ([Str], Str), "cookie_escape": ([Str], Str)},
    ensures={
        "clean": "not has(result, '\\n') and not has(result, '\\r') and not has(result, '\\0')",
        "pair_first": "result.startswith(pair())",
        # the name=value pair cannot introduce an attribute: it contains no ';' and whatever follows it starts with '; '
        "pair_closed": "not has(pair(), ';') and (result == pair() or result[len(pair()):].startswith('; '))",
        "max_age": "implies(self.max_age > -1, has(result, '; max-age=' + str(self.max_age)))",
        "samesite_last": "result.endswith('; samesite=' + self.samesite)",
    },
    canaries={"no_attributes": "result == pair()"},
    assumptions=["A-time-1"],
)


def register(reg):
    for c in (COOKIE_TABLE, QUOTE, STR):
        reg.add(c)
    reg._opaque_method[("Datetime", "strftime")] = strftime_stub
    reg.opaque_truth["Datetime"] = lambda ev, v: z3.BoolVal(True)
