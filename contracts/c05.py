"""C05 / C13 / C20 building blocks: Headers.__init__, BaseResponse.__init__, Response.__call__ (both interfaces)."""
import z3

from pyvc.contract import Contract
from pyvc.stubs import USED
from pyvc.values import *  # noqa
from contracts.hdrs import MH_T, MH, HD, DEFS as HDEFS0
from contracts import c02

D = "baize/datastructures.py"
R = "baize/responses.py"
W = "baize/wsgi/responses.py"
A = "baize/asgi/responses.py"

PAIRS = List(Tup(Str, Str))
HDEFS = dict(HDEFS0)
HDEFS.update({
    "unique_at(i)": "forall(j, 0, len(headers), implies(j != i, lower(headers[j][0]) != lower(headers[i][0])))",
})

HEADERS_INIT = Contract(
    id="Headers.__init__", file=D, qualname="Headers.__init__", props=["C13", "C20", "C05"],
    params={"self": ObjT(HD), "headers": Opt(PAIRS)},
    defs=HDEFS,
    locals={"store": Map(Str, Str)},
    init_fields={"_dict": Map(Str, Str)},
    ensures={
        "empty": "implies(is_none(headers), forall((k, Str), not has(self._dict, k)))",
        "keys": "implies(not is_none(headers), forall((k, Str), has(self._dict, k) == "
                "exists(i, 0, len(headers), lower(headers[i][0]) == k)))",
        # a header name that occurs once keeps its value (names that occur several times are folded with ', ')
        "single": "implies(not is_none(headers), forall(i, 0, len(headers), implies(unique_at(i), "
                  "self._dict[lower(headers[i][0])] == headers[i][1])))",
        "LOWER": "LOWER(self._dict)",
    },
    invariants={1: [
        "forall((k, Str), has(store, k) == exists(i, 0, IDX, lower(SEQ[i][0]) == k))",
        "forall(i, 0, IDX, implies(forall(j, 0, IDX, implies(j != i, lower(SEQ[j][0]) != lower(SEQ[i][0]))), "
        "store[lower(SEQ[i][0])] == SEQ[i][1]))",
        "LOWER(store)",
    ]},
    frame_check=False,
    assumptions=["A-lower"],
    notes="constructor given a pair list or None (the Mapping branch goes through .items() of a concrete dict at call sites)",
)

BASE_INIT = Contract(
    id="BaseResponse.__init__", file=R, qualname="BaseResponse.__init__", props=["C05"],
    params={"self": ObjT(R + ":BaseResponse"), "status_code": Int, "headers": Opt(PAIRS)},
    inline=True, notes="3-line constructor, executed inline (MutableHeaders(headers) goes through Headers.__init__'s contract)",
)

RESP_PARAMS_A = {"self": ObjT(A + ":Response", headers=MH_T, cookies=List(Opaque("Cookie")), status_code=Int),
                 "scope": Opaque("Scope"), "receive": Opaque("Receive"), "send": TFunc(c02.send_stub, "send")}

A_RESPONSE_CALL = Contract(
    id="asgi.Response.__call__", file=A, qualname="Response.__call__", props=["C05", "C09", "C08"],
    params=RESP_PARAMS_A, ghosts={"tr": c02.TR_T, "out": c02.OUT_T},
    requires=["tr.n_start == 0", "out.n_body == 0", "not out.closed", "out.out_len == 0"],
    defs=c02.A_DEFS, ufuncs=c02.HUF,
    modifies=["self.headers._dict"], ghost_modifies=["tr", "out"],
    setup=lambda ev: c02.ghost_init(ev, phase=VInt(0), n_parts=VInt(0)),
    ensures={"start.once": "tr.n_start == 1", "status": "tr.code == self.status_code",
             "one_final_body": "out.n_body == 1 and out.closed and out.out_len == 0",
             "content-length": "hdr_is('content-length', '0')"},
    assumptions=["A-server", "A-list-headers"],
)
A_RESPONSE_CALL.emit_mode = "multipart"   # an empty body chunk in phase 0 is the HEAD-style single empty event

RESP_PARAMS_W = {"self": ObjT(W + ":Response", headers=MH_T, cookies=List(Opaque("Cookie")), status_code=Int),
                 "environ": Opaque("Environ"), "start_response": TFunc(c02.start_response_stub, "start_response")}

W_RESPONSE_CALL = Contract(
    id="wsgi.Response.__call__", file=W, qualname="Response.__call__", props=["C05", "C09", "C08"],
    params=RESP_PARAMS_W, ghosts={"tr": c02.TR_T, "out": c02.OUT_T},
    requires=["tr.n_start == 0", "out.n_yield == 0", "out.out_len == 0"],
    defs=c02.HDEFS, ufuncs=c02.HUF, consts=c02.wsgi_consts(),
    returns=Tup(Bytes),
    modifies=["self.headers._dict"], ghost_modifies=["tr"],
    ensures={"start.once": "tr.n_start == 1", "status": "tr.status == status_line(self.status_code)",
             "body": "result[0] == b''", "content-length": "hdr_is('content-length', '0')"},
    assumptions=["A-server", "A-list-headers", "A-status-table"],
)


def register(reg):
    for c in (HEADERS_INIT, BASE_INIT, A_RESPONSE_CALL, W_RESPONSE_CALL):
        reg.add(c)
    reg._opaque_index["StatusMap"] = c02.status_index
