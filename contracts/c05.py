"""C05 / C13 / C20 building blocks: Headers.__init__, BaseResponse.__init__, Response.__call__ (both interfaces)."""
import z3

from pyvc.contract import Contract
from pyvc.stubs import USED
from pyvc.values import *  # noqa
from contracts.hdrs import MH_T, MH, HD, DEFS as HDEFS0
from contracts import c02

D = "baize/datastructures.py"
R = "baize/responses.py"
W = "baize/wsgi/responses.py"
A = "baize/asgi/responses.py"

PAIRS = List(Tup(Str, Str))
HDEFS = dict(HDEFS0)
HDEFS.update({
    "unique_at(i)": "forall(j, 0, len(headers), implies(j != i, lower(headers[j][0]) != lower(headers[i][0])))",
})

HEADERS_INIT = Contract(
    id="Headers.__init__", file=D, qualname="Headers.__init__", props=["C13", "C20", "C05"],
    params={"self": ObjT(HD), "headers": Opt(PAIRS)},
    defs=HDEFS,
    locals={"store": Map(Str, Str)},
    init_fields={"_dict": Map(Str, Str)},
    ensures={
        "empty": "implies(is_none(headers), forall((k, Str), not has(self._dict, k)))",
        "keys": "implies(not is_none(headers), forall((k, Str), has(self._dict, k) == "
                "exists(i, 0, len(headers), lower(headers[i][0]) == k)))",
        # a header name that occurs once keeps its value (names that occur several times are folded with ', ')
        "single": "implies(not is_none(headers), forall(i, 0, len(headers), implies(unique_at(i), "
                  "self._dict[lower(headers[i][0])] == headers[i][1])))",
        "LOWER": "LOWER(self._dict)",
        # names and values without CR / LF / NUL give a mapping without them (also where values are folded)
        "clean_in_clean_out": "implies(not is_none(headers) and forall(i, 0, len(headers), not unclean(headers[i][0]) and not unclean(headers[i][1])), "
                              "CLEAN(self._dict))",
    },
    aux_ensures=("clean_in_clean_out",), aux_invariants={1: (1,)}, char_hints=("\n", "\r", "\0"),
    invariants={1: [
        "implies(forall(i, 0, IDX, not unclean(SEQ[i][0]) and not unclean(SEQ[i][1])), CLEAN(store))",
        "forall((k, Str), has(store, k) == exists(i, 0, IDX, lower(SEQ[i][0]) == k))",
        "forall(i, 0, IDX, implies(forall(j, 0, IDX, implies(j != i, lower(SEQ[j][0]) != lower(SEQ[i][0]))), "
        "store[lower(SEQ[i][0])] == SEQ[i][1]))",
        "LOWER(store)",
    ]},
    frame_check=False,
    assumptions=["A-lower"],
    notes="constructor given a pair list or None (the Mapping branch goes through .items() of a concrete dict at call sites)",
)

def headers_items(ev, recv, args, kwargs, node):
    """Mapping.items() of a Headers object (collections.abc mixin over __iter__ / __getitem__): exactly one pair
    (k, self[k]) per stored key (A-abc-1)"""
    from pyvc.builtins import mk_quant, ufunc, S, I
    USED.add("A-abc-1")
    st = ev.st
    m = st.obj(st.obj(recv).fields["_dict"])
    lo = st.fresh_listobj(Tup(Str, Str), "items")
    n = lo.length
    st.assume(n >= 0)
    i, j = z3.Int(st.run.fresh_name("it_i")), z3.Int(st.run.fresh_name("it_j"))
    kc, vc = lo.cols
    st.assume(mk_quant("forall", [i], z3.Implies(z3.And(0 <= i, i < n), z3.And(m.has[kc[i]], vc[i] == m.val[0][kc[i]])),
                       patterns=[kc[i]]))
    st.assume(mk_quant("forall", [i, j], z3.Implies(z3.And(0 <= i, i < j, j < n), kc[i] != kc[j]), patterns=[z3.MultiPattern(kc[i], kc[j])]))
    pos = z3.Function(st.run.fresh_name("items.pos"), S, I)
    k = z3.String(st.run.fresh_name("it_k"))
    st.assume(mk_quant("forall", [k], z3.Implies(m.has[k], z3.And(0 <= pos(k), pos(k) < n, kc[pos(k)] == k)), patterns=[m.has[k]]))
    return st.alloc(lo)


headers_items.mods = ()
headers_items.mutates_recv = False

HEADERS_INIT_MAP = Contract(
    id="Headers.__init__[mapping]", file=D, qualname="Headers.__init__", props=["C20", "C05"],
    params={"self": ObjT(HD), "headers": ObjT(HD, _dict=Map(Str, Str))},
    applies=lambda ev, args, kwargs: len(args) > 1 and isinstance(args[1], VRef) and isinstance(ev.st.obj(args[1]), Obj),
    defs=HDEFS, requires=["LOWER(headers._dict)"],
    locals={"store": Map(Str, Str)}, init_fields={"_dict": Map(Str, Str)},
    stub_methods={(HD, "items"): headers_items, (MH, "items"): headers_items},
    ensures={
        # constructing a header mapping from another one copies it: same names, same values
        "copy.keys": "forall((k, Str), has(self._dict, k) == has(headers._dict, k))",
        "copy.values": "forall((k, Str), implies(has(headers._dict, k), self._dict[k] == headers._dict[k]))",
        "LOWER": "LOWER(self._dict)",
    },
    invariants=HEADERS_INIT.invariants, aux_invariants=HEADERS_INIT.aux_invariants, char_hints=HEADERS_INIT.char_hints,
    frame_check=False, assumptions=["A-lower", "A-abc-1"],
    notes="constructor given another Headers object (typing.Mapping branch): .items() is the collections.abc mixin",
)

# ----- MutableHeaders.__init__: the constructor validates what it stores (since fix: constructor-supplied headers)
def dict_items_stub(ev, args, kwargs, node):
    """self._dict.items(): one (k, d[k]) pair per key of the dict (A-dict-1)"""
    from pyvc.builtins import mk_quant, S, I
    USED.add("A-dict-1")
    st = ev.st
    m = st.obj(st.obj(ev.frame.lookup("self")).fields["_dict"])
    lo = st.fresh_listobj(Tup(Str, Str), "ditems")
    n = lo.length
    st.assume(n >= 0)
    kc, vc = lo.cols
    i = z3.Int(st.run.fresh_name("di_i"))
    st.assume(mk_quant("forall", [i], z3.Implies(z3.And(0 <= i, i < n), z3.And(m.has[kc[i]], vc[i] == m.val[0][kc[i]])),
                       patterns=[kc[i]]))
    pos = z3.Function(st.run.fresh_name("ditems.pos"), S, I)
    k = z3.String(st.run.fresh_name("di_k"))
    st.assume(mk_quant("forall", [k], z3.Implies(m.has[k], z3.And(0 <= pos(k), pos(k) < n, kc[pos(k)] == k)), patterns=[m.has[k]]))
    return st.alloc(lo)


def _super_init(ev, args, kwargs, node):
    """super().__init__(headers): Headers.__init__ through its contracts (pair list / None, or another header mapping)"""
    from pyvc.contract import apply_contract
    a = [ev.frame.lookup("self")] + list(args)
    c = HEADERS_INIT_MAP if HEADERS_INIT_MAP.applies(ev, a, kwargs) else HEADERS_INIT
    return apply_contract(ev, c, a, kwargs, node)


def _mh_init(kind):
    base = HEADERS_INIT if kind == "pairs" else HEADERS_INIT_MAP
    params = {"self": ObjT(MH), "headers": Opt(PAIRS)} if kind == "pairs" else {"self": ObjT(MH), "headers": ObjT(HD, _dict=Map(Str, Str))}
    return Contract(
        id="MutableHeaders.__init__[%s]" % kind, file=D, qualname="MutableHeaders.__init__", props=["C05", "C13", "C20"],
        params=params, defs=HDEFS, requires=list(base.requires),
        applies=(lambda ev, args, kwargs: not HEADERS_INIT_MAP.applies(ev, args, kwargs)) if kind == "pairs" else HEADERS_INIT_MAP.applies,
        init_fields={"_dict": Map(Str, Str)},
        stubs={"super().__init__": _super_init, "self._dict.items": dict_items_stub},
        # only when a given name or value holds CR / LF / NUL (callers that pass clean pairs never see it)
        raises={"ValueError": "not is_none(headers) and exists(i, 0, len(headers), unclean(headers[i][0]) or unclean(headers[i][1]))"
                if kind == "pairs" else "not CLEAN(headers._dict)"},
        ensures=dict(base.ensures, **{
            # whatever the constructor is given: a response's header mapping never holds CR, LF or NUL
            "clean": "CLEAN(self._dict)",
        }),
        invariants={1: ["forall(i, 0, IDX, not unclean(SEQ[i][0]) and not unclean(SEQ[i][1]))"]},
        frame_check=False, assumptions=["A-lower", "A-dict-1"],
        notes="constructor of the response header mapping: Headers.__init__ through its contract, then every stored name and "
              "value is checked like in __setitem__ (raises ValueError otherwise)",
    )


MH_INIT_PAIRS = _mh_init("pairs")
MH_INIT_MAP = _mh_init("mapping")

BASE_INIT = Contract(
    id="BaseResponse.__init__", file=R, qualname="BaseResponse.__init__", props=["C05"],
    params={"self": ObjT(R + ":BaseResponse"), "status_code": Int, "headers": Opt(PAIRS)},
    inline=True, notes="3-line constructor, executed inline (MutableHeaders(headers) goes through Headers.__init__'s contract)",
)

RESP_PARAMS_A = {"self": ObjT(A + ":Response", headers=MH_T, cookies=List(Opaque("Cookie")), status_code=Int),
                 "scope": Opaque("Scope"), "receive": Opaque("Receive"), "send": TFunc(c02.send_stub, "send")}

A_RESPONSE_CALL = Contract(
    id="asgi.Response.__call__", file=A, qualname="Response.__call__", props=["C05", "C09", "C08"],
    params=RESP_PARAMS_A, ghosts={"tr": c02.TR_T, "out": c02.OUT_T},
    requires=["tr.n_start == 0", "out.n_body == 0", "not out.closed", "out.out_len == 0"],
    defs=c02.A_DEFS, ufuncs=c02.HUF,
    modifies=["self.headers._dict"], ghost_modifies=["tr", "out"],
    setup=lambda ev: c02.ghost_init(ev, phase=VInt(0), n_parts=VInt(0)),
    ensures={"start.once": "tr.n_start == 1", "status": "tr.code == self.status_code",
             "one_final_body": "out.n_body == 1 and out.closed and out.out_len == 0",
             "content-length": "hdr_is('content-length', '0')"},
    assumptions=["A-server", "A-list-headers"],
)
A_RESPONSE_CALL.emit_mode = "multipart"   # an empty body chunk in phase 0 is the HEAD-style single empty event

RESP_PARAMS_W = {"self": ObjT(W + ":Response", headers=MH_T, cookies=List(Opaque("Cookie")), status_code=Int),
                 "environ": Opaque("Environ"), "start_response": TFunc(c02.start_response_stub, "start_response")}

W_RESPONSE_CALL = Contract(
    id="wsgi.Response.__call__", file=W, qualname="Response.__call__", props=["C05", "C09", "C08"],
    params=RESP_PARAMS_W, ghosts={"tr": c02.TR_T, "out": c02.OUT_T},
    requires=["tr.n_start == 0", "out.n_yield == 0", "out.out_len == 0"],
    defs=c02.HDEFS, ufuncs=c02.HUF, consts=c02.wsgi_consts(),
    returns=Tup(Bytes),
    modifies=["self.headers._dict"], ghost_modifies=["tr"],
    ensures={"start.once": "tr.n_start == 1", "status": "tr.status == status_line(self.status_code)",
             "body": "result[0] == b''", "content-length": "hdr_is('content-length', '0')"},
    assumptions=["A-server", "A-list-headers", "A-status-table"],
)


def register(reg):
    for c in (HEADERS_INIT, HEADERS_INIT_MAP, MH_INIT_PAIRS, MH_INIT_MAP, BASE_INIT, A_RESPONSE_CALL, W_RESPONSE_CALL):
        reg.add(c)
    reg._opaque_index["StatusMap"] = c02.status_index
    register2(reg)
    register3(reg)


# =========================================================================== SmallResponse / Redirect (both interfaces)
def render_stub(ev, args, kwargs, node):
    """self.render(content): the subclass hook; returns bytes (checked for the three bundled subclasses separately)"""
    return ev.st.ghost["body"]


render_stub.mods = ()


def small_self(cls):
    return ObjT(cls, headers=MH_T, cookies=List(Opaque("Cookie")), status_code=Int, content=Opaque("Content"),
                media_type=Str, charset=Str)


SMALL_DEFS = dict(c02.HDEFS)
SMALL_DEFS.update({
    "ct_value()": "self.media_type + '; charset=' + self.charset if self.media_type.startswith('text/') else self.media_type",
    "sets_cl()": "body != b'' and not has(old(self.headers._dict), 'content-length')",
    "sets_ct()": "self.media_type != '' and not has(old(self.headers._dict), 'content-type')",
})

W_SMALL_CALL = Contract(
    id="wsgi.SmallResponse.__call__", file=W, qualname="SmallResponse.__call__", props=["C05"], generator=True,
    params={"self": small_self(W + ":SmallResponse"), "environ": Opaque("Environ"),
            "start_response": TFunc(c02.start_response_stub, "start_response")},
    ghosts={"tr": c02.TR_T, "out": c02.OUT_T, "body": Bytes},
    requires=["tr.n_start == 0", "out.n_yield == 0", "out.out_len == 0"],
    defs=SMALL_DEFS, ufuncs=c02.HUF, consts=c02.wsgi_consts(),
    stubs={"self.render": render_stub},
    on_yield=c02.call_yield, yield_mods=("out",),
    modifies=["self.headers._dict"], ghost_modifies=["tr", "out"],
    raises={"ValueError": "sets_ct() and unclean(ct_value())"},
    raises_ensures={"ValueError": {"ensures": ["tr.n_start == 0 and out.n_yield == 0"]}},
    ensures={
        "start.once": "tr.n_start == 1", "status": "tr.status == status_line(self.status_code)",
        "one_chunk": "out.n_yield == 1 and out.out_len == len(body)",
        "content-length": "implies(sets_cl(), hdr_is('content-length', str(len(body))))",
        "content-type": "implies(sets_ct(), hdr_is('content-type', ct_value()))",
        "others": "forall((k, Str), implies(k != 'content-length' and k != 'content-type', "
                  "hl_has(tr.hl, k) == has(old(self.headers._dict), k) and "
                  "implies(hl_has(tr.hl, k), hl_get(tr.hl, k) == old(self.headers._dict)[k])))",
    },
    canaries={"never_sets_length": "not hl_has(tr.hl, 'content-length')"},
    assumptions=["A-server", "A-list-headers", "A-status-table"],
)

A_SMALL_CALL = Contract(
    id="asgi.SmallResponse.__call__", file=A, qualname="SmallResponse.__call__", props=["C05"],
    params={"self": small_self(A + ":SmallResponse"), "scope": Opaque("Scope"), "receive": Opaque("Receive"),
            "send": TFunc(c02.send_stub, "send")},
    ghosts={"tr": c02.TR_T, "out": c02.OUT_T, "body": Bytes},
    requires=["tr.n_start == 0", "out.n_body == 0", "out.out_len == 0", "not out.closed"],
    setup=lambda ev: c02.ghost_init(ev, phase=VInt(4)),
    defs=SMALL_DEFS, ufuncs=c02.HUF,
    stubs={"self.render": render_stub},
    modifies=["self.headers._dict"], ghost_modifies=["tr", "out"],
    raises={"ValueError": "sets_ct() and unclean(ct_value())"},
    raises_ensures={"ValueError": {"ensures": ["tr.n_start == 0 and out.n_body == 0"]}},
    ensures={
        "start.once": "tr.n_start == 1", "status": "tr.code == self.status_code",
        "one_final_body": "out.n_body == 1 and out.closed and out.out_len == len(body)",
        "content-length": "implies(sets_cl(), hdr_is('content-length', str(len(body))))",
        "content-type": "implies(sets_ct(), hdr_is('content-type', ct_value()))",
    },
    canaries={"never_sets_length": "not hl_has(tr.hl, 'content-length')"},
    assumptions=["A-server", "A-list-headers"],
)


def iri_stub(ev, args, kwargs, node):
    """iri_to_uri(s) = quote(s, safe=...) (A-quote-1): only unreserved, the safe set and %HH: no CR, LF, NUL"""
    USED.add("A-quote-1")
    from pyvc.builtins import ufunc, S
    r = ufunc("iri_to_uri", S, S)(args[0].t)
    for ch in ("\n", "\r", "\0"):
        ev.st.assume(z3.Not(z3.Contains(r, z3.StringVal(ch))))
    return VStr(r)


def redirect(file_, iface):
    return Contract(
        id=iface + ".RedirectResponse.__init__", file=file_, qualname="RedirectResponse.__init__", props=["C13", "C05"],
        params={"self": ObjT(file_ + ":RedirectResponse"), "url": Str, "status_code": Int, "headers": Opt(PAIRS)},
        defs=HDEFS, stubs={"iri_to_uri": iri_stub}, ufuncs={"iri_to_uri": ([Str], Str)},
        frame_check=False,
        # the escaped target can never be rejected by the header mapping (escaping, not an error): only the caller's own
        # extra headers can be, when they hold CR / LF / NUL
        raises={"ValueError": "not is_none(headers) and exists(i, 0, len(headers), unclean(headers[i][0]) or unclean(headers[i][1]))"},
        ensures={"location": "has(self.headers._dict, 'location') and self.headers._dict['location'] == iri_to_uri(url)",
                 "location.clean": "not unclean(self.headers._dict['location'])",
                 "status": "self.status_code == status_code"},
        assumptions=["A-quote-1"],
    )


W_REDIRECT = redirect(W, "wsgi")
A_REDIRECT = redirect(A, "asgi")


def register2(reg):
    for c in (W_SMALL_CALL, A_SMALL_CALL, W_REDIRECT, A_REDIRECT):
        reg.add(c)


# =========================================================================== StreamingResponse.__call__
def ensure_future_stub(ev, args, kwargs, node):
    USED.add("A-conc-1")
    return ev.st.alloc(Obj("Future", {}))


def future_cancel(ev, recv, args, kwargs, node):
    return VBool(True)


future_cancel.mods = ()
future_cancel.mutates_recv = False


def wait_close_stub(ev, args, kwargs, node):
    """self.wait_close(receive): the watcher coroutine; it only ever sets self._client_closed (modelled as volatile)"""
    return ev.st.alloc(Obj("Coroutine", {}))


def render_stream_stub(ev, args, kwargs, node):
    return ev.st.alloc(Obj("AGen", {"closed": VBool(False), "n_sent": VInt(0)}))


def agen_asend(ev, recv, args, kwargs, node):
    """the body producer: yields bytes, ends (StopAsyncIteration) or raises its own exception at any point"""
    st = ev.st
    g = st.obj(recv)
    k = st.choose([z3.BoolVal(True), z3.BoolVal(True), z3.BoolVal(True)], force_record=True)
    if k == 1:
        from pyvc.engine import PyRaise
        raise PyRaise("StopAsyncIteration", None, getattr(node, "lineno", 0))
    if k == 2:
        from pyvc.engine import PyRaise
        raise PyRaise("ProducerError", None, getattr(node, "lineno", 0))
    g.fields["n_sent"] = VInt(g.fields["n_sent"].t + 1)
    return st.fresh(Bytes, "produced")


agen_asend.mods = ()


def agen_aclose(ev, recv, args, kwargs, node):
    g = ev.st.obj(recv)
    c = ev.frame.outermost().contract
    g.fields["closed"] = VBool(True)
    gh = ev.st.obj(ev.st.ghost["gen"])
    gh.fields["n_close"] = VInt(gh.fields["n_close"].t + 1)
    return NONE


agen_aclose.mods = ("gen",)

A_STREAMING_CALL = Contract(
    id="asgi.StreamingResponse.__call__", file=A, qualname="StreamingResponse.__call__", props=["C05"],
    params={"self": ObjT(A + ":StreamingResponse", headers=MH_T, cookies=List(Opaque("Cookie")), status_code=Int,
                         _client_closed=Bool, iterable=Opaque("AsyncIterable")),
            "scope": Opaque("Scope"), "receive": Opaque("Receive"), "send": TFunc(c02.send_stub, "send")},
    ghosts={"tr": c02.TR_T, "out": c02.OUT_T, "gen": ObjT("GenGhost", n_close=Int)},
    requires=["tr.n_start == 0", "out.n_body == 0", "out.out_len == 0", "not out.closed", "gen.n_close == 0"],
    setup=lambda ev: c02.ghost_init(ev, phase=VInt(4)),
    defs=c02.A_DEFS, ufuncs=c02.HUF,
    stubs={"asyncio.ensure_future": ensure_future_stub, "self.wait_close": wait_close_stub, "self.render_stream": render_stream_stub},
    stub_methods={("Future", "cancel"): future_cancel, ("AGen", "asend"): agen_asend, ("AGen", "aclose"): agen_aclose},
    volatile=["self._client_closed"],
    modifies=["self._client_closed"], ghost_modifies=["tr", "out", "gen"],
    raises={"ProducerError": "True"},
    raises_ensures={"ProducerError": {"ensures": [
        "tr.n_start == 1 and not out.closed",            # what was emitted is a legal prefix: start, body(more)*
        "gen.n_close == 1"]}},                           # the producer was closed exactly once
    ensures={"start.once": "tr.n_start == 1", "status": "tr.code == self.status_code",
             "final_body": "out.closed and out.n_body >= 1", "producer_closed_once": "gen.n_close == 1"},
    invariants={1: ["tr.n_start == 1", "not out.closed", "out.n_body >= 0", "gen.n_close == 0", "generator.closed == False"]},
    canaries={"never_streams": "out.n_body == 1"},
    assumptions=["A-server", "A-list-headers", "A-conc-1"],
    notes="the body producer is an abstract async generator (bytes | StopAsyncIteration | its own exception at any step); "
          "_client_closed is volatile (set by the watcher task at any await)",
)

BUILTIN_EXTRA_EXC = {"ProducerError": "Exception"}


def register3(reg):
    from pyvc import engine
    engine.BUILTIN_EXC.update(BUILTIN_EXTRA_EXC)
    reg.add(A_STREAMING_CALL)
