"""C18 -- URL reconstruction: URL._build_url (baize/datastructures.py)."""
import z3

from pyvc.contract import Contract
from pyvc.values import *  # noqa

D = "baize/datastructures.py"

DEFS = {
    "default_port(s)": "80 if (s == 'http' or s == 'ws') else 443",
    "known(s)": "s == 'http' or s == 'https' or s == 'ws' or s == 'wss'",
    "base()": "(scheme + '://' + host_header + path) if not is_none(host_header) else "
              "(path if is_none(server) else "
              "(scheme + '://' + server[0] + path if (is_none(server[1]) or server[1] == default_port(scheme)) else "
              "scheme + '://' + server[0] + ':' + str(server[1]) + path))",
}

BUILD_URL = Contract(
    id="URL._build_url", file=D, qualname="URL._build_url", props=["C18", "C12"],
    params={"self": ObjT(D + ":URL"), "scheme": Str, "path": Str, "query_string": Bytes,
            "server": Opt(Tup(Str, Opt(Int))), "host_header": Opt(Str)},
    returns=Str, defs=DEFS, ufuncs={"utf8_decode": ([Str], Str), "utf8_ok": ([Str], Bool)},
    raises={"KeyError": "is_none(host_header) and not is_none(server) and not known(scheme)",
            "UnicodeDecodeError": "query_string != b'' and not utf8_ok(query_string.decode('latin-1'))"},
    ensures={
        # Host header preferred over the server address; default ports elided; '?query' iff the query is non-empty
        "url": "result == (base() if query_string == b'' else base() + '?' + utf8_decode(query_string.decode('latin-1')))",
    },
    canaries={"never_query": "not has(result, '?')"},
    notes="utf8_decode / utf8_ok are uninterpreted (bytes.decode()); a non-UTF-8 query string raises UnicodeDecodeError: listed "
          "for C12 as a finding of the raw URL constructor (servers hand over ASCII query strings)",
)


def register(reg):
    reg.add(BUILD_URL)
