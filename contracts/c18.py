"""C18 -- URL reconstruction: URL._build_url (baize/datastructures.py)."""
import z3

from pyvc.contract import Contract
from pyvc.values import *  # noqa

D = "baize/datastructures.py"

DEFS = {
    "default_port(s)": "80 if (s == 'http' or s == 'ws') else 443",
    "known(s)": "s == 'http' or s == 'https' or s == 'ws' or s == 'wss'",
    # an IPv6 listening address is written in brackets
    "shost()": "('[' + server[0] + ']') if (has(server[0], ':') and not server[0].startswith('[')) else server[0]",
    "base()": "(scheme + '://' + host_header + path) if not is_none(host_header) else "
              "(path if is_none(server) else "
              "(scheme + '://' + shost() + path if (is_none(server[1]) or server[1] == default_port(scheme)) else "
              "scheme + '://' + shost() + ':' + str(server[1]) + path))",
}

BUILD_URL = Contract(
    id="URL._build_url", file=D, qualname="URL._build_url", props=["C18", "C12"],
    params={"self": ObjT(D + ":URL"), "scheme": Str, "path": Str, "query_string": Bytes,
            "server": Opt(Tup(Str, Opt(Int))), "host_header": Opt(Str)},
    returns=Str, defs=DEFS, ufuncs={"utf8_decode": ([Str], Str), "utf8_ok": ([Str], Bool)},
    raises={"KeyError": "is_none(host_header) and not is_none(server) and not known(scheme)",
            "UnicodeDecodeError": "query_string != b'' and not utf8_ok(query_string.decode('latin-1'))"},
    ensures={
        # Host header preferred over the server address; default ports elided; '?query' iff the query is non-empty
        "url": "result == (base() if query_string == b'' else base() + '?' + utf8_decode(query_string.decode('latin-1')))",
    },
    canaries={"never_query": "not has(result, '?')"},
    notes="utf8_decode / utf8_ok are uninterpreted (bytes.decode()); a non-UTF-8 query string raises UnicodeDecodeError: listed "
          "for C12 as a finding of the raw URL constructor (servers hand over ASCII query strings)",
)




# --------------------------------------------------------------------------- URL.replace
SPLIT_T = ObjT("SplitResult", scheme=Str, netloc=Str, path=Str, query=Str, fragment=Str,
               username=Opt(Str), password=Opt(Str), port=Opt(Int))
KW_T = Dict(username=Maybe_(Opt(Str)), password=Maybe_(Opt(Str)), hostname=Maybe_(Opt(Str)), port=Maybe_(Opt(Int)),
            scheme=Maybe_(Str), path=Maybe_(Str), query=Maybe_(Str), fragment=Maybe_(Str))
GETURL = z3.Function("geturl", *([z3.StringSort()] * 6))


def _replace_stub(ev, args, kwargs, node):
    """SplitResult._replace(**kw): a namedtuple copy with the given fields replaced (A-urlsplit-2); the derived attributes
    (username, password, port) of the copy are not used by URL.replace and are left unconstrained"""
    from pyvc.builtins import Maybe, ABSENT
    from pyvc.stubs import USED
    USED.add("A-urlsplit-2")
    st = ev.st
    src = st.obj(st.obj(ev.frame.lookup("self")).fields["_components"])
    new = {}
    for f in ("scheme", "netloc", "path", "query", "fragment"):
        old = src.fields[f]
        v = kwargs.get(f)
        if v is None or v is ABSENT:
            new[f] = old
        elif isinstance(v, Maybe):
            new[f] = VStr(z3.If(v.present, v.value.t, old.t))
        else:
            new[f] = v
    for k, v in kwargs.items():
        if k not in new and v is not ABSENT:
            # namedtuple._replace raises for unknown field names; URL.replace pops the four authority keys first
            if not isinstance(v, Maybe) or st.decide(v.present):
                ev.unsupported(node, "_replace(%s=...)" % k)
    return st.alloc(Obj("SplitResult", new))


def _geturl_stub(ev, args, kwargs, node):
    from pyvc.stubs import USED
    USED.add("A-urlsplit-2")
    o = ev.st.obj(ev.frame.lookup("components"))
    return VStr(GETURL(*[o.fields[f].t for f in ("scheme", "netloc", "path", "query", "fragment")]))


def _ctor_stub(ev, args, kwargs, node):
    """self.__class__(text): URL.__init__ parses the text with urlsplit, which rejects some authorities (unbalanced or
    misplaced brackets) with ValueError (A-urlsplit)"""
    from pyvc.engine import PyRaise
    if ev.st.choose([z3.BoolVal(True)] * 2, force_record=True) == 1:
        raise PyRaise("ValueError", None, getattr(node, "lineno", 0))
    return ev.st.alloc(Obj(D + ":URL", {"_url": args[0]}))


R_DEFS = {
    "changes_netloc()": "has(kwargs, 'username') or has(kwargs, 'password') or has(kwargs, 'hostname') or has(kwargs, 'port')",
    # the authority is [userinfo '@'] host [':' port]; userinfo ends at the LAST '@' (urlsplit's convention), an IP literal
    # ends with ']', otherwise the port separator is the last ':'
    "after_at(n)": "n[last_index_of(n, '@') + 1:] if has(n, '@') else n",
    "host_of(h)": "h if (h == '' or h[len(h) - 1] == ']' or not has(h, ':')) else h[:last_index_of(h, ':')]",
    # a given IPv6 address without brackets (as URL.hostname reports it) is written with them; without a given
    # hostname the old host is kept as it stands
    "given()": "kwargs['hostname']",
    "new_host()": "((('[' + given() + ']') if (has(given(), ':') and not given().startswith('[')) else given()) "
                  "if (has(kwargs, 'hostname') and not is_none(kwargs['hostname'])) "
                  "else host_of(after_at(self._components.netloc)))",
    "new_port()": "kwargs['port'] if has(kwargs, 'port') else self._components.port",
    "new_user()": "kwargs['username'] if has(kwargs, 'username') else self._components.username",
    "new_pass()": "kwargs['password'] if has(kwargs, 'password') else self._components.password",
    "hostport()": "new_host() if is_none(new_port()) else new_host() + ':' + str(new_port())",
    "userinfo()": "new_user() if is_none(new_pass()) else new_user() + ':' + new_pass()",
    "new_netloc()": "hostport() if is_none(new_user()) else userinfo() + '@' + hostport()",
    "pick(k, old)": "kwargs[k] if has(kwargs, k) else old",
    # what urlsplit derived from netloc (A-urlsplit: SplitResult.username / .password), as an input invariant
    "n()": "self._components.netloc",
    "li()": "last_index_of(self._components.netloc, '@')",
    "uinfo()": "self._components.netloc[:last_index_of(self._components.netloc, '@')]",
}

def _replace_m2i(m):
    """solver model -> a URL string and a set of changes for native.c18.check_replace.  The abstract SplitResult of the
    contract does not tie username/password/port to netloc; the replay rebuilds the URL from the five split fields, so a
    model that relies on an inconsistent SplitResult does not replay (reported as no-failing-input-found)."""
    def g(k, d=""):
        v = m.get(k, d)
        return d if v in (None, "<None>") else v
    scheme = g("self._components.scheme") or "http"
    if not scheme.isalpha() or not scheme.isascii():
        scheme = "http"
    path = g("self._components.path")
    if path and not path.startswith("/"):
        path = "/" + path
    url = "%s://%s%s" % (scheme, g("self._components.netloc"), path)
    if g("self._components.query"):
        url += "?" + g("self._components.query")
    if g("self._components.fragment"):
        url += "#" + g("self._components.fragment")
    changes = {}
    for k in ("username", "password", "hostname", "port", "scheme", "path", "query", "fragment"):
        if m.get("kwargs.has[%r]" % k):
            if m.get("kwargs[%r]?none" % k):
                changes[k] = None
            else:
                changes[k] = m.get("kwargs[%r]" % k, 0 if k == "port" else "")
    return {"kind": "replace", "url": url, "changes": changes}


URL_REPLACE = Contract(
    id="URL.replace", file=D, qualname="URL.replace", props=["C18"],
    params={"self": ObjT(D + ":URL", _components=SPLIT_T), "kwargs": KW_T},
    returns=ObjT(D + ":URL", _url=Str), defs=R_DEFS,
    ufuncs={"last_index_of": ([Str, Str], Int), "geturl": ([Str, Str, Str, Str, Str], Str)},
    stubs={"self.components._replace": _replace_stub, "components.geturl": _geturl_stub, "self.__class__": _ctor_stub},
    requires=[
        # last_index_of is the position of the last '@' (definition, instantiated for netloc)
        "implies(has(n(), '@'), 0 <= li() and li() < len(n()) and n()[li()] == '@' and not has(n()[li() + 1:], '@'))",
        # SplitResult invariant (A-urlsplit): user name and password are the two parts of the text before the last '@'
        "is_none(self._components.username) == (not has(n(), '@'))",
        "implies(is_none(self._components.username), is_none(self._components.password))",
        "implies(not is_none(self._components.username) and is_none(self._components.password), "
        "self._components.username == uinfo() and not has(uinfo(), ':'))",
        "implies(not is_none(self._components.username) and not is_none(self._components.password), "
        "uinfo() == self._components.username + ':' + self._components.password and not has(self._components.username, ':'))",
        "implies(not is_none(self._components.port), self._components.port >= 0)",
        # a port given by the caller is a port number
        "implies(has(kwargs, 'port') and not is_none(kwargs['port']), kwargs['port'] >= 0)",
    ],
    modifies=["kwargs"], frame_check=False, lazy_opt=True,
    # (an empty host is kept empty: no IndexError.)  ValueError: the re-assembled text is parsed again by URL.__init__, and
    # urlsplit rejects e.g. a '[' without ']' in the authority - callers that edit a client-supplied URL have to expect it
    raises={"ValueError": None},
    ensures={
        # every component that is not named keeps its value and every named one takes the given value: the new URL is
        # geturl() of the five split fields, where the authority is re-assembled from (user, password, host, port) with
        # exactly the named parts exchanged
        "url": "result._url == old(geturl(pick('scheme', self._components.scheme), "
               "new_netloc() if changes_netloc() else self._components.netloc, "
               "pick('path', self._components.path), pick('query', self._components.query), "
               "pick('fragment', self._components.fragment)))",
    },
    canaries={"netloc_never_changes": "result._url == old(geturl(pick('scheme', self._components.scheme), self._components.netloc, "
                                      "pick('path', self._components.path), pick('query', self._components.query), "
                                      "pick('fragment', self._components.fragment)))"},
    assumptions=["A-urlsplit-2"], model_to_inputs=_replace_m2i, native=("c18", "replay"),
    notes="SplitResult is abstract: five string fields plus the derived username / password / port that urlsplit computed "
          "from netloc (their relation to netloc is A-urlsplit, exercised by the bounded part); _replace and geturl are "
          "modelled as a field-wise copy and an uninterpreted function of the five fields",
)


# --------------------------------------------------------------------------- URL.__repr__ (password masked; never raises)
def _geturl_method(ev, recv, args, kwargs, node):
    from pyvc.stubs import USED
    USED.add("A-urlsplit-2")
    o = ev.st.obj(recv)
    return VStr(GETURL(*[o.fields[f].t for f in ("scheme", "netloc", "path", "query", "fragment")]))


_geturl_method.mods = ()
_geturl_method.mutates_recv = False

URL_STR = Contract(id="URL.__str__", file=D, qualname="URL.__str__", inline=True, props=["C18"], notes="one line, executed inline")
URL_REPR = Contract(
    id="URL.__repr__", file=D, qualname="URL.__repr__", props=["C12", "C18"],
    params={"self": ObjT(D + ":URL", _url=Str, _components=SPLIT_T)}, returns=Str,
    defs=dict(R_DEFS, **{"pw()": "self._components.password", "n()": "self._components.netloc",
                         "masked()": "not is_none(pw()) and pw() != ''"}),
    # the SplitResult invariant (A-urlsplit), as for URL.replace: user name / password are the parts of the text before the last '@'
    requires=list(URL_REPLACE.requires[:5]),
    ufuncs={"geturl": ([Str, Str, Str, Str, Str], Str), "repr_str": ([Str], Str), "last_index_of": ([Str, Str], Int)},
    stubs={"self.components._replace": _replace_stub},
    stub_methods={("SplitResult", "geturl"): _geturl_method},
    frame_check=False,
    # whatever the client put into the Host header: printing the URL (logging) cannot fail
    raises={},
    ensures={
        "plain": "implies(not masked(), result == 'URL(' + repr_str(self._url) + ')')",
        # the text between the first ':' of the user information and the last '@' is replaced by the mask; nothing is parsed again
        "masked": "implies(masked(), result == 'URL(' + repr_str(geturl(self._components.scheme, "
                  "n().rpartition('@')[0].partition(':')[0] + ':********@' + n().rpartition('@')[2], "
                  "self._components.path, self._components.query, self._components.fragment)) + ')')",
    },
    canaries={"never_masks": "not masked()"},
    assumptions=["A-urlsplit-2", "A-split"],
    notes="SplitResult abstract as in URL.replace; the class name in the output is the literal 'URL' (subclasses: bounded)",
)


# --------------------------------------------------------------------------- URL.__init__ from an ASGI scope / a WSGI environ
from pyvc.engine import PyRaise
from pyvc.stubs import USED


def urlsplit_stub(ev, args, kwargs, node):
    """urlsplit(url): a SplitResult, or ValueError (unbalanced brackets in the authority) - A-urlsplit"""
    USED.add("A-urlsplit")
    st = ev.st
    if st.choose([z3.BoolVal(True)] * 2, force_record=True) == 1:
        raise PyRaise("ValueError", None, getattr(node, "lineno", 0))
    return VOpaque(z3.Const(st.run.fresh_name("split"), opaque_sort("SplitResult")), "SplitResult")


def _build_url_call(ev, args, kwargs, node):
    from pyvc.contract import apply_contract
    return apply_contract(ev, BUILD_URL, [ev.frame.lookup("self")] + list(args), kwargs, node)


I_DEFS = {
    "default_port(s)": DEFS["default_port(s)"],
    "shost(h)": "('[' + h + ']') if (has(h, ':') and not h.startswith('[')) else h",
    # the URL text for scheme s, path p, query bytes q, optional server sv, optional Host header hh
    "base(s, p, sv, hh)": "(s + '://' + hh + p) if not is_none(hh) else (p if is_none(sv) else "
                          "(s + '://' + shost(sv[0]) + p if (is_none(sv[1]) or sv[1] == default_port(s)) else "
                          "s + '://' + shost(sv[0]) + ':' + str(sv[1]) + p))",
    "burl(s, p, q, sv, hh)": "base(s, p, sv, hh) if q == b'' else base(s, p, sv, hh) + '?' + utf8_decode(q.decode('latin-1'))",
}

SCOPE_T = Dict(scheme=Maybe_(Str), server=Maybe_(Opt(Tup(Str, Opt(Int)))), root_path=Maybe_(Str), path=Str,
               query_string=Maybe_(Bytes), headers=List(Tup(Bytes, Bytes)))

URL_INIT_SCOPE = Contract(
    id="URL.__init__[scope]", file=D, qualname="URL.__init__", props=["C18"],
    params={"self": ObjT(D + ":URL"), "url": Str, "scope": SCOPE_T, "environ": NoneT, "components": Dict()},
    applies=lambda ev, args, kwargs: "scope" in kwargs,
    requires=["url == ''"],
    defs=dict(I_DEFS, **{
        "S()": "(scope['scheme'] if has(scope, 'scheme') else 'http')",
        "SV()": "(scope['server'] if has(scope, 'server') else None)",
        "P()": "((scope['root_path'] if has(scope, 'root_path') else '') + scope['path'])",
        "Q()": "(scope['query_string'] if has(scope, 'query_string') else b'')",
        "H()": "scope['headers']",
    }),
    ufuncs={"utf8_decode": ([Str], Str), "utf8_ok": ([Str], Bool)},
    init_fields={"_url": Str, "_components": Opaque("SplitResult")},
    stubs={"urlsplit": urlsplit_stub, "self._build_url": _build_url_call},
    frame_check=False,
    raises={"KeyError": None, "UnicodeDecodeError": None, "ValueError": None},
    ensures={
        # scheme (default http), root_path + path, the query bytes, the server address - and the FIRST Host header, which
        # takes precedence over the server address
        "url.no_host_header": "implies(forall(i, 0, len(H()), H()[i][0] != b'host'), self._url == burl(S(), P(), Q(), SV(), None))",
        "url.first_host_header": "forall(i, 0, len(H()), implies(H()[i][0] == b'host' and forall(j, 0, i, H()[j][0] != b'host'), "
                                 "self._url == burl(S(), P(), Q(), SV(), H()[i][1].decode('latin-1'))))",
    },
    locals={"host_header": Opt(Str)},
    invariants={1: ["is_none(host_header)", "forall(j, 0, IDX, SEQ[j][0] != b'host')"]},
    canaries={"never_a_host": "not has(self._url, '://')"},
    assumptions=["A-urlsplit"],
    notes="URL(scope=...): _build_url enters through its contract; urlsplit is a stub",
)

ENV_T = Dict(**{"wsgi.url_scheme": Str, "SERVER_NAME": Str, "SERVER_PORT": Str, "SCRIPT_NAME": Maybe_(Str), "PATH_INFO": Maybe_(Str),
                "QUERY_STRING": Maybe_(Str), "HTTP_HOST": Maybe_(Str)})

URL_INIT_ENVIRON = Contract(
    id="URL.__init__[environ]", file=D, qualname="URL.__init__", props=["C18"],
    params={"self": ObjT(D + ":URL"), "url": Str, "scope": NoneT, "environ": ENV_T, "components": Dict()},
    applies=lambda ev, args, kwargs: "environ" in kwargs,
    requires=["url == ''"],
    defs=dict(I_DEFS, **{
        "E(k)": "(environ[k] if has(environ, k) else '')",
        "HH()": "(environ['HTTP_HOST'] if has(environ, 'HTTP_HOST') else None)",
    }),
    ufuncs={"utf8_decode": ([Str], Str), "utf8_ok": ([Str], Bool), "int_ok": ([Str], Bool), "int_of": ([Str], Int)},
    init_fields={"_url": Str, "_components": Opaque("SplitResult")},
    stubs={"urlsplit": urlsplit_stub, "self._build_url": _build_url_call},
    frame_check=False,
    raises={"KeyError": None, "UnicodeDecodeError": None, "UnicodeEncodeError": None, "ValueError": None},
    ensures={
        # PEP 3333: SCRIPT_NAME + PATH_INFO (Latin-1 text of UTF-8 bytes), QUERY_STRING, HTTP_HOST before SERVER_NAME:SERVER_PORT
        "url": "self._url == burl(environ['wsgi.url_scheme'], utf8_decode(E('SCRIPT_NAME') + E('PATH_INFO')), "
               "E('QUERY_STRING').encode('latin-1'), (environ['SERVER_NAME'], int_of(environ['SERVER_PORT'])), HH())",
    },
    canaries={"never_a_host": "not has(self._url, '://')"},
    assumptions=["A-urlsplit", "A-int-1"],
    notes="URL(environ=...): _build_url enters through its contract; urlsplit is a stub; int() of the port text is int_of",
)


def register(reg):
    reg.add(URL_INIT_SCOPE)
    reg.add(URL_INIT_ENVIRON)
    reg.add(URL_REPR)
    reg.add(URL_STR)
    reg.add(BUILD_URL)
    reg.add(URL_REPLACE)
    for prop in ("components", "netloc", "port", "username", "password"):
        reg.add(Contract(id="URL." + prop, file=D, qualname="URL." + prop, inline=True, props=["C18"]))
