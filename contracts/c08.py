"""C08 -- router: first match (BaseRouter.search, Router.__call__) and convertor languages (lemmas over the regex
constants read from the real source)."""
import ast

import z3

from pyvc import source
from pyvc.contract import Contract
from pyvc.regex import to_z3
from pyvc.stubs import USED
from pyvc.values import *  # noqa
from pyvc.builtins import ufunc, S, I, Bz
from pyvc.engine import Unsupported
from contracts import c02, c05, c09

RT = "baize/routing.py"
AR = "baize/asgi/routing.py"
WR = "baize/wsgi/routing.py"
ROUTE = Opaque("Route")
APP = c09.APP


def f_matches(r, p):
    return ufunc("route_matches", opaque_sort("Route"), S, Bz)(r, p)


def f_params(r, p):
    return ufunc("route_params", opaque_sort("Route"), S, opaque_sort("Params"))(r, p)


def f_endpoint(r):
    return ufunc("route_endpoint", opaque_sort("Route"), opaque_sort("App"))(r)


def route_matches_method(ev, recv, args, kwargs, node):
    """Route.matches(path) seen from the router: (matches?, params) -- a function of (route, path) (its own
    behaviour is covered by the convertor lemmas and the bounded layer)"""
    p = args[0]
    return VTuple([VBool(f_matches(recv.t, p.t)), VOpaque(f_params(recv.t, p.t), "Params")])


def route_endpoint_attr(ev, base):
    return VOpaque(f_endpoint(base.t), "App")


ROUTER_UF = {"route_matches": ([ROUTE, Str], Bool), "route_params": ([ROUTE, Str], Opaque("Params")),
             "route_endpoint": ([ROUTE], APP)}

ROUTER_SEARCH = Contract(
    id="BaseRouter.search", file=RT, qualname="BaseRouter.search", props=["C08"],
    params={"self": ObjT(RT + ":BaseRouter", _route_array=List(ROUTE)), "path": Str},
    returns=Opt(Tup(ROUTE, Opaque("Params"))), ufuncs=ROUTER_UF,
    ensures={
        "miss": "implies(is_none(result), forall(k, 0, len(self._route_array), not route_matches(self._route_array[k], path)))",
        "first_match": "implies(not is_none(result), exists(k, 0, len(self._route_array), result[0] == self._route_array[k] and "
                       "route_matches(self._route_array[k], path) and result[1] == route_params(self._route_array[k], path) and "
                       "forall(j, 0, k, not route_matches(self._route_array[j], path))))",
    },
    invariants={1: ["forall(j, 0, IDX, not route_matches(SEQ[j], path))"]},
    canaries={"always_first": "is_none(result) or result[0] == self._route_array[0]"},
    assumptions=["A-re-2"],
)

R_DEFS = dict(c02.A_DEFS)
R_DEFS.update({
    "some_match(p)": "exists(k, 0, len(self._route_array), route_matches(self._route_array[k], p))",
    "first(k, p)": "route_matches(self._route_array[k], p) and forall(j, 0, k, not route_matches(self._route_array[j], p))",
})
R_UF = dict(c02.HUF)
R_UF.update(ROUTER_UF)
CALLS_T = ObjT("Calls", n=Int, app=APP, root=Str, path=Str, has_params=Bool)

A_ROUTER_CALL = Contract(
    id="asgi.Router.__call__", file=AR, qualname="Router.__call__", props=["C08"],
    params={"self": ObjT(AR + ":Router", _route_array=List(ROUTE)),
            "scope": Dict(type=Str, path=Str, path_params=Maybe_(Opaque("Params"))), "receive": Opaque("Receive"),
            "send": TFunc(c02.send_stub, "send")},
    ghosts={"tr": c02.TR_T, "out": c02.OUT_T, "calls": CALLS_T},
    requires=["calls.n == 0", "tr.n_start == 0", "out.n_body == 0", "not out.closed", "out.out_len == 0", "scope['type'] != 'lifespan'"],
    defs=R_DEFS, ufuncs=R_UF,
    modifies=["scope"], ghost_modifies=["tr", "out", "calls"],
    ensures={
        "miss.404": "implies(not some_match(scope['path']), tr.n_start == 1 and tr.code == 404 and out.closed and calls.n == 0 and "
                    "has(scope, 'path_params') == old(has(scope, 'path_params')))",
        "hit": "implies(some_match(scope['path']), calls.n == 1 and tr.n_start == 0 and exists(k, 0, len(self._route_array), "
               "first(k, scope['path']) and calls.app == route_endpoint(self._route_array[k]) and has(scope, 'path_params') and "
               "scope['path_params'] == route_params(self._route_array[k], scope['path'])))",
        "path.kept": "scope['path'] == old(scope['path']) and scope['type'] == old(scope['type'])",
    },
    canaries={"never_dispatches": "calls.n == 0"},
    assumptions=["A-server", "A-re-2"],
)

WR_DEFS = dict(c02.HDEFS)
WR_DEFS.update(R_DEFS)
# routes are text; the request path is matched as text: PATH_INFO (PEP 3333: Latin-1 reading of the bytes) read as UTF-8
WR_DEFS.update({"old_path()": "wsgi_dec(old(environ['PATH_INFO'] if has(environ, 'PATH_INFO') else ''))"})

W_ROUTER_CALL = Contract(
    id="wsgi.Router.__call__", file=WR, qualname="Router.__call__", props=["C08"], generator=True,
    params={"self": ObjT(WR + ":Router", _route_array=List(ROUTE)),
            "environ": Dict(PATH_INFO=Maybe_(Str), PATH_PARAMS=Maybe_(Opaque("Params"))),
            "start_response": TFunc(c02.start_response_stub, "start_response")},
    ghosts={"tr": c02.TR_T, "out": c02.OUT_T, "calls": CALLS_T},
    requires=["calls.n == 0", "tr.n_start == 0", "out.n_yield == 0", "out.out_len == 0"],
    defs=WR_DEFS, ufuncs=dict(R_UF, **c09.TRANSCODE_UF), consts=c02.wsgi_consts(), stubs=c09.TRANSCODE_STUBS,
    on_yield_from=c09.yield_from_app, on_yield=c02.call_yield, yield_mods=("out",),
    modifies=["environ"], ghost_modifies=["tr", "out", "calls"],
    ensures={
        "miss.404": "implies(not some_match(old_path()), tr.n_start == 1 and tr.status == status_line(404) and calls.n == 0 and "
                    "has(environ, 'PATH_PARAMS') == old(has(environ, 'PATH_PARAMS')))",
        "hit": "implies(some_match(old_path()), calls.n == 1 and tr.n_start == 0 and exists(k, 0, len(self._route_array), "
               "first(k, old_path()) and calls.app == route_endpoint(self._route_array[k]) and has(environ, 'PATH_PARAMS') and "
               "environ['PATH_PARAMS'] == route_params(self._route_array[k], old_path())))",
    },
    canaries={"never_dispatches": "calls.n == 0"},
    assumptions=["A-server", "A-re-2", "A-transcode"],
)


# ----- convertor languages: the regex constant of each convertor class is read from the AST of baize/routing.py
SPEC_LANG = {
    "StringConvertor": ("[^/]+", "str: non-empty without '/'"),
    "IntegerConvertor": ("[0-9]+", "int: ASCII digits"),
    "DecimalConvertor": (r"[0-9]+(\.[0-9]+)?", "decimal: digits with optional fraction"),
    "UUIDConvertor": ("[0-9a-f]{8}-[0-9a-f]{4}-[0-9a-f]{4}-[0-9a-f]{4}-[0-9a-f]{12}", "uuid: canonical lower-case form"),
    "DateConvertor": ("[0-9]{4}-[0-9]{2}-[0-9]{2}", "date: YYYY-MM-DD"),
    "AnyConvertor": (r"[\s\S]*", "any: anything"),
}


def regex_of(clsname):
    r = source.class_attr(RT, clsname, "regex")
    if r is None or not isinstance(r[1], ast.Constant) or not isinstance(r[1].value, str):
        raise Unsupported("%s.regex is not a string constant" % clsname)
    return r[1].value


def language_lemma(clsname):
    spec, what = SPEC_LANG[clsname]

    def lemma(ev):
        code = regex_of(clsname)
        w = z3.String("w")
        return z3.InRe(w, to_z3(code)) == z3.InRe(w, to_z3(spec))
    lemma.note = "L(%s.regex) == L(%s)  [%s]" % (clsname, spec, what)
    lemma.watch = lambda ev: {"w": z3.String("w")}
    return lemma


LANGUAGES = Contract(
    id="convertor.languages", file=RT, qualname="Convertor", props=["C08"], bodyless=True,
    lemmas={name: language_lemma(name) for name in SPEC_LANG},
    model_to_inputs=lambda m: {"word": m.get("w", "")}, native=("c08", "replay_word"),
    notes="regex constants are read from the class bodies on every run and compared with the languages of the property "
          "statement (translated by pyvc.regex; full-match semantics, no DOTALL)",
    assumptions=["A-re-2"],
)
LANGUAGES.observable_only = True   # a regex deviation counts only if a witness word misbehaves on the real router


# ----- convertors whose conversion is plain Python (str, int, any): the real to_string / to_python under contract
def _conv(cls, meth, **kw):
    return Contract(id="conv.%s.%s" % (cls, meth), file=RT, qualname="%s.%s" % (cls, meth), props=["C08"],
                    ufuncs={"int_ok": ([Str], Bool), "int_of": ([Str], Int)}, **kw)


CONV_CONTRACTS = [
    _conv("StringConvertor", "to_python", params={"self": ObjT(RT + ":StringConvertor"), "value": Str}, returns=Str,
          raises={}, ensures={"identity": "result == value"}),
    _conv("StringConvertor", "to_string", params={"self": ObjT(RT + ":StringConvertor"), "value": Str}, returns=Str,
          raises={"ValueError": "value == '' or has(value, '/')"},
          # (a word of [^/]+ is a non-empty string without '/': stated that way - neither solver connects Contains with
          # the complement class of the regex)
          ensures={"identity": "result == value", "in_language": "result != '' and not has(result, '/')"},
          canaries={"never_returns": "False"}),
    _conv("IntegerConvertor", "to_string", params={"self": ObjT(RT + ":IntegerConvertor"), "value": Int}, returns=Str,
          raises={"ValueError": "value < 0"},
          ensures={"in_language": "inre(result, '[0-9]+')", "round_trip": "int_ok(result) and int_of(result) == value"},
          canaries={"never_returns": "False"}, assumptions=["A-int-1"]),
    _conv("IntegerConvertor", "to_python", params={"self": ObjT(RT + ":IntegerConvertor"), "value": Str}, returns=Int,
          requires=["inre(value, '[0-9]+')", "int_ok(value)"],     # the placeholder's language (A-int-1: digits parse)
          raises={}, ensures={"value": "result == int_of(value)"}, assumptions=["A-int-1"]),
    _conv("AnyConvertor", "to_python", params={"self": ObjT(RT + ":AnyConvertor"), "value": Str}, returns=Str,
          raises={}, ensures={"identity": "result == value"}),
    _conv("AnyConvertor", "to_string", params={"self": ObjT(RT + ":AnyConvertor"), "value": Str}, returns=Str,
          raises={}, ensures={"identity": "result == value"}),
]


def register(reg):
    for c in (ROUTER_SEARCH, A_ROUTER_CALL, W_ROUTER_CALL, LANGUAGES):
        reg.add(c)
    for c in CONV_CONTRACTS:
        reg.add(c)
    reg._opaque_method[("Route", "matches")] = route_matches_method
    reg._opaque_attr[("Route", "endpoint")] = route_endpoint_attr
