"""C19 -- server-sent events: the line-terminator set used by build_bytes_from_sse (lemma over the real source)."""
import ast

import z3

from pyvc import source
from pyvc.contract import Contract
from pyvc.regex import to_z3
from pyvc.values import *  # noqa
from pyvc.engine import Unsupported

R = "baize/responses.py"
W = "baize/wsgi/responses.py"
A = "baize/asgi/responses.py"
PY_SPLITLINES = ["\n", "\r", "\r\n", "\x0b", "\x0c", "\x1c", "\x1d", "\x1e", "\x85", " ", " "]   # A-lines-1


def separator_language():
    """the set of strings the code treats as a line break inside `data`, read from the AST of build_bytes_from_sse"""
    fdef = source.find_def(R, "build_bytes_from_sse")
    for n in ast.walk(fdef):
        if isinstance(n, ast.Call) and isinstance(n.func, ast.Attribute):
            if n.func.attr == "split" and isinstance(n.func.value, ast.Name) and n.func.value.id == "re":
                if n.args and isinstance(n.args[0], ast.Constant) and isinstance(n.args[0].value, str):
                    return to_z3(n.args[0].value), "re.split(%r, ...)" % n.args[0].value
            if n.func.attr == "splitlines" and not n.args:
                return z3.Union(*[z3.Re(s) for s in PY_SPLITLINES]), "str.splitlines() [A-lines-1]"
            if n.func.attr == "split" and n.args and isinstance(n.args[0], ast.Constant) and isinstance(n.args[0].value, str):
                return z3.Re(n.args[0].value), "str.split(%r)" % n.args[0].value
    raise Unsupported("no line-splitting call found in build_bytes_from_sse")


def lemma_separators(ev):
    code, how = separator_language()
    lemma_separators.note = "line breaks of event data, as the code sees them (%s), are exactly CR | LF | CRLF" % how
    w = z3.String("w")
    spec = z3.Union(z3.Re("\r\n"), z3.Re("\r"), z3.Re("\n"))
    return z3.InRe(w, code) == z3.InRe(w, spec)


lemma_separators.note = "line breaks of event data, as the code sees them, are exactly CR | LF | CRLF"
lemma_separators.watch = lambda ev: {"w": z3.String("w")}


def _const_in(relpath, qualname, predicate):
    fdef = source.find_def(relpath, qualname)
    for n in ast.walk(fdef):
        if isinstance(n, ast.Constant) and predicate(n.value):
            return True
    return False


def lemma_ping(ev):
    ok = all(_const_in(f, "SendEventResponse.render_stream", lambda v: v == b": ping\n\n") for f in (W, A))
    return z3.BoolVal(ok)


lemma_ping.note = "the keep-alive ping of both interfaces is the comment block b': ping\\n\\n' (a line starting with ':' is ignored by EventSource)"


def _joined_shape(node):
    """f-string -> list of parts: constant text or None for a formatted value (whatever its name / conversion)"""
    if not isinstance(node, ast.JoinedStr):
        return None
    return [v.value if isinstance(v, ast.Constant) else None for v in node.values]


def lemma_field_layout(ev):
    """every field line is '<name>: <value>' and the block is terminated by an empty line (joined with LF).  Decided on
    the shape of the AST, not on its text: local names, quoting and layout may change freely."""
    fdef = source.find_def(R, "build_bytes_from_sse")
    shapes = [_joined_shape(n) for n in ast.walk(fdef) if isinstance(n, ast.JoinedStr)]
    data_line = ["data: ", None] in shapes
    field_line = [None, ": ", None] in shapes
    only_these = all(sh in (["data: ", None], [None, ": ", None]) for sh in shapes)
    closes = any(isinstance(n, ast.Tuple) and len(n.elts) == 2 and all(isinstance(e, ast.Constant) and e.value == b"" for e in n.elts)
                 for n in ast.walk(fdef))
    lf_join = any(isinstance(n, ast.Call) and isinstance(n.func, ast.Attribute) and n.func.attr == "join"
                  and isinstance(n.func.value, ast.Constant) and n.func.value.value == b"\n" for n in ast.walk(fdef))
    returns_join = any(isinstance(n, ast.Return) and isinstance(n.value, ast.Call) and isinstance(n.value.func, ast.Attribute)
                       and n.value.func.attr == "join" for n in ast.walk(fdef))
    if not (data_line and field_line and only_these and closes and lf_join and returns_join):
        # the shape test recognises one way of writing the builder; written differently it says nothing (undecided: the
        # bounded EventSource reference parser decides)
        raise Unsupported("build_bytes_from_sse is not written in the recognised shape (syntactic lemma not applicable)")
    return z3.BoolVal(True)


lemma_field_layout.note = ("AST shape: the only f-strings are '<x>: <y>' and 'data: <x>', the result is b'\\n'.join(...) and ends with two empty items "
                           "(decoding of the block is checked by the bounded EventSource reference parser)")

SSE = Contract(
    id="sse.lemmas", file=R, qualname="build_bytes_from_sse", props=["C19"], bodyless=True,
    lemmas={"line_terminators": lemma_separators, "ping_is_a_comment": lemma_ping, "field_layout": lemma_field_layout},
    model_to_inputs=lambda m: {"data": "a" + m.get("w", "") + "b"}, native=("c19", "replay"),
    assumptions=["A-lines-1", "A-re-2"],
    notes="build_bytes_from_sse is built from generators, map and itertools.chain, outside the executor's subset; what is decided "
          "deductively is the separator language read from its AST; the block decoding is bounded (all code points)",
)
SSE.observable_only = True


def register(reg):
    reg.add(SSE)
