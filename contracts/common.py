"""Contracts shared by several properties: exception constructors (inlined), generic stubs."""
import z3

from pyvc.contract import Contract
from pyvc.stubs import stub, USED
from pyvc.values import *  # noqa
from pyvc.builtins import ufunc, S, I, Bz
from pyvc.engine import PyRaise

EXC = "baize/exceptions.py"


def http_status(ev, args, kwargs, node):
    """http.HTTPStatus(code): ValueError for an unknown code, else an object with a description (A-httpstatus)"""
    USED.add("A-httpstatus")
    code = args[0]
    known = ufunc("http_status_known", I, Bz)(code.t)
    if not ev.st.decide(known):
        raise PyRaise("ValueError", None, getattr(node, "lineno", 0))
    return ev.st.alloc(Obj("HTTPStatusMember", {"description": VStr(ufunc("http_status_description", I, S)(code.t)),
                                                 "phrase": VStr(ufunc("http_status_phrase", I, S)(code.t))}))


def exc_super_init(ev, args, kwargs, node):
    return NONE


def register(reg):
    for name in ("HTTPException", "RequestEntityTooLarge", "UnsupportedMediaType", "RangeNotSatisfiable",
                 "MalformedJSON", "MalformedMultipart", "MalformedRangeHeader"):
        reg.add(Contract(
            id="exc." + name, file=EXC, qualname=name + ".__init__", inline=True,
            stubs={"HTTPStatus": http_status, "super().__init__": exc_super_init} if name == "HTTPException" else {},
            notes="exception constructor: executed inline at every raise site (no summary)"))
