"""C10 -- the request body is read once, completely, and cached: utils.cached_property.__get__, Request.stream (both)."""
import ast

import z3

from pyvc import source
from pyvc.contract import Contract
from pyvc.stubs import USED
from pyvc.values import *  # noqa
from pyvc.builtins import ufunc, S, I, Bz
from pyvc.engine import PyRaise, Unsupported

U = "baize/utils.py"
AQ = "baize/asgi/requests.py"
WQ = "baize/wsgi/requests.py"
VAL = Opaque("Val")


# --------------------------------------------------------------------------- cached_property.__get__
def func_stub(ev, args, kwargs, node):
    g = ev.st.obj(ev.st.ghost["cp"])
    g.fields["n_calls"] = VInt(g.fields["n_calls"].t + 1)
    g.fields["arg_ok"] = VBool(z3.And(g.fields["arg_ok"].t, ev.is_(args[0], ev.frame.outermost().lookup("obj"))))
    return ev.st.ghost["computed"]


func_stub.mods = ("cp",)


def isawaitable_stub(ev, args, kwargs, node):
    return VBool(ufunc("is_awaitable", opaque_sort("Val"), Bz)(args[0].t))


def ensure_future_stub(ev, args, kwargs, node):
    USED.add("A-conc-1")
    return VOpaque(ufunc("future_of", opaque_sort("Val"), opaque_sort("Val"))(args[0].t), "Val")


FUNC_T = ObjT("Function", __name__=Str)

GET = Contract(
    id="cached_property.__get__", file=U, qualname="cached_property.__get__", props=["C10"],
    params={"self": ObjT(U + ":cached_property", func=ObjT("Function", __name__=Str)),
            "obj": ObjT("Instance", __dict__=Map(Str, VAL)), "cls": Opaque("Class")},
    ghosts={"cp": ObjT("CpGhost", n_calls=Int, arg_ok=Bool), "computed": VAL},
    requires=["cp.n_calls == 0", "cp.arg_ok"],
    ufuncs={"is_awaitable": ([VAL], Bool), "future_of": ([VAL], VAL)},
    stubs={"self.func": func_stub, "inspect.isawaitable": isawaitable_stub, "asyncio.ensure_future": ensure_future_stub},
    modifies=["obj.__dict__"], ghost_modifies=["cp"],
    returns=VAL,
    ensures={
        "computed_once": "cp.n_calls == 1 and cp.arg_ok",
        "value": "result == (future_of(computed) if is_awaitable(computed) else computed)",
        "cached_under_its_name": "has(obj.__dict__, self.func.__name__) and obj.__dict__[self.func.__name__] == result",
        "others_kept": "forall((k, Str), implies(k != self.func.__name__, has(obj.__dict__, k) == has(old(obj.__dict__), k) and "
                       "implies(has(old(obj.__dict__), k), obj.__dict__[k] == old(obj.__dict__)[k])))",
    },
    canaries={"not_cached": "not has(obj.__dict__, self.func.__name__)"},
    assumptions=["A-py-1", "A-conc-1"],
    notes="the `obj is None` (class access) branch is outside C10 and excluded by the parameter type",
)


def lemma_get_is_atomic(ev):
    """__get__ is a plain function without await / yield: it cannot be suspended between computing and storing"""
    fdef = source.find_def(U, "cached_property.__get__")
    ok = isinstance(fdef, ast.FunctionDef) and not any(isinstance(n, (ast.Await, ast.Yield, ast.YieldFrom)) for n in ast.walk(fdef))
    return z3.BoolVal(ok)


lemma_get_is_atomic.note = "cached_property.__get__ is a synchronous def containing no await / yield (atomic for asyncio tasks)"


def _between_test_and_set(relpath, qualname):
    """no suspension point between `if self._stream_consumed: raise` and the first later `self._stream_consumed = True`
    (wherever in the function that assignment is: source order stands in for control flow, which is exact for the
    straight-line / loop-entry shapes at hand and conservative otherwise)"""
    fdef = source.find_def(relpath, qualname)
    pos = lambda n: (n.lineno, n.col_offset)      # noqa
    tests = [n for n in ast.walk(fdef) if isinstance(n, ast.If) and "_stream_consumed" in ast.unparse(n.test)
             and any(isinstance(x, ast.Raise) for x in n.body)]
    if not tests:
        raise Unsupported("%s: no `if self._stream_consumed: raise` found (syntactic lemma not applicable)" % qualname)
    t = min(tests, key=pos)
    t_end = (t.end_lineno, t.end_col_offset)
    sets = [n for n in ast.walk(fdef) if isinstance(n, ast.Assign) and ast.unparse(n.targets[0]) == "self._stream_consumed"
            and pos(n) > t_end]
    if not sets:
        raise Unsupported("%s: no `self._stream_consumed = ...` after the test (syntactic lemma not applicable)" % qualname)
    a = min(sets, key=pos)
    for n in ast.walk(fdef):
        if isinstance(n, (ast.Await, ast.Yield, ast.YieldFrom)) and t_end < pos(n) < pos(a):
            return False
    return True


def lemma_asgi_flag_atomic(ev):
    return z3.BoolVal(_between_test_and_set(AQ, "Request.stream"))


lemma_asgi_flag_atomic.note = "ASGI Request.stream: no await/yield between testing and setting _stream_consumed (two consumers cannot both pass)"


def lemma_wsgi_flag_atomic(ev):
    return z3.BoolVal(_between_test_and_set(WQ, "Request.stream"))


lemma_wsgi_flag_atomic.note = "WSGI Request.stream: the flag is set right after it was tested"

ATOMICITY = Contract(
    id="c10.atomicity", file=U, qualname="cached_property", props=["C10"], bodyless=True,
    lemmas={"cached_property_get_atomic": lemma_get_is_atomic, "asgi_stream_flag": lemma_asgi_flag_atomic,
            "wsgi_stream_flag": lemma_wsgi_flag_atomic},
    notes="syntactic side conditions that reduce the concurrent clause of C10 to the sequential contracts",
)


# --------------------------------------------------------------------------- ASGI Request.stream
MSGS_T = List(Tup(Str, Bytes, Bool))


def bodycat(ev, k):
    """concatenation of the bodies of the first k server messages (http.request ones); unfolded on demand"""
    st = ev.st
    msgs = st.obj(st.ghost["msgs"])
    f = ufunc("bodycat", I, S)
    insts = st.run.counters.setdefault("bodycat_inst", set())
    st.assume(f(z3.IntVal(0)) == z3.StringVal(""))

    def unfold(t):
        key = z3.simplify(t).sexpr()
        if key in insts:
            return
        insts.add(key)
        typ, body = msgs.cols[0][t], msgs.cols[1][t]
        st.assume(z3.Implies(z3.And(0 <= t, t < msgs.length),
                             f(t + 1) == z3.Concat(f(t), z3.If(typ == z3.StringVal("http.request"), body, z3.StringVal("")))))
    unfold(k)
    unfold(k - 1)
    return f(k)


def spec_bodycat(ev, node):
    k = ev.expr(node.args[0])
    return VStr(bodycat(ev, k.t), True)


def receive_stub(ev, args, kwargs, node):
    """the server's receive(): the next message of the script (A-server: http.request* then http.disconnect)"""
    USED.add("A-server")
    st = ev.st
    rq = st.obj(st.ghost["rq"])
    msgs = st.obj(st.ghost["msgs"])
    cur = rq.fields["cursor"].t
    c = ev.frame.outermost().contract
    st.oblige("%s/recv.script_not_exhausted" % c.id, cur < msgs.length,
              note="the stream never asks for a message after the script's end (it stops at the final chunk / disconnect)",
              line=getattr(node, "lineno", 0))
    item = ev.list_get(msgs, cur)
    rq.fields["cursor"] = VInt(cur + 1)
    t, body, more = item.items
    return st.alloc(DictObj({"type": t, "body": body, "more_body": more}))


receive_stub.mods = ("rq",)


def stream_yield(ev, v, node):
    st = ev.st
    rq = st.obj(st.ghost["rq"])
    c = ev.frame.outermost().contract
    st.oblige("%s/yield.bytes" % c.id, isinstance(v, VStr) and v.isbytes, line=getattr(node, "lineno", 0))
    rq.fields["out"] = VStr(z3.Concat(rq.fields["out"].t, v.t), True)
    rq.fields["n_yield"] = VInt(rq.fields["n_yield"].t + 1)


FUT_T = ObjT("Future", done_=Bool, result_=Bytes)
A_SELF = ObjT(AQ + ":Request", _stream_consumed=Bool, _is_disconnected=Bool, _receive=TFunc(receive_stub, "_receive"),
              __dict__=Dict(body=Maybe_(FUT_T)))
RQ_T = ObjT("RqGhost", cursor=Int, out=Bytes, n_yield=Int)

A_DEFS = {
    "legal_msgs()": "len(msgs) >= 1 and forall(k, 0, len(msgs), (msgs[k][0] == 'http.request' or msgs[k][0] == 'http.disconnect') and "
                    "((k == len(msgs) - 1) == (msgs[k][0] == 'http.disconnect' or not msgs[k][2])))",
    "replay()": "has(self.__dict__, 'body') and self.__dict__['body'].done_",
}

A_STREAM = Contract(
    id="asgi.Request.stream", file=AQ, qualname="Request.stream", props=["C10"], generator=True,
    params={"self": A_SELF}, ghosts={"rq": RQ_T, "msgs": MSGS_T},
    requires=["legal_msgs()", "0 <= rq.cursor", "rq.out == b''", "rq.n_yield == 0",
              "implies(not replay() and not self._stream_consumed, rq.cursor == 0)"],
    defs=A_DEFS,
    on_yield=stream_yield, yield_mods=("rq",),
    modifies=["self._stream_consumed", "self._is_disconnected"], ghost_modifies=["rq"],
    raises={"RuntimeError": "not replay() and self._stream_consumed",
            "ClientDisconnect": "not replay() and not self._stream_consumed and msgs[len(msgs) - 1][0] == 'http.disconnect'"},
    raises_ensures={"RuntimeError": {"ensures": ["rq.cursor == old(rq.cursor)", "rq.n_yield == 0"]},
                    "ClientDisconnect": {"ensures": ["self._is_disconnected", "rq.cursor == len(msgs)", "self._stream_consumed"]}},
    ensures={
        "replayed": "implies(old(replay()), rq.out == self.__dict__['body'].result_ and rq.cursor == old(rq.cursor))",
        "complete": "implies(not old(replay()), rq.out == bodycat(rq.cursor) and rq.cursor == len(msgs) and "
                    "msgs[len(msgs) - 1][0] == 'http.request' and self._stream_consumed)",
        "each_message_once": "rq.cursor >= old(rq.cursor)",
    },
    invariants={1: ["legal_msgs()", "self._stream_consumed", "0 <= rq.cursor and rq.cursor < len(msgs)",
                    "rq.out == bodycat(rq.cursor)", "forall(j, 0, rq.cursor, msgs[j][0] == 'http.request' and msgs[j][2])",
                    "not old(replay())", "not self._is_disconnected or old(self._is_disconnected)"]},
    canaries={"never_completes": "old(replay())"},
    assumptions=["A-server", "A-py-1"],
    notes="`self.body` in the replay branch is the completed future stored in the instance dict (A-py-1: the instance dict "
          "shadows the non-data descriptor); `await future` is its result",
)


def request_body_attr(ev, ref):
    o = ev.st.obj(ref)
    d = ev.st.obj(o.fields["__dict__"])
    from pyvc.builtins import Maybe
    b = d.items["body"]
    return b.value if isinstance(b, Maybe) else b


def await_future(ev, v, node):
    o = ev.st.obj(v)
    return o.fields["result_"]


def future_done(ev, recv, args, kwargs, node):
    return ev.st.obj(recv).fields["done_"]


future_done.mods = ()
future_done.mutates_recv = False


# --------------------------------------------------------------------------- WSGI Request.stream
def input_read(ev, recv, args, kwargs, node):
    """wsgi.input.read(n): up to n bytes, b'' only at the end of the body (A-wsgi-1)"""
    USED.add("A-wsgi-1")
    st = ev.st
    inp = st.obj(recv)
    n = args[0]
    c = ev.frame.outermost().contract
    st.oblige("%s/safe.read_size" % c.id, n.t >= 1, line=getattr(node, "lineno", 0))
    pos, size = inp.fields["pos"].t, inp.fields["size"].t
    k = st.fresh_int("readlen")
    st.assume(z3.If(pos >= size, k == 0, z3.And(k >= 1, k <= n.t, k <= size - pos)))
    data = st.fresh(Bytes, "inchunk")
    st.assume(z3.Length(data.t) == k)
    st.assume(data.t == z3.SubString(st.ghost["wbody"].t, pos, k))
    inp.fields["pos"] = VInt(pos + k)
    return data


input_read.mods = ()

W_SELF = ObjT(WQ + ":Request", _stream_consumed=Bool, _environ=Dict(**{"wsgi.input": ObjT("WsgiInput", pos=Int, size=Int)}),
              __dict__=Dict(body=Maybe_(Bytes)))


def w_body_attr(ev, ref):
    o = ev.st.obj(ref)
    d = ev.st.obj(o.fields["__dict__"])
    from pyvc.builtins import Maybe
    b = d.items["body"]
    return b.value if isinstance(b, Maybe) else b


W_STREAM = Contract(
    id="wsgi.Request.stream", file=WQ, qualname="Request.stream", props=["C10"], generator=True,
    params={"self": W_SELF, "chunk_size": Int}, ghosts={"rq": RQ_T, "wbody": Bytes},
    requires=["chunk_size >= 1", "rq.out == b''", "rq.n_yield == 0", "self._environ['wsgi.input'].size == len(wbody)",
              "0 <= self._environ['wsgi.input'].pos and self._environ['wsgi.input'].pos <= len(wbody)",
              "implies(not has(self.__dict__, 'body') and not self._stream_consumed, self._environ['wsgi.input'].pos == 0)"],
    on_yield=stream_yield, yield_mods=("rq",),
    stub_methods={("WsgiInput", "read"): input_read},
    modifies=["self._stream_consumed", "self._environ.wsgi.input.pos"], ghost_modifies=["rq"],
    raises={"RuntimeError": "not has(self.__dict__, 'body') and self._stream_consumed"},
    raises_ensures={"RuntimeError": {"ensures": ["rq.n_yield == 0"]}},
    ensures={
        "replayed": "implies(has(self.__dict__, 'body'), rq.out == self.__dict__['body'] and rq.n_yield == 1)",
        "complete": "implies(not has(self.__dict__, 'body'), rq.out == wbody and self._stream_consumed)",
    },
    invariants={1: ["self._stream_consumed", "body.size == len(wbody)", "0 <= body.pos and body.pos <= body.size",
                    "rq.out == wbody[:body.pos]", "not has(self.__dict__, 'body')"]},
    canaries={"never_reads": "has(self.__dict__, 'body')"},
    assumptions=["A-wsgi-1", "A-py-1"],
)


def _wsgi_stream_m2i(m):
    """a fresh request (nothing cached, not consumed) with the model's body and chunk size; other models do not replay"""
    if m.get("self.__dict__.has['body']") or m.get("self._stream_consumed"):
        return None
    return {"iface": "wsgi", "body": str(m.get("wbody", "")), "chunk_size": max(1, int(m.get("chunk_size", 1) or 1))}


def _asgi_stream_m2i(m):
    if m.get("self.__dict__.has['body']") or m.get("self._stream_consumed"):
        return None
    n = max(0, min(int(m.get("msgs.len", 0) or 0), 8))
    msgs = [[m.get("msgs[%d][0]" % i, "http.request"), str(m.get("msgs[%d][1]" % i, "")), bool(m.get("msgs[%d][2]" % i, False))] for i in range(n)]
    return {"iface": "asgi", "msgs": msgs}


A_STREAM.model_to_inputs, A_STREAM.native = _asgi_stream_m2i, ("c10", "replay_stream")
W_STREAM.model_to_inputs, W_STREAM.native = _wsgi_stream_m2i, ("c10", "replay_stream")


def register(reg):
    from pyvc import engine
    from pyvc.contract import SPEC_FUNCS
    SPEC_FUNCS["bodycat"] = spec_bodycat
    for c in (GET, ATOMICITY, A_STREAM, W_STREAM):
        reg.add(c)
    reg._attr_models[("Request", "body")] = lambda ev, ref: (request_body_attr if "asgi" in ev.st.obj(ref).cls else w_body_attr)(ev, ref)
    reg._await_models["Future"] = await_future
    from pyvc import stubs
    stubs.STUB_METHODS[("Future", "done")] = future_done
