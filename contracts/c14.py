"""C14 -- conditional requests of the static-file apps (baize/staticfiles.py, */staticfiles.py)."""
import z3

from pyvc.contract import Contract
from pyvc.stubs import USED
from pyvc.values import *  # noqa
from pyvc.builtins import ufunc, S, I, Bz
from pyvc.engine import PyRaise, Unsupported
from contracts import c02

SF = "baize/staticfiles.py"
WS = "baize/wsgi/staticfiles.py"
AS = "baize/asgi/staticfiles.py"
FLOAT = Opaque("Float")

DEFS = {
    # the opaque-tag of one list member: surrounding blanks, a weak prefix and the quotes do not count
    "tag(p)": "(p.strip()[2:] if p.strip().startswith('W/') else p.strip()).strip('\"')",
}

INM = Contract(
    id="if_none_match", file=SF, qualname="BaseFiles.if_none_match", props=["C14"],
    params={"self": ObjT(SF + ":BaseFiles"), "etag": Str, "if_none_match": Str}, returns=Bool,
    ghosts={"pieces": List(Str)},
    defs=DEFS,
    stubs={"if_none_match.split": lambda ev, a, k, n: ev.st.ghost["pieces"]},
    ensures={"iff": "result == (if_none_match != '' and (if_none_match == '*' or "
                    "exists(i, 0, len(pieces), etag == tag(pieces[i]))))"},
    canaries={"never": "not result"},
    notes="`pieces` names the result of header.split(',') (A-split: the comma-free pieces whose join is the header)",
    assumptions=["A-split", "A-lower"],
)


def parsedate_stub(ev, args, kwargs, node):
    """email.utils.parsedate_to_datetime: ValueError on unparsable input (A-date-parse, Python >= 3.10)"""
    USED.add("A-date-parse")
    ok = ufunc("date_parses", S, Bz)(args[0].t)
    if not ev.st.decide(ok):
        # ValueError for an unparsable date, OverflowError for absurd field values (a 20-digit hour)
        if ev.st.choose([z3.BoolVal(True)] * 2, force_record=True) == 1:
            raise PyRaise("OverflowError", None, getattr(node, "lineno", 0))
        raise PyRaise("ValueError", None, getattr(node, "lineno", 0))
    return VOpaque(ufunc("parsed_date", S, opaque_sort("Datetime"))(args[0].t), "Datetime")


def dt_timestamp(ev, recv, args, kwargs, node):
    return VOpaque(ufunc("dt_timestamp", opaque_sort("Datetime"), opaque_sort("Float"))(recv.t), "Float")


def float_int(t):
    return ufunc("floor_int", opaque_sort("Float"), I)(t)


IMS = Contract(
    id="if_modified_since", file=SF, qualname="BaseFiles.if_modified_since", props=["C14"],
    params={"self": ObjT(SF + ":BaseFiles"), "last_modified": FLOAT, "if_modified_since": Str}, returns=Bool,
    stubs={"parsedate_to_datetime": parsedate_stub},
    ufuncs={"date_parses": ([Str], Bool), "parsed_date": ([Str], Opaque("Datetime")), "dt_timestamp": ([Opaque("Datetime")], FLOAT),
            "floor_int": ([FLOAT], Int)},
    ensures={"iff": "result == (if_modified_since != '' and date_parses(if_modified_since) and "
                    "floor_int(last_modified) <= floor_int(dt_timestamp(parsed_date(if_modified_since))))"},
    canaries={"never": "not result"},
    assumptions=["A-date-parse", "A-float-floor"],
    notes="int(x) of a float is modelled as floor_int(x) for the non-negative timestamps at hand (A-float-floor)",
)

STAT_T = ObjT("stat_result", st_size=Int, st_mtime=FLOAT, st_ctime=FLOAT, st_mode=Int)


def inm_returns(ev, env):
    return None


def mk_file_response(file_, iface):
    cls = file_ + ":Files"

    def decided_for(ev):
        """ghost fields on the response object: what the decision was taken for (the arguments of file_response)"""
        sr = ev.st.obj(ev.frame.lookup("stat_result")).fields
        return {"g_path": ev.frame.lookup("filepath"), "g_inm": ev.frame.lookup("if_none_match"),
                "g_ims": ev.frame.lookup("if_modified_since"), "g_mtime": sr["st_mtime"], "g_size": sr["st_size"],
                "g_ctime": sr["st_ctime"]}

    def response_ctor(ev, args, kwargs, node):
        st = ev.st
        return st.alloc(Obj(file_.replace("staticfiles", "responses") + ":Response",
                            dict({"status_code": args[0], "kind": VInt(304), "headers": st.fresh(c02.MH_T, "r304.headers")},
                                 **decided_for(ev))))

    def fileresponse_ctor(ev, args, kwargs, node):
        st = ev.st
        return st.alloc(Obj(file_.replace("staticfiles", "responses") + ":FileResponse",
                            dict({"status_code": VInt(200), "kind": VInt(200), "filepath": args[0], "stat_result": kwargs["stat_result"],
                                  "headers": st.fresh(c02.MH_T, "rfile.headers")}, **decided_for(ev))))

    def set_headers_stub(ev, args, kwargs, node):
        g = ev.st.obj(ev.st.ghost["fx"])
        g.fields["n_set_headers"] = VInt(g.fields["n_set_headers"].t + 1)
        return NONE
    set_headers_stub.mods = ("fx",)

    return Contract(
        id=iface + ".Files.file_response", file=file_, qualname="Files.file_response", props=["C14", "C04"],
        params={"self": ObjT(cls), "filepath": Str, "stat_result": STAT_T, "if_none_match": Str, "if_modified_since": Str},
        # at call sites: an abstract response with the decision (`kind` 304 / 200) and, for 200, the file it will open
        # (g_*: ghost fields - the arguments the decision was taken for; the applications' contracts tie them to the request
        # and to what os.stat returned)
        returns=ObjT(file_.replace("staticfiles", "responses") + ":Response", kind=Int, filepath=Str, g_path=Str, g_inm=Str, g_ims=Str,
                     g_mtime=FLOAT, g_size=Int, g_ctime=FLOAT),
        ghosts={"fx": ObjT("FxGhost", n_set_headers=Int), "pieces": List(Str)},
        requires=["fx.n_set_headers == 0"],
        defs=DEFS,
        ufuncs={"date_parses": ([Str], Bool), "parsed_date": ([Str], Opaque("Datetime")), "dt_timestamp": ([Opaque("Datetime")], FLOAT),
                "floor_int": ([FLOAT], Int), "etag_of": ([FLOAT, Int], Str)},
        stubs={"Response": response_ctor, "FileResponse": fileresponse_ctor, "self.set_response_headers": set_headers_stub,
               "FileResponse.generate_etag": lambda ev, a, k, n: c02.generate_etag_returns(ev, {"stat_result": a[0]})},
        ghost_modifies=["fx"],
        ensures={
            # ETag validator when present (weak tags and list members count, '*' matches), else the date at 1 s granularity
            "decision": "(result.kind == 304) == (((if_none_match == '*' or exists(i, 0, len(pieces), "
                        "etag_of(stat_result.st_mtime, stat_result.st_size) == tag(pieces[i]))) if if_none_match != '' else "
                        "(if_modified_since != '' and date_parses(if_modified_since) and "
                        "floor_int(stat_result.st_ctime) <= floor_int(dt_timestamp(parsed_date(if_modified_since))))))",
            "file": "implies(result.kind != 304, result.kind == 200 and result.filepath == filepath)",
            "decided_for": "result.g_path == filepath and result.g_inm == if_none_match and result.g_ims == if_modified_since and "
                           "result.g_mtime == stat_result.st_mtime and result.g_size == stat_result.st_size and "
                           "result.g_ctime == stat_result.st_ctime",
            # cache headers on BOTH outcomes (also part of C04: the two interfaces must agree)
            "cache_headers": "fx.n_set_headers == 1",
        },
        canaries={"never_304": "result.kind != 304"},
        assumptions=["A-sha-1", "A-date-parse", "A-split"],
    )


W_FILE_RESPONSE = mk_file_response(WS, "wsgi")
A_FILE_RESPONSE = mk_file_response(AS, "asgi")


def register(reg):
    for c in (INM, IMS, W_FILE_RESPONSE, A_FILE_RESPONSE):
        reg.add(c)
    reg._opaque_method[("Datetime", "timestamp")] = dt_timestamp
