"""C11 -- the WebSocket wrapper (baize/asgi/websocket.py): a data structure against an abstract view.

Ghost state `ws`: cursor into the server's event script, fwd = automaton of the events actually forwarded to the
server's send (1 INIT, 2 ACCEPTED, 3 CLOSED), n_fwd / n_recv counters, disc = a disconnect event was delivered."""
import z3

from pyvc.contract import Contract
from pyvc.stubs import USED
from pyvc.values import *  # noqa
from pyvc.builtins import const_str
from pyvc.engine import PyRaise, Unsupported

F = "baize/asgi/websocket.py"
WS = F + ":WebSocket"

MSG_T = Dict(type=Str, code=Int, reason=Str, text=Str, bytes=Bytes)
SCRIPT_T = List(Tup(Str, Int, Str, Str, Bytes))
GHOST = {"ws": ObjT("WsGhost", cursor=Int, fwd=Int, n_fwd=Int, n_recv=Int, disc=Bool), "script": SCRIPT_T}


def server_send(ev, args, kwargs, node):
    """the server's send: every forwarded event must be a legal step of the ASGI websocket application automaton"""
    st = ev.st
    c = ev.frame.outermost().contract
    ws = st.obj(st.ghost["ws"])
    msg = st.obj(args[0])
    t = msg.items["type"].t
    fwd = ws.fields["fwd"].t
    S_ = z3.StringVal
    legal = z3.Or(z3.And(fwd == 1, z3.Or(t == S_("websocket.accept"), t == S_("websocket.close"))),
                  z3.And(fwd == 2, z3.Or(t == S_("websocket.send"), t == S_("websocket.close"))))
    st.oblige("%s/fwd.legal_step" % c.id, legal,
              note="forwarded events: accept|close first, send only between accept and close, nothing after close",
              line=getattr(node, "lineno", 0))
    nf = z3.If(t == S_("websocket.close"), 3, z3.If(t == S_("websocket.accept"), 2, fwd))
    # the wrapper has ALREADY recorded the step when it hands the event to the server: the server's send is a suspension
    # point and may fail - a second task, or the code after a failed close, must see the state the event implies
    try:
        me = st.obj(ev.frame.lookup("self"))
        if "application_state" in me.fields:
            st.oblige("%s/fwd.state_recorded_before_forwarding" % c.id, me.fields["application_state"].t == nf,
                      note="application_state is set before the event is handed to the server's send (accept -> CONNECTED, close -> DISCONNECTED)",
                      line=getattr(node, "lineno", 0))
    except Exception:  # noqa  (called from a frame without `self`: nothing to say)
        pass
    ws.fields["fwd"] = VInt(nf)
    ws.fields["n_fwd"] = VInt(ws.fields["n_fwd"].t + 1)
    return NONE


server_send.mods = ("ws",)


def server_receive(ev, args, kwargs, node):
    """the server's receive: returns the next event of the script (A-server: the script is protocol-legal)"""
    USED.add("A-server")
    st = ev.st
    c = ev.frame.outermost().contract
    ws = st.obj(st.ghost["ws"])
    script = st.obj(st.ghost["script"])
    st.oblige("%s/recv.not_after_disconnect" % c.id, z3.Not(ws.fields["disc"].t),
              note="no receive is issued after a disconnect was delivered", line=getattr(node, "lineno", 0))
    cur = ws.fields["cursor"].t
    item = ev.list_get(script, cur)
    t, code, reason, text, data = item.items
    ws.fields["cursor"] = VInt(cur + 1)
    ws.fields["n_recv"] = VInt(ws.fields["n_recv"].t + 1)
    ws.fields["disc"] = VBool(z3.Or(ws.fields["disc"].t, t.t == z3.StringVal("websocket.disconnect")))
    return st.alloc(DictObj({"type": t, "code": code, "reason": reason, "text": text, "bytes": data}))


server_receive.mods = ("ws",)

SELF_T = ObjT(WS, client_state=Int, application_state=Int, _receive=TFunc(server_receive, "_receive"),
              _send=TFunc(server_send, "_send"), _scope=Opaque("Scope"))

DEFS = {
    "CONNECTING()": "1", "CONNECTED()": "2", "DISCONNECTED()": "3",
    # A-server: connect first, then frames, and the script ends with its only disconnect event
    "legal_script()": "len(script) >= 2 and forall(k, 0, len(script), (script[k][0] == 'websocket.connect') == (k == 0) and "
                      "(k == 0 or script[k][0] == 'websocket.receive' or script[k][0] == 'websocket.disconnect') and "
                      "(script[k][0] == 'websocket.disconnect') == (k == len(script) - 1))",
    # representation invariant linking the wrapper's two state fields to what really happened
    "I()": "1 <= self.client_state and self.client_state <= 3 and 1 <= self.application_state and self.application_state <= 3 "
           "and self.application_state == ws.fwd and (self.client_state == 1) == (ws.cursor == 0) and "
           "(self.client_state == 3) == ws.disc and ws.cursor >= 0 and ws.n_fwd >= 0 and ws.n_recv == ws.cursor and "
           "ws.cursor <= len(script) and ws.disc == (ws.cursor == len(script))",
    "monotone()": "old(self.client_state) <= self.client_state and old(self.application_state) <= self.application_state",
    "untouched()": "ws.n_fwd == old(ws.n_fwd) and ws.n_recv == old(ws.n_recv) and ws.cursor == old(ws.cursor) and "
                   "self.client_state == old(self.client_state) and self.application_state == old(self.application_state)",
    "delivered(r, k)": "r['type'] == script[k][0] and r['code'] == script[k][1] and r['reason'] == script[k][2] and "
                       "r['text'] == script[k][3] and r['bytes'] == script[k][4]",
}
COMMON = dict(defs=DEFS, ghosts=GHOST, ghost_modifies=["ws"], modifies=["self.client_state", "self.application_state"],
              requires=["I()", "legal_script()"])

RECEIVE = Contract(
    id="ws.receive", file=F, qualname="WebSocket.receive", props=["C11"],
    params={"self": SELF_T}, returns=MSG_T,
    raises={"RuntimeError": "self.client_state == 3"},
    raises_ensures={"RuntimeError": {"ensures": ["untouched()", "I()"]}},
    ensures={"I": "I()", "monotone": "monotone()",
             "in_order_exactly_once": "ws.cursor == old(ws.cursor) + 1 and ws.n_recv == old(ws.n_recv) + 1 and delivered(result, old(ws.cursor))",
             "nothing_forwarded": "ws.n_fwd == old(ws.n_fwd) and self.application_state == old(self.application_state)",
             "was_open": "old(self.client_state) != 3"},
    canaries={"never_disconnects": "self.client_state != 3"},
    **COMMON)

SEND = Contract(
    id="ws.send", file=F, qualname="WebSocket.send", props=["C11"],
    params={"self": SELF_T, "message": Dict(type=Str)},
    raises={"AssertionError": "(self.application_state == 1 and message['type'] != 'websocket.accept' and message['type'] != 'websocket.close') or "
                              "(self.application_state == 2 and message['type'] != 'websocket.send' and message['type'] != 'websocket.close')",
            "RuntimeError": "self.application_state == 3"},
    raises_ensures={"AssertionError": {"ensures": ["untouched()", "I()"]}, "RuntimeError": {"ensures": ["untouched()", "I()"]}},
    ensures={"I": "I()", "monotone": "monotone()",
             "forwarded_once": "ws.n_fwd == old(ws.n_fwd) + 1 and ws.n_recv == old(ws.n_recv) and ws.cursor == old(ws.cursor)",
             "state": "self.application_state == (3 if message['type'] == 'websocket.close' else 2)",
             "client.untouched": "self.client_state == old(self.client_state)"},
    canaries={"never_closes": "self.application_state != 3"},
    **COMMON)

ACCEPT = Contract(
    id="ws.accept", file=F, qualname="WebSocket.accept", props=["C11"],
    params={"self": SELF_T, "subprotocol": Opt(Str)},
    raises={"AssertionError": "self.application_state == 2", "RuntimeError": "self.application_state == 3"},
    raises_ensures={"AssertionError": {"ensures": ["ws.n_fwd == old(ws.n_fwd)", "I()"]},
                    "RuntimeError": {"ensures": ["ws.n_fwd == old(ws.n_fwd)", "I()"]}},
    ensures={"I": "I()", "monotone": "monotone()", "accepted": "self.application_state == 2 and ws.n_fwd == old(ws.n_fwd) + 1",
             "connect_consumed_first": "ws.cursor == (1 if old(ws.cursor) == 0 else old(ws.cursor))"},
    **COMMON)

CLOSE = Contract(
    id="ws.close", file=F, qualname="WebSocket.close", props=["C11"],
    params={"self": SELF_T, "code": Int, "reason": Opt(Str)},
    raises={},
    ensures={"I": "I()", "monotone": "monotone()", "closed": "self.application_state == 3",
             "idempotent": "ws.n_fwd == (old(ws.n_fwd) if old(self.application_state) == 3 else old(ws.n_fwd) + 1)",
             "no_receive": "ws.cursor == old(ws.cursor)"},
    **COMMON)


def typed_receive(name, key, rett):
    return Contract(
        id="ws." + name, file=F, qualname="WebSocket." + name, props=["C11"],
        params={"self": SELF_T}, returns=rett,
        raises={"AssertionError": "self.application_state != 2",
                "RuntimeError": "self.client_state == 3",
                "WebSocketDisconnect": "script[ws.cursor][0] == 'websocket.disconnect'"},
        raises_ensures={"AssertionError": {"ensures": ["untouched()", "I()"]},
                        "RuntimeError": {"ensures": ["untouched()", "I()"]},
                        "WebSocketDisconnect": {"fields": {"code": Int, "reason": Str},
                                                "ensures": ["I()", "monotone()", "ws.cursor == old(ws.cursor) + 1", "self.client_state == 3",
                                                            "self.application_state == old(self.application_state)",
                                                            "exc.code == script[old(ws.cursor)][1]", "ws.n_fwd == old(ws.n_fwd)"]}},
        ensures={"I": "I()", "monotone": "monotone()",
                 "payload": "result == script[old(ws.cursor)][%d] and ws.cursor == old(ws.cursor) + 1" % key,
                 "nothing_forwarded": "ws.n_fwd == old(ws.n_fwd)"},
        **COMMON)


RECEIVE_TEXT = typed_receive("receive_text", 3, Str)
RECEIVE_BYTES = typed_receive("receive_bytes", 4, Bytes)


def typed_send(name, ptype):
    return Contract(
        id="ws." + name, file=F, qualname="WebSocket." + name, props=["C11"],
        params={"self": SELF_T, "data": ptype},
        raises={"AssertionError": "self.application_state == 1", "RuntimeError": "self.application_state == 3"},
        raises_ensures={"AssertionError": {"ensures": ["untouched()", "I()"]}, "RuntimeError": {"ensures": ["untouched()", "I()"]}},
        ensures={"I": "I()", "monotone": "monotone()", "forwarded_once": "ws.n_fwd == old(ws.n_fwd) + 1 and ws.cursor == old(ws.cursor)",
                 "state": "self.application_state == 2"},
        **COMMON)


SEND_TEXT = typed_send("send_text", Str)
SEND_BYTES = typed_send("send_bytes", Bytes)


def iter_yield(ev, v, node):
    """iter_text / iter_bytes yield the frames; nothing to check beyond the callee contracts"""
    return None


def iter_contract(name):
    return Contract(
        id="ws." + name, file=F, qualname="WebSocket." + name, props=["C11"], generator=True,
        params={"self": SELF_T}, on_yield=iter_yield,
        raises={"AssertionError": "True", "RuntimeError": "True"},
        raises_ensures={"AssertionError": {"ensures": ["I()", "ws.n_fwd == old(ws.n_fwd)"]},
                        "RuntimeError": {"ensures": ["I()", "ws.n_fwd == old(ws.n_fwd)"]}},
        ensures={"I": "I()", "monotone": "monotone()", "nothing_forwarded": "ws.n_fwd == old(ws.n_fwd)",
                 "ends_on_disconnect": "self.client_state == 3"},
        invariants={1: ["I()", "legal_script()", "ws.n_fwd == old(ws.n_fwd)", "old(self.client_state) <= self.client_state",
                        "old(self.application_state) <= self.application_state"]},
        **COMMON)


ITER_TEXT = iter_contract("iter_text")
ITER_BYTES = iter_contract("iter_bytes")

INIT = Contract(
    id="ws.__init__", file=F, qualname="WebSocket.__init__", props=["C11"],
    params={"self": ObjT(WS), "scope": Dict(type=Str), "receive": TFunc(server_receive, "_receive"), "send": TFunc(server_send, "_send")},
    ghosts=GHOST, defs=DEFS,
    requires=["ws.cursor == 0 and ws.fwd == 1 and ws.n_fwd == 0 and ws.n_recv == 0 and not ws.disc", "legal_script()"],
    raises={"AssertionError": "scope['type'] != 'websocket'"},
    ensures={"I": "I()", "connecting": "self.client_state == 1 and self.application_state == 1"},
    stubs={"super().__init__": lambda ev, a, k, n: _conn_init(ev, a)},
    frame_check=False,
)


def _conn_init(ev, args):
    """HTTPConnection.__init__ (baize/asgi/requests.py): stores scope, receive, send"""
    self_v = ev.frame.lookup("self")
    o = ev.st.obj(self_v)
    o.fields["_scope"], o.fields["_receive"], o.fields["_send"] = args[0], args[1], args[2]
    return NONE


RAISE_ON_DISCONNECT = Contract(id="ws._raise_on_disconnect", file=F, qualname="WebSocket._raise_on_disconnect", inline=True,
                               notes="2-line helper, executed inline")
WSD_INIT = Contract(id="exc.WebSocketDisconnect", file=F, qualname="WebSocketDisconnect.__init__", inline=True,
                    notes="exception constructor, executed inline")


def register(reg):
    for c in (RECEIVE, SEND, ACCEPT, CLOSE, RECEIVE_TEXT, RECEIVE_BYTES, SEND_TEXT, SEND_BYTES, ITER_TEXT, ITER_BYTES, INIT,
              RAISE_ON_DISCONNECT, WSD_INIT):
        reg.add(c)


# ----- replay of counter-models: the wrapper is put into the modelled state, the script continues from the cursor
def _m2i(op):
    def m2i(m):
        n = int(m.get("script.len", 0))
        if not (0 <= n <= 8):
            raise ValueError("script too long to replay")
        script = []
        for i in range(n):
            t = m.get("script[%d][0]" % i, "")
            d = {"type": t}
            if t == "websocket.receive":
                d["text"] = m.get("script[%d][3]" % i, "")
                d["bytes"] = m.get("script[%d][4]" % i, "").encode("latin-1")
            if t == "websocket.disconnect":
                d["code"] = int(m.get("script[%d][1]" % i, 1000))
                d["reason"] = m.get("script[%d][2]" % i, "")
            script.append(d)
        ops = [op]
        if op == "send":
            return None
        return {"script": script, "ops": ops,
                "init": {"cursor": int(m.get("ws.cursor", 0)), "client": int(m.get("self.client_state", 1)),
                         "app": int(m.get("self.application_state", 1)), "fwd": int(m.get("ws.fwd", 1))}}
    return m2i


def _send_m2i(m):
    base = _m2i("x")(m)
    t = m.get("message['type']", "")
    op = {"websocket.accept": "raw_accept", "websocket.send": "raw_send", "websocket.close": "raw_close"}.get(t)
    if op is None:
        raise ValueError("message type %r has no native operation" % t)
    base["ops"] = [op]
    return base


for _c, _op in ((RECEIVE, "receive"), (ACCEPT, "accept"), (CLOSE, "close"), (RECEIVE_TEXT, "receive_text"),
                (RECEIVE_BYTES, "receive_bytes"), (SEND_TEXT, "send_text"), (SEND_BYTES, "send_bytes"), (ITER_TEXT, "iter_text")):
    _c.model_to_inputs = _m2i(_op)
    _c.native = ("c11", "replay")
SEND.model_to_inputs = _send_m2i
SEND.native = ("c11", "replay")
