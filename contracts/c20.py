"""C20 -- middleware transparency: wsgi.middleware.ensure_next (body relay)."""
import z3

from pyvc.contract import Contract
from pyvc.stubs import USED
from pyvc.values import *  # noqa
from pyvc.engine import PyRaise, Unsupported

WM = "baize/wsgi/middleware.py"
ITEMS = List(Bytes)


def iterable_iter(ev, recv, args, kwargs, node):
    """iterable.__iter__(): a NEW iterator at position 0 (a list/tuple can be iterated again; a generator returns itself:
    modelled by the `reiterable` flag)"""
    st = ev.st
    o = st.obj(recv)
    g = st.obj(st.ghost["it"])
    g.fields["n_iter"] = VInt(g.fields["n_iter"].t + 1)
    if st.decide(o.fields["reiterable"].t):
        return st.alloc(Obj("Iterator", {"src": recv, "pos": VInt(0)}))
    # one-shot iterable (generator): every __iter__() is the same underlying cursor
    if "shared" not in o.fields:
        o.fields["shared"] = st.alloc(Obj("Iterator", {"src": recv, "pos": VInt(0)}))
    return o.fields["shared"]


iterable_iter.mods = ("it",)


def iterator_next(ev, recv, args, kwargs, node):
    st = ev.st
    it = st.obj(recv)
    src = st.obj(it.fields["src"])
    items = st.obj(src.fields["items"])
    pos = it.fields["pos"].t
    if not st.decide(pos < items.length):
        raise PyRaise("StopIteration", None, getattr(node, "lineno", 0))
    it.fields["pos"] = VInt(pos + 1)
    return ev.list_get(items, pos)


iterator_next.mods = ()


def relay_yield(ev, v, node):
    st = ev.st
    outs = st.obj(st.ghost["outs"])
    ev.list_append(outs, v)


def relay_yield_from(ev, v, node):
    """yield from <iterator or iterable>: every remaining item, in order"""
    st = ev.st
    outs = st.obj(st.ghost["outs"])
    o = st.obj(v)
    if o.cls == "Iterable":
        v = iterable_iter(ev, v, [], {}, node)
        o = st.obj(v)
    src = st.obj(o.fields["src"])
    items = st.obj(src.fields["items"])
    pos = o.fields["pos"].t
    # outs' = outs ++ items[pos:]
    from pyvc.builtins import list_concat
    from pyvc.engine import mk_quant
    n_rest = z3.If(items.length - pos < 0, 0, items.length - pos)
    name = st.run.fresh_name("rest")
    col = z3.Array(name, z3.IntSort(), z3.StringSort())
    j = z3.Int(st.run.fresh_name("rj"))
    st.assume(mk_quant("forall", [j], col[j] == items.cols[0][j + pos], patterns=[col[j]]))
    rest = st.alloc(ListObj(n_rest, [col], Bytes))
    r = list_concat(ev, st.ghost["outs"], rest)
    ro = st.obj(r)
    outs.length, outs.cols = ro.length, ro.cols
    o.fields["pos"] = VInt(z3.If(pos > items.length, pos, items.length))


def generator_call_model(ev, fv, args, kwargs, node):
    return None


def _empty_outs(ev):
    """ghost initialisation: the output list starts empty"""
    o = ev.st.obj(ev.st.ghost["outs"])
    o.length = z3.IntVal(0)


ENSURE_NEXT = Contract(
    id="wsgi.ensure_next", file=WM, qualname="ensure_next", props=["C20"],
    params={"iterable": ObjT("Iterable", items=ITEMS, reiterable=Bool)},
    ghosts={"outs": ITEMS, "it": ObjT("ItGhost", n_iter=Int)},
    requires=["it.n_iter == 0"],
    setup=lambda ev: _empty_outs(ev),
    stub_methods={("Iterable", "__iter__"): iterable_iter, ("Iterator", "__next__"): iterator_next},
    on_yield=relay_yield, on_yield_from=relay_yield_from, yield_mods=("outs",),
    ghost_modifies=["outs", "it"], frame_check=False,
    raises={},
    ensures={
        # what the returned iterable yields (the nested generator is run to completion: A-gen-eager) is exactly the
        # inner application's items: each once, in order - also for lists/tuples that can be iterated again
        "relays_exactly": "outs == iterable.items",
    },
    canaries={"drops_all": "len(outs) == 0"},
    assumptions=["A-gen-eager"],
    notes="the inner body iterable is abstract: a finite item list that is either re-iterable (list/tuple: every __iter__() "
          "starts again) or one-shot (generator); the returned generator's output is collected on a ghost list",
)


def register(reg):
    reg.add(ENSURE_NEXT)
