"""C20 -- middleware transparency: wsgi.middleware.ensure_next (body relay)."""
import z3

from pyvc.contract import Contract
from pyvc.stubs import USED
from pyvc.values import *  # noqa
from pyvc.engine import PyRaise, Unsupported

WM = "baize/wsgi/middleware.py"
ITEMS = List(Bytes)


def iterable_iter(ev, recv, args, kwargs, node):
    """iterable.__iter__(): a NEW iterator at position 0 (a list/tuple can be iterated again; a generator returns itself:
    modelled by the `reiterable` flag)"""
    st = ev.st
    o = st.obj(recv)
    g = st.obj(st.ghost["it"])
    g.fields["n_iter"] = VInt(g.fields["n_iter"].t + 1)
    if st.decide(o.fields["reiterable"].t):
        return st.alloc(Obj("Iterator", {"src": recv, "pos": VInt(0)}))
    # one-shot iterable (generator): every __iter__() is the same underlying cursor
    if "shared" not in o.fields:
        o.fields["shared"] = st.alloc(Obj("Iterator", {"src": recv, "pos": VInt(0)}))
    return o.fields["shared"]


iterable_iter.mods = ("it",)


REST = z3.Function("rest_from", z3.IntSort(), z3.StringSort())
# rest_from(p) = the concatenation of items[p:], defined by recursion on len(items) - p:
#   rest_from(p) == b""                            for p >= len(items)
#   rest_from(p) == items[p] + rest_from(p + 1)    for 0 <= p < len(items)
# Only ground instances of these two defining equations are used (added where an iterator is advanced / exhausted),
# so no quantifier reaches the solver.  The body of the inner iterable is rest_from(0).


def _unfold(st, items, pos):
    st.assume(z3.Implies(z3.And(pos >= 0, pos < items.length), REST(pos) == z3.Concat(items.cols[0][pos], REST(pos + 1))))
    st.assume(z3.Implies(pos >= items.length, REST(pos) == z3.StringVal("")))


def iterator_next(ev, recv, args, kwargs, node):
    st = ev.st
    it = st.obj(recv)
    src = st.obj(it.fields["src"])
    items = st.obj(src.fields["items"])
    pos = it.fields["pos"].t
    _unfold(st, items, pos)
    if not st.decide(pos < items.length):
        raise PyRaise("StopIteration", None, getattr(node, "lineno", 0))
    it.fields["pos"] = VInt(pos + 1)
    return ev.list_get(items, pos)


iterator_next.mods = ()


def relay_yield(ev, v, node):
    st = ev.st
    st.ghost["outb"] = VStr(z3.Concat(st.ghost["outb"].t, v.t), True)
    g = st.obj(st.ghost["it"])
    g.fields["n_chunks"] = VInt(g.fields["n_chunks"].t + 1)


def relay_yield_from(ev, v, node):
    """yield from <iterator or iterable>: every remaining item, in order"""
    st = ev.st
    o = st.obj(v)
    if o.cls == "Iterable":
        v = iterable_iter(ev, v, [], {}, node)
        o = st.obj(v)
    src = st.obj(o.fields["src"])
    items = st.obj(src.fields["items"])
    pos = o.fields["pos"].t
    _unfold(st, items, pos)
    st.ghost["outb"] = VStr(z3.Concat(st.ghost["outb"].t, REST(pos)), True)
    o.fields["pos"] = VInt(z3.If(pos > items.length, pos, items.length))


def _setup(ev):
    """ghost initialisation: nothing emitted yet; with a concrete item count (bounded refuter) rest_from is unfolded
    completely so that models are concrete"""
    st = ev.st
    st.ghost["outb"] = VStr(b"")
    it = ev.frame.lookup("iterable")
    items = st.obj(st.obj(it).fields["items"])
    n = z3.simplify(items.length)
    if z3.is_int_value(n):
        for p in range(n.as_long() + 1):
            _unfold(st, items, z3.IntVal(p))
    else:
        _unfold(st, items, z3.IntVal(0))


def _m2i(m):
    n = max(0, min(int(m.get("iterable.items.len", 0)), 8))
    return {"items": [m.get("iterable.items[%d]" % i, "") for i in range(n)], "reiterable": bool(m.get("iterable.reiterable", True))}


ENSURE_NEXT = Contract(
    id="wsgi.ensure_next", file=WM, qualname="ensure_next", props=["C20"],
    params={"iterable": ObjT("Iterable", items=ITEMS, reiterable=Bool)},
    ghosts={"outb": Bytes, "it": ObjT("ItGhost", n_iter=Int, n_chunks=Int)},
    requires=["it.n_iter == 0", "it.n_chunks == 0"],
    setup=_setup, ufuncs={"rest_from": ([Int], Bytes)},
    stub_methods={("Iterable", "__iter__"): iterable_iter, ("Iterator", "__next__"): iterator_next},
    on_yield=relay_yield, on_yield_from=relay_yield_from, yield_mods=("outb", "it"),
    ghost_modifies=["outb", "it"], frame_check=False,
    raises={},
    ensures={
        # the statement: "the same body bytes as the bare application".  What the returned iterable yields (the nested
        # generator is run to completion: A-gen-eager) concatenates to exactly the inner application's body - also for
        # lists/tuples that can be iterated again.  (Chunk boundaries are not part of the statement.)
        "relays_body_bytes": "outb == rest_from(0)",
    },
    canaries={"drops_all": "outb == b''"},
    assumptions=["A-gen-eager"],
    model_to_inputs=_m2i, native=("c20", "replay_ensure_next"),
    notes="the inner body iterable is abstract: a finite item list that is either re-iterable (list/tuple: every __iter__() "
          "starts again) or one-shot (generator); the bytes produced by the returned iterable are collected on a ghost string; "
          "rest_from(p) is the concatenation of items[p:] (ground instances of its recursive definition only)",
)


# --------------------------------------------------------------------------- NextResponse.from_app (WSGI)
from pyvc.builtins import call_value
from contracts.hdrs import HD, MH

PAIRS = List(Tup(Str, Str))
APP_GHOST = ObjT("AppGhost", n_app=Int, n_start=Int, lazy=Bool, status=Str)


def _call_start_response(ev, node):
    """the inner application calls start_response(status, headers) - exactly once (PEP 3333; A-wsgi-app)"""
    st = ev.st
    g = st.obj(st.ghost["ag"])
    g.fields["n_start"] = VInt(g.fields["n_start"].t + 1)
    call_value(ev, st.ghost["_start_response"], [g.fields["status"], st.ghost["hl"]], {}, node)


def inner_app_stub(ev, args, kwargs, node):
    """app(request, start_response): an arbitrary WSGI application (A-wsgi-app).  It calls start_response once - before it
    returns (ordinary function) or when its result is first advanced (generator function: `lazy`) - and returns an
    iterable of byte strings (re-iterable list/tuple or one-shot iterator)."""
    USED.add("A-wsgi-app")
    st = ev.st
    g = st.obj(st.ghost["ag"])
    g.fields["n_app"] = VInt(g.fields["n_app"].t + 1)
    st.ghost["_start_response"] = args[1]
    if not st.decide(g.fields["lazy"].t):
        _call_start_response(ev, node)
    return st.ghost["body"]


inner_app_stub.mods = ("ag",)


def lazy_iterator_next(ev, recv, args, kwargs, node):
    """advancing a generator-function application for the first time runs it up to its first yield: that is where it
    calls start_response"""
    st = ev.st
    g = st.obj(st.ghost["ag"])
    if st.decide(z3.And(g.fields["lazy"].t, g.fields["n_start"].t == 0)):
        _call_start_response(ev, node)
    return iterator_next(ev, recv, args, kwargs, node)


lazy_iterator_next.mods = ("ag",)


def _from_app_setup(ev):
    st = ev.st
    st.ghost["outb"] = VStr(b"")
    items = st.obj(st.obj(st.ghost["body"]).fields["items"])
    n = z3.simplify(items.length)
    if z3.is_int_value(n):
        for p in range(n.as_long() + 1):
            _unfold(st, items, z3.IntVal(p))
    else:
        _unfold(st, items, z3.IntVal(0))


FA_DEFS = {
    "code_text()": "ag.status[:ag.status.find(' ')]",
    "unique_at(i)": "forall(j, 0, len(hl), implies(j != i, lower(hl[j][0]) != lower(hl[i][0])))",
}

FROM_APP = Contract(
    id="wsgi.NextResponse.from_app", file=WM, qualname="NextResponse.from_app", props=["C20"],
    params={"cls": Opaque("Class"), "app": TFunc(inner_app_stub, "app"), "request": Opaque("NextRequest")},
    ghosts={"ag": APP_GHOST, "hl": PAIRS, "body": ObjT("Iterable", items=ITEMS, reiterable=Bool),
            "outb": Bytes, "it": ObjT("ItGhost", n_iter=Int, n_chunks=Int)},
    requires=["ag.n_app == 0", "ag.n_start == 0", "it.n_iter == 0", "it.n_chunks == 0",
              # PEP 3333: the status is '<code> <reason phrase>' with a numeric code
              "has(ag.status, ' ') and int_ok(code_text())",
              # a generator-function application is a one-shot iterator
              "implies(ag.lazy, not body.reiterable)"],
    setup=_from_app_setup, defs=FA_DEFS,
    ufuncs={"rest_from": ([Int], Bytes), "int_ok": ([Str], Bool), "int_of": ([Str], Int)},
    stub_methods={("Iterable", "__iter__"): iterable_iter, ("Iterator", "__next__"): lazy_iterator_next},
    on_yield=relay_yield, on_yield_from=relay_yield_from, yield_mods=("outb", "it"),
    ghost_modifies=["outb", "it", "ag"], frame_check=False,
    inline_callees=("wsgi.ensure_next",),
    raises={},
    ensures={
        "app_ran_once": "ag.n_app == 1",
        # the response object is built only after the application has called start_response (a generator-function
        # application does so when ensure_next advances it)
        "started_before_return": "ag.n_start == 1",
        "status": "result.status_code == int_of(code_text())",
        "header_names": "forall((k, Str), has(result.headers._dict, k) == exists(i, 0, len(hl), lower(hl[i][0]) == k))",
        "header_values": "forall(i, 0, len(hl), implies(unique_at(i), result.headers._dict[lower(hl[i][0])] == hl[i][1]))",
        "body_bytes": "outb == rest_from(0)",
    },
    canaries={"never_started": "ag.n_start == 0"},
    assumptions=["A-gen-eager", "A-wsgi-app", "A-abc-1", "A-int-1"],
    notes="the inner application is abstract (status string, header pair list, chunk list, eager or generator-style); "
          "ensure_next is executed inline so that advancing a generator-style application is where start_response happens; "
          "header names that occur several times are folded by Headers.__init__ (the known finding of C20)",
)

S_INIT = Contract(id="wsgi.StreamingResponse.__init__", file="baize/wsgi/responses.py", qualname="StreamingResponse.__init__",
                  inline=True, props=["C20"], notes="3-line constructor, executed inline")


def register(reg):
    reg.add(ENSURE_NEXT)
    reg.add(FROM_APP)
    reg.add(S_INIT)
