"""C20 -- middleware transparency: wsgi.middleware.ensure_next (body relay)."""
import z3

from pyvc.contract import Contract
from pyvc.stubs import USED
from pyvc.values import *  # noqa
from pyvc.engine import PyRaise, Unsupported

WM = "baize/wsgi/middleware.py"
ITEMS = List(Bytes)


def iterable_iter(ev, recv, args, kwargs, node):
    """iterable.__iter__(): a NEW iterator at position 0 (a list/tuple can be iterated again; a generator returns itself:
    modelled by the `reiterable` flag)"""
    st = ev.st
    o = st.obj(recv)
    g = st.obj(st.ghost["it"])
    g.fields["n_iter"] = VInt(g.fields["n_iter"].t + 1)
    if st.decide(o.fields["reiterable"].t):
        return st.alloc(Obj("Iterator", {"src": recv, "pos": VInt(0)}))
    # one-shot iterable (generator): every __iter__() is the same underlying cursor
    if "shared" not in o.fields:
        o.fields["shared"] = st.alloc(Obj("Iterator", {"src": recv, "pos": VInt(0)}))
    return o.fields["shared"]


iterable_iter.mods = ("it",)


REST = z3.Function("rest_from", z3.IntSort(), z3.StringSort())
# rest_from(p) = the concatenation of items[p:], defined by recursion on len(items) - p:
#   rest_from(p) == b""                            for p >= len(items)
#   rest_from(p) == items[p] + rest_from(p + 1)    for 0 <= p < len(items)
# Only ground instances of these two defining equations are used (added where an iterator is advanced / exhausted),
# so no quantifier reaches the solver.  The body of the inner iterable is rest_from(0).


def _unfold(st, items, pos):
    st.assume(z3.Implies(z3.And(pos >= 0, pos < items.length), REST(pos) == z3.Concat(items.cols[0][pos], REST(pos + 1))))
    st.assume(z3.Implies(pos >= items.length, REST(pos) == z3.StringVal("")))


def iterator_next(ev, recv, args, kwargs, node):
    st = ev.st
    it = st.obj(recv)
    src = st.obj(it.fields["src"])
    items = st.obj(src.fields["items"])
    pos = it.fields["pos"].t
    _unfold(st, items, pos)
    if not st.decide(pos < items.length):
        raise PyRaise("StopIteration", None, getattr(node, "lineno", 0))
    it.fields["pos"] = VInt(pos + 1)
    return ev.list_get(items, pos)


iterator_next.mods = ()


def relay_yield(ev, v, node):
    st = ev.st
    st.ghost["outb"] = VStr(z3.Concat(st.ghost["outb"].t, v.t), True)
    g = st.obj(st.ghost["it"])
    g.fields["n_chunks"] = VInt(g.fields["n_chunks"].t + 1)


def relay_yield_from(ev, v, node):
    """yield from <iterator or iterable>: every remaining item, in order"""
    st = ev.st
    o = st.obj(v)
    if o.cls == "Iterable":
        v = iterable_iter(ev, v, [], {}, node)
        o = st.obj(v)
    src = st.obj(o.fields["src"])
    items = st.obj(src.fields["items"])
    pos = o.fields["pos"].t
    _unfold(st, items, pos)
    st.ghost["outb"] = VStr(z3.Concat(st.ghost["outb"].t, REST(pos)), True)
    o.fields["pos"] = VInt(z3.If(pos > items.length, pos, items.length))


def _setup(ev):
    """ghost initialisation: nothing emitted yet; with a concrete item count (bounded refuter) rest_from is unfolded
    completely so that models are concrete"""
    st = ev.st
    st.ghost["outb"] = VStr(b"")
    it = ev.frame.lookup("iterable")
    items = st.obj(st.obj(it).fields["items"])
    n = z3.simplify(items.length)
    if z3.is_int_value(n):
        for p in range(n.as_long() + 1):
            _unfold(st, items, z3.IntVal(p))
    else:
        _unfold(st, items, z3.IntVal(0))


def _m2i(m):
    n = max(0, min(int(m.get("iterable.items.len", 0)), 8))
    return {"items": [m.get("iterable.items[%d]" % i, "") for i in range(n)], "reiterable": bool(m.get("iterable.reiterable", True))}


ENSURE_NEXT = Contract(
    id="wsgi.ensure_next", file=WM, qualname="ensure_next", props=["C20"],
    params={"iterable": ObjT("Iterable", items=ITEMS, reiterable=Bool)},
    ghosts={"outb": Bytes, "it": ObjT("ItGhost", n_iter=Int, n_chunks=Int)},
    requires=["it.n_iter == 0", "it.n_chunks == 0"],
    setup=_setup, ufuncs={"rest_from": ([Int], Bytes)},
    stub_methods={("Iterable", "__iter__"): iterable_iter, ("Iterator", "__next__"): iterator_next},
    on_yield=relay_yield, on_yield_from=relay_yield_from, yield_mods=("outb", "it"),
    ghost_modifies=["outb", "it"], frame_check=False,
    raises={},
    ensures={
        # the statement: "the same body bytes as the bare application".  What the returned iterable yields (the nested
        # generator is run to completion: A-gen-eager) concatenates to exactly the inner application's body - also for
        # lists/tuples that can be iterated again.  (Chunk boundaries are not part of the statement.)
        "relays_body_bytes": "outb == rest_from(0)",
    },
    canaries={"drops_all": "outb == b''"},
    assumptions=["A-gen-eager"],
    model_to_inputs=_m2i, native=("c20", "replay_ensure_next"),
    notes="the inner body iterable is abstract: a finite item list that is either re-iterable (list/tuple: every __iter__() "
          "starts again) or one-shot (generator); the bytes produced by the returned iterable are collected on a ghost string; "
          "rest_from(p) is the concatenation of items[p:] (ground instances of its recursive definition only)",
)


# --------------------------------------------------------------------------- NextResponse.from_app (WSGI)
from pyvc.builtins import call_value
from contracts.hdrs import HD, MH

PAIRS = List(Tup(Str, Str))
APP_GHOST = ObjT("AppGhost", n_app=Int, n_start=Int, lazy=Bool, status=Str)


def _call_start_response(ev, node):
    """the inner application calls start_response(status, headers) - exactly once (PEP 3333; A-wsgi-app)"""
    st = ev.st
    g = st.obj(st.ghost["ag"])
    g.fields["n_start"] = VInt(g.fields["n_start"].t + 1)
    call_value(ev, st.ghost["_start_response"], [g.fields["status"], st.ghost["hl"]], {}, node)


def inner_app_stub(ev, args, kwargs, node):
    """app(request, start_response): an arbitrary WSGI application (A-wsgi-app).  It calls start_response once - before it
    returns (ordinary function) or when its result is first advanced (generator function: `lazy`) - and returns an
    iterable of byte strings (re-iterable list/tuple or one-shot iterator)."""
    USED.add("A-wsgi-app")
    st = ev.st
    g = st.obj(st.ghost["ag"])
    g.fields["n_app"] = VInt(g.fields["n_app"].t + 1)
    st.ghost["_start_response"] = args[1]
    if not st.decide(g.fields["lazy"].t):
        _call_start_response(ev, node)
    return st.ghost["body"]


inner_app_stub.mods = ("ag",)


def lazy_iterator_next(ev, recv, args, kwargs, node):
    """advancing a generator-function application for the first time runs it up to its first yield: that is where it
    calls start_response"""
    st = ev.st
    g = st.obj(st.ghost["ag"])
    if st.decide(z3.And(g.fields["lazy"].t, g.fields["n_start"].t == 0)):
        _call_start_response(ev, node)
    return iterator_next(ev, recv, args, kwargs, node)


lazy_iterator_next.mods = ("ag",)


def _from_app_setup(ev):
    st = ev.st
    st.ghost["outb"] = VStr(b"")
    items = st.obj(st.obj(st.ghost["body"]).fields["items"])
    n = z3.simplify(items.length)
    if z3.is_int_value(n):
        for p in range(n.as_long() + 1):
            _unfold(st, items, z3.IntVal(p))
    else:
        _unfold(st, items, z3.IntVal(0))


FA_DEFS = {
    "code_text()": "ag.status[:ag.status.find(' ')]",
    "unique_at(i)": "forall(j, 0, len(hl), implies(j != i, lower(hl[j][0]) != lower(hl[i][0])))",
    "unclean(s)": "has(s, '\\n') or has(s, '\\r') or has(s, '\\0')",
}

FROM_APP = Contract(
    id="wsgi.NextResponse.from_app", file=WM, qualname="NextResponse.from_app", props=["C20"],
    params={"cls": Opaque("Class"), "app": TFunc(inner_app_stub, "app"), "request": Opaque("NextRequest")},
    ghosts={"ag": APP_GHOST, "hl": PAIRS, "body": ObjT("Iterable", items=ITEMS, reiterable=Bool),
            "outb": Bytes, "it": ObjT("ItGhost", n_iter=Int, n_chunks=Int)},
    requires=["ag.n_app == 0", "ag.n_start == 0", "it.n_iter == 0", "it.n_chunks == 0",
              # PEP 3333: the status is '<code> <reason phrase>' with a numeric code
              "has(ag.status, ' ') and int_ok(code_text())",
              # a generator-function application is a one-shot iterator
              "implies(ag.lazy, not body.reiterable)"],
    setup=_from_app_setup, defs=FA_DEFS,
    ufuncs={"rest_from": ([Int], Bytes), "int_ok": ([Str], Bool), "int_of": ([Str], Int)},
    stub_methods={("Iterable", "__iter__"): iterable_iter, ("Iterator", "__next__"): lazy_iterator_next},
    on_yield=relay_yield, on_yield_from=relay_yield_from, yield_mods=("outb", "it"),
    ghost_modifies=["outb", "it", "ag"], frame_check=False,
    inline_callees=("wsgi.ensure_next",),
    # the response's header mapping refuses CR / LF / NUL (PEP 3333 forbids them in an application's headers anyway)
    raises={"ValueError": "exists(i, 0, len(hl), unclean(hl[i][0]) or unclean(hl[i][1]))"},
    ensures={
        "app_ran_once": "ag.n_app == 1",
        # the response object is built only after the application has called start_response (a generator-function
        # application does so when ensure_next advances it)
        "started_before_return": "ag.n_start == 1",
        "status": "result.status_code == int_of(code_text())",
        "header_names": "forall((k, Str), has(result.headers._dict, k) == exists(i, 0, len(hl), lower(hl[i][0]) == k))",
        "header_values": "forall(i, 0, len(hl), implies(unique_at(i), result.headers._dict[lower(hl[i][0])] == hl[i][1]))",
        "body_bytes": "outb == rest_from(0)",
    },
    canaries={"never_started": "ag.n_start == 0"},
    assumptions=["A-gen-eager", "A-wsgi-app", "A-abc-1", "A-int-1"],
    notes="the inner application is abstract (status string, header pair list, chunk list, eager or generator-style); "
          "ensure_next is executed inline so that advancing a generator-style application is where start_response happens; "
          "header names that occur several times are folded by Headers.__init__ (the known finding of C20)",
)

S_INIT = Contract(id="wsgi.StreamingResponse.__init__", file="baize/wsgi/responses.py", qualname="StreamingResponse.__init__",
                  inline=True, props=["C20"], notes="3-line constructor, executed inline")


# --------------------------------------------------------------------------- ASGI: CachedStream, from_app.send, render_stream
AM = "baize/asgi/middleware.py"
from pyvc import stubs as _stubs
SPOOL_T = ObjT("SpooledTemporaryFile", content=Bytes, pos=Int)
CS_T = ObjT(AM + ":CachedStream", _buffer=SPOOL_T, _pushed_eof=Bool)


def spool_write(ev, recv, args, kwargs, node):
    """SpooledTemporaryFile.write(b) at the end of the file: the file content grows by b (A-spool-1)"""
    USED.add("A-spool-1")
    o = ev.st.obj(recv)
    ev.st.oblige("%s/spool.write_at_end" % ev.frame.root().contract.id, o.fields["pos"].t == z3.Length(o.fields["content"].t),
                 note="writes only happen while the position is at the end (no write after the rewind)", line=getattr(node, "lineno", 0))
    o.fields["content"] = VStr(z3.Concat(o.fields["content"].t, args[0].t), True)
    o.fields["pos"] = VInt(z3.Length(o.fields["content"].t))
    return VInt(z3.Length(args[0].t))


def spool_seek(ev, recv, args, kwargs, node):
    USED.add("A-spool-1")
    o = ev.st.obj(recv)
    o.fields["pos"] = args[0]
    return args[0]


def spool_read(ev, recv, args, kwargs, node):
    """read(n): the next at most n bytes (A-spool-1: the file returns what was written)"""
    USED.add("A-spool-1")
    o = ev.st.obj(recv)
    c, p, n = o.fields["content"].t, o.fields["pos"].t, args[0].t
    r = z3.SubString(c, p, n)
    o.fields["pos"] = VInt(p + z3.Length(r))
    return VStr(r, True)


SPOOL_STUBS = {("SpooledTemporaryFile", "write"): spool_write, ("SpooledTemporaryFile", "seek"): spool_seek,
               ("SpooledTemporaryFile", "read"): spool_read}
CS_REQ = ["0 <= self._buffer.pos and self._buffer.pos <= len(self._buffer.content)"]

CS_PUSH = Contract(
    id="asgi.CachedStream.push", file=AM, qualname="CachedStream.push", props=["C20"],
    params={"self": CS_T, "chunk": Bytes}, stub_methods=SPOOL_STUBS, stubs={"run_in_threadpool": _stubs.run_in_threadpool},
    requires=CS_REQ + ["implies(not self._pushed_eof, self._buffer.pos == len(self._buffer.content))"],
    modifies=["self._buffer.content", "self._buffer.pos"],
    raises={"RuntimeError": "self._pushed_eof"},
    raises_ensures={"RuntimeError": {"ensures": ["self._buffer.content == old(self._buffer.content)"]}},
    ensures={"appended": "self._buffer.content == old(self._buffer.content) + chunk",
             "at_end": "self._buffer.pos == len(self._buffer.content)", "open": "not self._pushed_eof"},
    assumptions=["A-spool-1", "A-conc-1"])

CS_EOF = Contract(
    id="asgi.CachedStream.push_eof", file=AM, qualname="CachedStream.push_eof", props=["C20"],
    params={"self": CS_T}, stub_methods=SPOOL_STUBS, requires=CS_REQ, stubs={"run_in_threadpool": _stubs.run_in_threadpool},
    modifies=["self._buffer.pos", "self._pushed_eof"], raises={},
    ensures={"rewound": "self._buffer.pos == 0", "closed": "self._pushed_eof",
             "content_kept": "self._buffer.content == old(self._buffer.content)"},
    assumptions=["A-spool-1", "A-conc-1"])

CS_NEXT = Contract(
    id="asgi.CachedStream.__anext__", file=AM, qualname="CachedStream.__anext__", props=["C20"],
    params={"self": CS_T}, returns=Bytes, stub_methods=SPOOL_STUBS, requires=CS_REQ, stubs={"run_in_threadpool": _stubs.run_in_threadpool},
    modifies=["self._buffer.pos"],
    raises={"StopAsyncIteration": "self._buffer.pos >= len(self._buffer.content)"},
    raises_ensures={"StopAsyncIteration": {"ensures": ["self._buffer.pos == old(self._buffer.pos)"]}},
    ensures={
        # the next block: at most 64 KiB, never empty, read position advanced by exactly what is returned
        "block": "result == old(self._buffer.content[self._buffer.pos:self._buffer.pos + 65536]) and result != b''",
        "advanced": "self._buffer.pos == old(self._buffer.pos) + len(result) and self._buffer.pos <= len(self._buffer.content)",
        "more_was_there": "old(self._buffer.pos) < len(self._buffer.content)",
    },
    assumptions=["A-spool-1", "A-conc-1"])


def rs_yield(ev, v, node):
    st = ev.st
    st.ghost["outb"] = VStr(z3.Concat(st.ghost["outb"].t, v.t), True)


A_RENDER = Contract(
    id="asgi.NextResponse.render_stream", file=AM, qualname="NextResponse.render_stream", props=["C20"], generator=True,
    params={"self": ObjT(AM + ":NextResponse", iterable=CS_T)}, ghosts={"outb": Bytes},
    requires=["outb == b''", "0 <= self.iterable._buffer.pos and self.iterable._buffer.pos <= len(self.iterable._buffer.content)"],
    modifies=["self.iterable._buffer.pos"], ghost_modifies=["outb"], on_yield=rs_yield, yield_mods=("outb",),
    raises={},
    invariants={1: [
        "old(self.iterable._buffer.pos) <= self.iterable._buffer.pos and self.iterable._buffer.pos <= len(self.iterable._buffer.content)",
        "outb == self.iterable._buffer.content[old(self.iterable._buffer.pos):self.iterable._buffer.pos]",
    ]},
    ensures={
        # re-emission: exactly the cached bytes from the read position to the end, in order
        "relays_cached_bytes": "outb == self.iterable._buffer.content[old(self.iterable._buffer.pos):]",
    },
    canaries={"never_emits": "outb == b''"},
    assumptions=["A-spool-1"])

MSG_T = Dict(type=Str, status=Maybe_(Int), headers=Maybe_(List(Tup(Bytes, Bytes))), body=Maybe_(Bytes), more_body=Maybe_(Bool))

A_SEND = Contract(
    id="asgi.NextResponse.from_app.send", file=AM, qualname="NextResponse.from_app.<locals>.send", props=["C20"],
    params={"message": MSG_T, "status_code": Int, "headers": ObjT(HD, _dict=Map(Str, Str)), "body": CS_T},
    requires=["0 <= body._buffer.pos and body._buffer.pos <= len(body._buffer.content)",
              "implies(not body._pushed_eof, body._buffer.pos == len(body._buffer.content))",
              # ASGI: a start message carries its status; header names and values are byte strings (A-asgi-app)
              "implies(message['type'] == 'http.response.start', has(message, 'status'))"],
    defs={"mh()": "message['headers']",
          "unique_at(i)": "forall(j, 0, len(mh()), implies(j != i, lower(mh()[j][0].decode('latin-1')) != lower(mh()[i][0].decode('latin-1'))))"},
    modifies=["body._buffer.content", "body._buffer.pos", "body._pushed_eof"], frame_check=False,
    post_vars=("status_code", "headers"), stubs={"run_in_threadpool": _stubs.run_in_threadpool},
    raises={"RuntimeError": "message['type'] == 'http.response.body' and body._pushed_eof"},
    ensures={
        "start.status": "implies(message['type'] == 'http.response.start', status_code == message['status'])",
        "start.header_names": "implies(message['type'] == 'http.response.start' and has(message, 'headers'), "
                              "forall((k, Str), has(headers._dict, k) == exists(i, 0, len(mh()), lower(mh()[i][0].decode('latin-1')) == k)))",
        "start.header_values": "implies(message['type'] == 'http.response.start' and has(message, 'headers'), "
                               "forall(i, 0, len(mh()), implies(unique_at(i), "
                               "headers._dict[lower(mh()[i][0].decode('latin-1'))] == mh()[i][1].decode('latin-1'))))",
        "start.keeps_body": "implies(message['type'] == 'http.response.start', body._buffer.content == old(body._buffer.content) "
                            "and body._pushed_eof == old(body._pushed_eof))",
        "body.appended": "implies(message['type'] == 'http.response.body', body._buffer.content == old(body._buffer.content) + "
                         "(message['body'] if has(message, 'body') else b''))",
        "body.eof": "implies(message['type'] == 'http.response.body', body._pushed_eof == "
                    "(not (has(message, 'more_body') and message['more_body'])))",
        "body.keeps_head": "implies(message['type'] == 'http.response.body', status_code == old(status_code) and "
                           "headers._dict == old(headers._dict))",
        "other.ignored": "implies(message['type'] != 'http.response.start' and message['type'] != 'http.response.body', "
                         "status_code == old(status_code) and headers._dict == old(headers._dict) and "
                         "body._buffer.content == old(body._buffer.content) and body._pushed_eof == old(body._pushed_eof))",
    },
    canaries={"never_stores": "body._buffer.content == old(body._buffer.content)"},
    assumptions=["A-spool-1", "A-conc-1", "A-asgi-app"],
    notes="the closure that captures the inner application's messages: per message, for every message; status_code / headers "
          "/ body are the enclosing function's variables (given as parameters)",
)

A_SEND.comp_src_trigger = True

# ----- ASGI NextResponse.from_app as a whole: an abstract inner application that sends one start message and then n >= 1
# body messages (the last one ends the body).  The composition over the message sequence is an induction carried out in the
# application stub: the real closure `send` is executed for the start message, for an ARBITRARY non-final body message k under
# the induction hypothesis, and for the final one - base, step and conclusion are obligations like any other.
CAT = z3.Function("cat_upto", z3.IntSort(), z3.StringSort())      # cat_upto(k) = bodies[0] + ... + bodies[k - 1]
AAPP_T = ObjT("AsgiAppGhost", n_app=Int, status=Int, has_headers=Bool, last_has_more_key=Bool)


def _cat_unfold(st, items, k):
    st.assume(z3.Implies(z3.And(k >= 0, k < items.length), CAT(k + 1) == z3.Concat(CAT(k), items.cols[0][k])))


def _body_msg(st, chunk, more, with_more_key=True):
    d = {"type": VStr("http.response.body"), "body": chunk}
    if with_more_key:
        d["more_body"] = VBool(more)
    return st.alloc(DictObj(d))


def asgi_inner_app(ev, args, kwargs, node):
    """app(request, receive, send) (A-asgi-app): sends http.response.start (status, optionally headers) and then the body
    messages bodies[0] .. bodies[n-1], more_body true on all but the last (on the last: false or absent)."""
    USED.add("A-asgi-app")
    st = ev.st
    g = st.obj(st.ghost["am"])
    g.fields["n_app"] = VInt(g.fields["n_app"].t + 1)
    send = args[2]
    cid = ev.frame.root().contract.id
    line = getattr(node, "lineno", 0)
    bodies = st.obj(st.ghost["bodies"])
    n = bodies.length
    start = {"type": VStr("http.response.start"), "status": g.fields["status"]}
    if st.decide(g.fields["has_headers"].t):
        start["headers"] = st.ghost["mh"]
    call_value(ev, send, [st.alloc(DictObj(start))], {}, node)
    # what the start message established: must survive every body message
    sc0, hd0 = ev.frame.lookup("status_code"), ev.frame.lookup("headers")
    hmap0 = st.obj(st.obj(hd0).fields["_dict"])
    has0, val0 = hmap0.has, hmap0.val[0]
    cs = st.obj(ev.frame.lookup("body"))
    buf = st.obj(cs.fields["_buffer"])

    def inv(k):
        return z3.And(buf.fields["content"].t == CAT(k), buf.fields["pos"].t == z3.Length(buf.fields["content"].t),
                      z3.Not(cs.fields["_pushed_eof"].t))

    def head_kept():
        h = ev.frame.lookup("headers")
        m = st.obj(st.obj(h).fields["_dict"])
        same = z3.BoolVal(isinstance(h, VRef) and h.oid == hd0.oid)
        return z3.And(same, ev.frame.lookup("status_code").t == sc0.t, m.has == has0, m.val[0] == val0)

    def havoc_to(k):
        c = st.fresh(Bytes, "cached")
        buf.fields["content"] = c
        buf.fields["pos"] = VInt(z3.Length(c.t))
        cs.fields["_pushed_eof"] = VBool(False)
        st.assume(c.t == CAT(k))

    st.assume(CAT(0) == z3.StringVal(""))
    st.oblige(cid + "/induction.base", inv(z3.IntVal(0)), note="after the start message nothing is cached and the stream is open", line=line)
    if st.decide(n > 1):
        k = st.fresh_int("msg_k")
        st.assume(z3.And(0 <= k, k < n - 1))
        havoc_to(k)
        _cat_unfold(st, bodies, k)
        call_value(ev, send, [_body_msg(st, ev.list_get(bodies, k), True)], {}, node)
        st.oblige(cid + "/induction.step", inv(k + 1), note="a non-final body message appends exactly its bytes and keeps the stream open", line=line)
        st.oblige(cid + "/induction.step.head_kept", head_kept(), note="body messages leave status and headers alone", line=line)
    havoc_to(n - 1)
    _cat_unfold(st, bodies, n - 1)
    call_value(ev, send, [_body_msg(st, ev.list_get(bodies, n - 1), False, with_more_key=st.decide(g.fields["last_has_more_key"].t))], {}, node)
    st.oblige(cid + "/induction.last.head_kept", head_kept(), note="the final body message leaves status and headers alone", line=line)
    return NONE


asgi_inner_app.mods = ("am",)


def _spool_ctor(ev, args, kwargs, node):
    USED.add("A-spool-1")
    return ev.st.alloc(Obj("SpooledTemporaryFile", {"content": VStr(b""), "pos": VInt(0)}))


A_FROM_APP = Contract(
    id="asgi.NextResponse.from_app", file=AM, qualname="NextResponse.from_app", props=["C20"],
    params={"cls": Opaque("Class"), "app": TFunc(asgi_inner_app, "app"), "request": ObjT("NextRequest", _receive=Opaque("Receive"))},
    ghosts={"am": AAPP_T, "mh": List(Tup(Bytes, Bytes)), "bodies": List(Bytes)},
    requires=["am.n_app == 0", "len(bodies) >= 1"],
    defs={"unique_at(i)": "forall(j, 0, len(mh), implies(j != i, lower(mh[j][0].decode('latin-1')) != lower(mh[i][0].decode('latin-1'))))",
          "unclean(s)": "has(s, '\\n') or has(s, '\\r') or has(s, '\\0')"},
    ufuncs={"cat_upto": ([Int], Bytes)},
    stubs={"SpooledTemporaryFile": _spool_ctor, "run_in_threadpool": _stubs.run_in_threadpool},
    stub_methods=SPOOL_STUBS,
    ghost_modifies=["am"], frame_check=False,
    raises={"ValueError": "am.has_headers and exists(i, 0, len(mh), unclean(mh[i][0].decode('latin-1')) or unclean(mh[i][1].decode('latin-1')))"},
    ensures={
        "app_ran_once": "am.n_app == 1",
        "status": "result.status_code == am.status",
        "header_names": "implies(am.has_headers, forall((k, Str), has(result.headers._dict, k) == "
                        "exists(i, 0, len(mh), lower(mh[i][0].decode('latin-1')) == k)))",
        "header_values": "implies(am.has_headers, forall(i, 0, len(mh), implies(unique_at(i), "
                         "result.headers._dict[lower(mh[i][0].decode('latin-1'))] == mh[i][1].decode('latin-1'))))",
        "no_headers": "implies(not am.has_headers, forall((k, Str), not has(result.headers._dict, k)))",
        # the cached stream holds exactly the concatenation of all body messages, is closed and rewound: render_stream
        # (its own contract) then re-emits exactly these bytes
        "body_bytes": "result.iterable._buffer.content == cat_upto(len(bodies)) and result.iterable._pushed_eof and "
                      "result.iterable._buffer.pos == 0",
    },
    canaries={"nothing_cached": "result.iterable._buffer.content == b''"},
    assumptions=["A-asgi-app", "A-spool-1", "A-conc-1", "A-abc-1"],
    notes="the inner application is abstract: a start message and n >= 1 body messages; the induction over the messages is "
          "carried out in the application stub (base / step for an arbitrary non-final message / final message), each part an "
          "obligation on the REAL closure `send`, which is executed inline three times",
)
A_FROM_APP.comp_src_trigger = True
AS_INIT = Contract(id="asgi.StreamingResponse.__init__", file="baize/asgi/responses.py", qualname="StreamingResponse.__init__",
                   inline=True, props=["C20"], notes="3-line constructor, executed inline")
ACS_INIT = Contract(id="asgi.CachedStream.__init__", file=AM, qualname="CachedStream.__init__", inline=True, props=["C20"],
                    notes="2-line constructor, executed inline")

# ----- the WSGI middleware wrapper itself: middleware(handler)(app) == wsgi
NR_T = ObjT(WM + ":NextResponse", status_code=Int, headers=ObjT(MH, _dict=Map(Str, Str)))
FROM_APP.returns = NR_T
EM_T = ObjT("EmitGhost", n=Int, status_code=Int, n_handler=Int, same_request=Bool)


def identity_handler(ev, args, kwargs, node):
    """handler(request, next_call) of an identity middleware: calls next_call(request) once and returns its result"""
    st = ev.st
    g = st.obj(st.ghost["em"])
    g.fields["n_handler"] = VInt(g.fields["n_handler"].t + 1)
    return call_value(ev, args[1], [args[0]], {}, node)


identity_handler.mods = ("em", "ag", "outb", "it")


def next_request_ctor(ev, args, kwargs, node):
    return VOpaque(z3.Const(ev.st.run.fresh_name("nextreq"), opaque_sort("NextRequest")), "NextRequest")


def next_response_call(ev, recv, args, kwargs, node):
    """response(environ, start_response): recorded (what a StreamingResponse emits for its status / headers / iterable is
    C05 and render_stream; here: it is called once, and it is the response from_app built)"""
    st = ev.st
    g = st.obj(st.ghost["em"])
    g.fields["n"] = VInt(g.fields["n"].t + 1)
    g.fields["status_code"] = st.obj(recv).fields["status_code"]
    st.ghost["em_headers"] = st.obj(recv).fields["headers"]
    return VTuple([])


next_response_call.mods = ("em",)

W_WRAPPER = Contract(
    id="wsgi.middleware.wsgi", file=WM, qualname="middleware.<locals>.d.<locals>.wsgi", props=["C20"], generator=True,
    params={"environ": Opaque("Environ"), "start_response": Opaque("StartResponse"),
            "handler": TFunc(identity_handler, "handler"), "app": TFunc(inner_app_stub, "app")},
    ghosts=dict(FROM_APP.ghosts, em=EM_T, em_headers=ObjT(MH, _dict=Map(Str, Str))),
    requires=list(FROM_APP.requires) + ["em.n == 0 and em.n_handler == 0"],
    setup=_from_app_setup, defs=FA_DEFS, ufuncs=FROM_APP.ufuncs,
    stubs={"NextRequest": next_request_ctor},
    stub_methods={(WM + ":NextResponse", "__call__"): next_response_call},
    on_yield=lambda ev, v, node: None, on_yield_from=lambda ev, v, node: None, yield_mods=(),
    ghost_modifies=["outb", "it", "ag", "em", "em_headers"], frame_check=False,
    raises={"ValueError": FROM_APP.raises["ValueError"]},     # an inner application that emits CR / LF / NUL in a header
    ensures={
        "inner_app_ran_once": "ag.n_app == 1 and ag.n_start == 1 and em.n_handler == 1",
        "response_called_once": "em.n == 1",
        "status_forwarded": "em.status_code == int_of(code_text())",
        "headers_forwarded": "forall((k, Str), has(em_headers._dict, k) == exists(i, 0, len(hl), lower(hl[i][0]) == k)) and "
                             "forall(i, 0, len(hl), implies(unique_at(i), em_headers._dict[lower(hl[i][0])] == hl[i][1]))",
    },
    canaries={"never_calls_the_response": "em.n == 0"},
    assumptions=["A-wsgi-app", "A-gen-eager"],
    notes="the wrapper that middleware(handler)(app) returns, with an identity handler (calls next_call(request) once and returns "
          "its result): from_app enters through its contract; calling the response object is recorded",
)


# ----- the ASGI middleware wrapper: middleware(handler)(app) == asgi
ANR_T = ObjT(AM + ":NextResponse", status_code=Int, headers=ObjT(MH, _dict=Map(Str, Str)), iterable=CS_T)
A_FROM_APP.returns = ANR_T


def a_identity_handler(ev, args, kwargs, node):
    st = ev.st
    g = st.obj(st.ghost["em"])
    g.fields["n_handler"] = VInt(g.fields["n_handler"].t + 1)
    return call_value(ev, args[1], [args[0]], {}, node)


a_identity_handler.mods = ("em", "am")


def a_next_request_ctor(ev, args, kwargs, node):
    return ev.st.alloc(Obj("NextRequest", {"_receive": args[1]}))


def a_next_response_call(ev, recv, args, kwargs, node):
    """await response(scope, receive, send): recorded - which response object, with which status, headers and cached body
    (what a StreamingResponse then emits for them is C05 and render_stream's contract)"""
    st = ev.st
    g = st.obj(st.ghost["em"])
    o = st.obj(recv)
    g.fields["n"] = VInt(g.fields["n"].t + 1)
    g.fields["status_code"] = o.fields["status_code"]
    st.ghost["em_headers"] = o.fields["headers"]
    st.ghost["em_body"] = o.fields["iterable"]
    return NONE


a_next_response_call.mods = ("em",)

A_WRAPPER = Contract(
    id="asgi.middleware.asgi", file=AM, qualname="middleware.<locals>.d.<locals>.asgi", props=["C20"],
    params={"scope": Opaque("Scope"), "receive": Opaque("Receive"), "send": Opaque("Send"),
            "handler": TFunc(a_identity_handler, "handler"), "app": TFunc(asgi_inner_app, "app")},
    ghosts=dict(A_FROM_APP.ghosts, em=EM_T, em_headers=ObjT(MH, _dict=Map(Str, Str)), em_body=CS_T),
    requires=list(A_FROM_APP.requires) + ["em.n == 0 and em.n_handler == 0"],
    defs=A_FROM_APP.defs, ufuncs=A_FROM_APP.ufuncs,
    stubs={"NextRequest": a_next_request_ctor},
    stub_methods={(AM + ":NextResponse", "__call__"): a_next_response_call},
    ghost_modifies=["am", "em", "em_headers", "em_body"], frame_check=False,
    raises={"ValueError": A_FROM_APP.raises["ValueError"]},
    ensures={
        "inner_app_ran_once": "am.n_app == 1 and em.n_handler == 1",
        "response_called_once": "em.n == 1",
        "status_forwarded": "em.status_code == am.status",
        "headers_forwarded": "implies(am.has_headers, forall((k, Str), has(em_headers._dict, k) == exists(i, 0, len(mh), "
                             "lower(mh[i][0].decode('latin-1')) == k)) and forall(i, 0, len(mh), implies(unique_at(i), "
                             "em_headers._dict[lower(mh[i][0].decode('latin-1'))] == mh[i][1].decode('latin-1'))))",
        "body_forwarded": "em_body._buffer.content == cat_upto(len(bodies)) and em_body._pushed_eof and em_body._buffer.pos == 0",
    },
    canaries={"never_calls_the_response": "em.n == 0"},
    assumptions=["A-asgi-app"],
    notes="the wrapper that middleware(handler)(app) returns, with an identity handler: from_app enters through its contract; "
          "calling the response object is recorded (status, header mapping, cached stream)",
)


# ----- view decorators: decorator(handler)(view) == the wrapper `view`
VG_T = ObjT("ViewGhost", n_view=Int, n_handler=Int)


def _inner_view(ev, args, kwargs, node):
    st = ev.st
    g = st.obj(st.ghost["vg"])
    g.fields["n_view"] = VInt(g.fields["n_view"].t + 1)
    g.fields["arg_ok"] = VBool(args[0].t == st.ghost["req"].t) if isinstance(args[0], VOpaque) else VBool(False)
    return st.ghost["resp"]


_inner_view.mods = ("vg",)


def _identity_view_handler(ev, args, kwargs, node):
    st = ev.st
    g = st.obj(st.ghost["vg"])
    g.fields["n_handler"] = VInt(g.fields["n_handler"].t + 1)
    return call_value(ev, args[1], [args[0]], {}, node)


_identity_view_handler.mods = ("vg",)


def _decorator_view(iface):
    rel = "baize/%s/shortcut.py" % iface
    return Contract(
        id="%s.decorator.view" % iface, file=rel, qualname="decorator.<locals>.d.<locals>.view", props=["C20"],
        params={"request": Opaque("Request"), "handler": TFunc(_identity_view_handler, "handler"),
                "next_call": TFunc(_inner_view, "view")},
        ghosts={"vg": ObjT("ViewGhost", n_view=Int, n_handler=Int, arg_ok=Bool), "req": Opaque("Request"), "resp": Opaque("Response")},
        requires=["vg.n_view == 0 and vg.n_handler == 0", "req == request"], returns=Opaque("Response"),
        ghost_modifies=["vg"], frame_check=False, raises={},
        ensures={
            # with an identity handler the decorated view IS the inner view: same request in, the inner response out, once
            "inner_view_ran_once_with_the_request": "vg.n_view == 1 and vg.n_handler == 1 and vg.arg_ok",
            "returns_the_inner_response": "result == resp",
        },
        canaries={"never_runs_the_view": "vg.n_view == 0"},
        notes="the wrapper that decorator(handler)(view) returns, with an identity handler",
    )


DECORATOR_VIEWS = [_decorator_view("wsgi"), _decorator_view("asgi")]


def register(reg):
    reg.add(ENSURE_NEXT)
    for c in DECORATOR_VIEWS:
        reg.add(c)
    reg.add(FROM_APP)
    reg.add(S_INIT)
    for c in (CS_PUSH, CS_EOF, CS_NEXT, A_RENDER, A_SEND, W_WRAPPER, A_FROM_APP, AS_INIT, ACS_INIT, A_WRAPPER):
        reg.add(c)
