"""C09 (mounts, host dispatch) and the first-match part of C08 (router): baize/routing.py, */routing.py."""
import z3

from pyvc.contract import Contract
from pyvc.stubs import USED
from pyvc.values import *  # noqa
from pyvc.builtins import ufunc, S, I, Bz
from pyvc.engine import Unsupported
from contracts import c02, c05

RT = "baize/routing.py"
AR = "baize/asgi/routing.py"
WR = "baize/wsgi/routing.py"

APP = Opaque("App")
ROUTES_T = List(Tup(Str, APP))

SUB_DEFS = {
    "hit(p, path)": "path.startswith(p + '/') or path == p",
    # class invariant established by BaseSubpaths.__init__'s asserts
    "WF(arr)": "forall(k, 0, len(arr), arr[k][0] == '' or (arr[k][0].startswith('/') and not arr[k][0].endswith('/')))",
}

SUBPATHS_INIT = Contract(
    id="BaseSubpaths.__init__", file=RT, qualname="BaseSubpaths.__init__", props=["C09"],
    params={"self": ObjT(RT + ":BaseSubpaths"), "routes": ROUTES_T},
    defs=SUB_DEFS, frame_check=False,
    raises={"AssertionError": "not WF(routes)"},
    ensures={"stored": "self._route_array == routes", "WF": "WF(self._route_array)"},
    invariants={1: ["forall(k, 0, IDX, SEQ[k][0] == '' or (SEQ[k][0].startswith('/') and not SEQ[k][0].endswith('/')))"]},
    notes="`*routes` is modelled as the list of its elements",
)

SUBPATHS_SEARCH = Contract(
    id="BaseSubpaths.search", file=RT, qualname="BaseSubpaths.search", props=["C09"],
    params={"self": ObjT(RT + ":BaseSubpaths", _route_array=ROUTES_T), "path": Str},
    returns=Opt(Tup(Str, APP)),
    defs=SUB_DEFS,
    ensures={
        "miss": "implies(is_none(result), forall(k, 0, len(self._route_array), not hit(self._route_array[k][0], path)))",
        "first_hit": "implies(not is_none(result), exists(k, 0, len(self._route_array), "
                     "result[0] == self._route_array[k][0] and result[1] == self._route_array[k][1] and "
                     "hit(self._route_array[k][0], path) and forall(j, 0, k, not hit(self._route_array[j][0], path))))",
    },
    invariants={1: ["forall(j, 0, IDX, not hit(SEQ[j][0], path))"]},
    canaries={"always_first": "is_none(result) or result[0] == self._route_array[0][0]"},
)


# ----- the sub-application: an opaque callable; the call is recorded on the ghost `calls`
CALLS_T = ObjT("Calls", n=Int, app=APP, root=Str, path=Str, has_params=Bool)


def app_call_asgi(ev, fv, args, kwargs, node):
    st = ev.st
    calls = st.obj(st.ghost["calls"])
    scope = st.obj(args[0])
    calls.fields["n"] = VInt(calls.fields["n"].t + 1)
    calls.fields["app"] = fv
    from pyvc.builtins import Maybe
    rp = scope.items.get("root_path")
    if isinstance(rp, Maybe):
        rp = VStr(z3.If(rp.present, rp.value.t, z3.StringVal("")))
    calls.fields["root"] = rp if rp is not None else VStr("")
    calls.fields["path"] = scope.items["path"] if "path" in scope.items else VStr("")
    return NONE


def app_call_wsgi(ev, fv, args, kwargs, node):
    st = ev.st
    calls = st.obj(st.ghost["calls"])
    env = st.obj(args[0])
    calls.fields["n"] = VInt(calls.fields["n"].t + 1)
    calls.fields["app"] = fv
    from pyvc.builtins import Maybe

    def val(k):
        x = env.items.get(k)
        if isinstance(x, Maybe):
            return VStr(z3.If(x.present, x.value.t, z3.StringVal("")))
        return x if x is not None else VStr("")
    calls.fields["root"] = val("SCRIPT_NAME")
    calls.fields["path"] = val("PATH_INFO")
    return VTuple([])   # an (empty) iterable of bytes; `yield from` over it yields nothing


def app_call(ev, fv, args, kwargs, node):
    """one opaque application sort; the calling convention follows the module being verified"""
    if "/wsgi/" in ev.frame.outermost().relpath:
        return app_call_wsgi(ev, fv, args, kwargs, node)
    return app_call_asgi(ev, fv, args, kwargs, node)


def yield_from_app(ev, v, node):
    return None


A_SCOPE = Dict(type=Str, path=Str, root_path=Maybe_(Str))
SUB_GHOSTS = {"tr": c02.TR_T, "out": c02.OUT_T, "calls": CALLS_T}
CALL_DEFS = dict(c02.A_DEFS)
CALL_DEFS.update(SUB_DEFS)
CALL_DEFS.update({
    "old_root()": "old(scope['root_path'] if has(scope, 'root_path') else '')",
    "some_hit()": "exists(k, 0, len(self._route_array), hit(self._route_array[k][0], old(scope['path'])))",
    "first(k)": "hit(self._route_array[k][0], old(scope['path'])) and forall(j, 0, k, not hit(self._route_array[j][0], old(scope['path'])))",
})

A_SUBPATHS_CALL = Contract(
    id="asgi.Subpaths.__call__", file=AR, qualname="Subpaths.__call__", props=["C09"],
    params={"self": ObjT(AR + ":Subpaths", _route_array=ROUTES_T), "scope": A_SCOPE, "receive": Opaque("Receive"),
            "send": TFunc(c02.send_stub, "send")},
    ghosts=SUB_GHOSTS,
    requires=["WF(self._route_array)", "calls.n == 0", "tr.n_start == 0", "out.n_body == 0", "not out.closed", "out.out_len == 0",
              "scope['type'] != 'lifespan'"],
    defs=CALL_DEFS, ufuncs=c02.HUF,
    modifies=["scope"], ghost_modifies=["tr", "out", "calls"],
    ensures={
        "miss.404": "implies(not some_hit(), tr.n_start == 1 and tr.code == 404 and out.closed and calls.n == 0)",
        "miss.untouched": "implies(not some_hit(), scope['path'] == old(scope['path']) and "
                          "has(scope, 'root_path') == old(has(scope, 'root_path')) and "
                          "implies(has(scope, 'root_path'), scope['root_path'] == old(scope['root_path'])))",
        "hit.dispatch": "implies(some_hit(), calls.n == 1 and tr.n_start == 0 and exists(k, 0, len(self._route_array), first(k) and "
                        "calls.app == self._route_array[k][1] and calls.root == old_root() + self._route_array[k][0] and "
                        "calls.path == old(scope['path'])[len(self._route_array[k][0]):]))",
        "hit.full_path_kept": "implies(some_hit(), calls.root + calls.path == old_root() + old(scope['path']))",
        "hit.remainder_is_a_path": "implies(some_hit(), calls.path == '' or calls.path.startswith('/'))",
        "type.kept": "scope['type'] == old(scope['type'])",
    },
    assumptions=["A-server"],
    canaries={"never_dispatches": "calls.n == 0"},
)

# ----- PEP 3333 transcoding of PATH_INFO (baize/wsgi/routing.py _decode_path / _encode_path): A-transcode
# wsgi_dec reads the Latin-1 string as UTF-8 bytes (surrogateescape), wsgi_enc is its inverse.  Used facts, as ground
# instances: enc(dec(x)) == x;  enc is a homomorphism for concatenation;  ASCII is fixed, so emptiness and a leading '/' are
# preserved.  (The two helpers are 4 lines of codec calls each; their codec behaviour is checked by the bounded layer.)
def _dec(t):
    return ufunc("wsgi_dec", S, S)(t)


def _enc(t):
    return ufunc("wsgi_enc", S, S)(t)


def decode_path_stub(ev, args, kwargs, node):
    USED.add("A-transcode")
    raw = args[0]
    d = _dec(raw.t)
    ev.st.assume(_enc(d) == raw.t)
    ev.st.assume((d == z3.StringVal("")) == (raw.t == z3.StringVal("")))
    ev.st.ghost["_enc_seen"] = []
    return VStr(d)


def encode_path_stub(ev, args, kwargs, node):
    USED.add("A-transcode")
    a = args[0].t
    e = _enc(a)
    st = ev.st
    st.assume((a == z3.StringVal("")) == (e == z3.StringVal("")))
    st.assume(z3.PrefixOf(z3.StringVal("/"), a) == z3.PrefixOf(z3.StringVal("/"), e))
    seen = st.ghost.get("_enc_seen")
    if seen is None:
        seen = st.ghost["_enc_seen"] = []
    for b in seen:
        st.assume(_enc(z3.Concat(b, a)) == z3.Concat(_enc(b), e))
    seen.append(a)
    return VStr(e)


TRANSCODE_UF = {"wsgi_dec": ([Str], Str), "wsgi_enc": ([Str], Str)}
TRANSCODE_STUBS = {"_decode_path": decode_path_stub, "_encode_path": encode_path_stub}

W_ENV = Dict(PATH_INFO=Maybe_(Str), SCRIPT_NAME=Maybe_(Str))
W_CALL_DEFS = dict(c02.HDEFS)
W_CALL_DEFS.update(SUB_DEFS)
W_CALL_DEFS.update({
    "old_root()": "old(environ['SCRIPT_NAME'] if has(environ, 'SCRIPT_NAME') else '')",
    "old_path()": "old(environ['PATH_INFO'] if has(environ, 'PATH_INFO') else '')",
    # prefixes are text; the request path is matched as text too: PATH_INFO read as UTF-8 (wsgi_dec)
    "dpath()": "wsgi_dec(old_path())",
    "some_hit()": "exists(k, 0, len(self._route_array), hit(self._route_array[k][0], dpath()))",
    "first(k)": "hit(self._route_array[k][0], dpath()) and forall(j, 0, k, not hit(self._route_array[j][0], dpath()))",
})

W_ROUTES_T = ROUTES_T
W_GHOSTS = SUB_GHOSTS

W_SUBPATHS_CALL = Contract(
    id="wsgi.Subpaths.__call__", file=WR, qualname="Subpaths.__call__", props=["C09"], generator=True,
    params={"self": ObjT(WR + ":Subpaths", _route_array=W_ROUTES_T), "environ": W_ENV,
            "start_response": TFunc(c02.start_response_stub, "start_response")},
    ghosts=W_GHOSTS,
    requires=["WF(self._route_array)", "calls.n == 0", "tr.n_start == 0", "out.n_yield == 0", "out.out_len == 0"],
    defs=W_CALL_DEFS, ufuncs=dict(c02.HUF, **TRANSCODE_UF), consts=c02.wsgi_consts(), stubs=TRANSCODE_STUBS,
    on_yield_from=yield_from_app, on_yield=c02.call_yield, yield_mods=("out",),
    modifies=["environ"], ghost_modifies=["tr", "out", "calls"],
    ensures={
        "miss.404": "implies(not some_hit(), tr.n_start == 1 and tr.status == status_line(404) and calls.n == 0)",
        "miss.untouched": "implies(not some_hit(), has(environ, 'PATH_INFO') == old(has(environ, 'PATH_INFO')) and "
                          "has(environ, 'SCRIPT_NAME') == old(has(environ, 'SCRIPT_NAME')) and "
                          "implies(has(environ, 'PATH_INFO'), environ['PATH_INFO'] == old(environ['PATH_INFO'])) and "
                          "implies(has(environ, 'SCRIPT_NAME'), environ['SCRIPT_NAME'] == old(environ['SCRIPT_NAME'])))",
        "hit.dispatch": "implies(some_hit(), calls.n == 1 and tr.n_start == 0 and exists(k, 0, len(self._route_array), first(k) and "
                        "calls.app == self._route_array[k][1] and calls.root == old_root() + wsgi_enc(self._route_array[k][0]) and "
                        "calls.path == wsgi_enc(dpath()[len(self._route_array[k][0]):])))",
        # in the environ's own (Latin-1) terms nothing is lost: SCRIPT_NAME + PATH_INFO is what it was
        "hit.full_path_kept": "implies(some_hit(), calls.root + calls.path == old_root() + old_path())",
        "hit.remainder_is_a_path": "implies(some_hit(), calls.path == '' or calls.path.startswith('/'))",
    },
    assumptions=["A-server", "A-transcode"],
    canaries={"never_dispatches": "calls.n == 0"},
)

# lemma "nested mounts compose": two applications of the hit.* clauses
COMPOSE = Contract(
    id="lemma.nested_mounts_compose", file=RT, qualname="BaseSubpaths.search", props=["C09"], bodyless=True,
    notes="stated over the contract of one mount level: root1 = root0 + p1, path1 = path0[len(p1):], root1 + path1 == "
          "root0 + path0; applying it again gives root2 + path2 == root0 + path0 and root2 == root0 + p1 + p2",
)


def register(reg):
    for c in (SUBPATHS_INIT, SUBPATHS_SEARCH, A_SUBPATHS_CALL, W_SUBPATHS_CALL):
        reg.add(c)
    reg._opaque_call["App"] = app_call
    register_hosts(reg)


# =========================================================================== host dispatch
PATTERN = Opaque("Pattern")
HOSTS_T = List(Tup(PATTERN, APP))


def re_full(p, s):
    return ufunc("re_fullmatch", opaque_sort("Pattern"), S, Bz)(p, s)


def pattern_fullmatch(ev, recv, args, kwargs, node):
    """compiled pattern .fullmatch(s): None or a match object, by s in L(pattern) (A-re-2)"""
    USED.add("A-re-2")
    ok = re_full(recv.t, args[0].t)
    if ev.pure:
        raise Unsupported("fullmatch in a pure context")
    if ev.st.decide(ok):
        return ev.st.alloc(Obj("Match", {}))
    return NONE


HOSTS_SEARCH = Contract(
    id="BaseHosts.search", file=RT, qualname="BaseHosts.search", props=["C09"],
    params={"self": ObjT(RT + ":BaseHosts", _host_array=HOSTS_T), "host": Str},
    returns=Opt(APP), ufuncs={"re_fullmatch": ([PATTERN, Str], Bool)},
    ensures={
        "miss": "implies(is_none(result), forall(k, 0, len(self._host_array), not re_fullmatch(self._host_array[k][0], host)))",
        "first_match": "implies(not is_none(result), exists(k, 0, len(self._host_array), result == self._host_array[k][1] and "
                       "re_fullmatch(self._host_array[k][0], host) and forall(j, 0, k, not re_fullmatch(self._host_array[j][0], host))))",
    },
    invariants={1: ["forall(j, 0, IDX, not re_fullmatch(SEQ[j][0], host))"]},
    canaries={"always_first": "is_none(result) or result == self._host_array[0][1]"},
    assumptions=["A-re-2"],
)

H_DEFS = dict(c02.A_DEFS)
H_DEFS.update({
    "some(h)": "exists(k, 0, len(self._host_array), re_fullmatch(self._host_array[k][0], h))",
    "first(k, h)": "re_fullmatch(self._host_array[k][0], h) and forall(j, 0, k, not re_fullmatch(self._host_array[j][0], h))",
    "is_last(name, v)": c02.A_CALL_DEFS["is_last(name, v)"],
})
H_UF = dict(c02.HUF)
H_UF.update({"re_fullmatch": ([PATTERN, Str], Bool)})


def small_init_inline(file_):
    return Contract(id=file_.split("/")[1] + ".SmallResponse.__init__", file=file_, qualname="SmallResponse.__init__", inline=True,
                    notes="constructor, executed inline")


A_HOSTS_CALL = Contract(
    id="asgi.Hosts.__call__", file=AR, qualname="Hosts.__call__", props=["C09"],
    params={"self": ObjT(AR + ":Hosts", _host_array=HOSTS_T), "scope": Dict(type=Str, headers=List(Tup(Bytes, Bytes))),
            "receive": Opaque("Receive"), "send": TFunc(c02.send_stub, "send")},
    ghosts={"tr": c02.TR_T, "out": c02.OUT_T, "calls": CALLS_T, "body": Bytes, "hh": Str},
    requires=["calls.n == 0", "tr.n_start == 0", "out.n_body == 0", "not out.closed", "out.out_len == 0",
              "scope['type'] != 'lifespan'", "is_last(b'host', hh)"],
    defs=H_DEFS, ufuncs=H_UF,
    ghost_modifies=["tr", "out", "calls"],
    ensures={
        "miss.404": "implies(not some(hh), tr.n_start == 1 and tr.code == 404 and out.closed and calls.n == 0)",
        "hit": "implies(some(hh), calls.n == 1 and tr.n_start == 0 and exists(k, 0, len(self._host_array), first(k, hh) and "
               "calls.app == self._host_array[k][1]))",
    },
    invariants={1: [
        "(host == '' and forall(k, 0, IDX, SEQ[k][0] != b'host')) or exists(k, 0, IDX, SEQ[k][0] == b'host' and "
        "SEQ[k][1] == host.encode('latin-1') and forall(j, k + 1, IDX, SEQ[j][0] != b'host'))"]},
    canaries={"never_dispatches": "calls.n == 0"},
    assumptions=["A-server", "A-re-2"],
)

WH_DEFS = dict(c02.HDEFS)
WH_DEFS.update({k: v for k, v in H_DEFS.items() if k in ("some(h)", "first(k, h)")})
WH_DEFS.update({"hh()": "old(environ['HTTP_HOST'] if has(environ, 'HTTP_HOST') else '')"})

W_HOSTS_CALL = Contract(
    id="wsgi.Hosts.__call__", file=WR, qualname="Hosts.__call__", props=["C09"], generator=True,
    params={"self": ObjT(WR + ":Hosts", _host_array=HOSTS_T), "environ": Dict(HTTP_HOST=Maybe_(Str)),
            "start_response": TFunc(c02.start_response_stub, "start_response")},
    ghosts={"tr": c02.TR_T, "out": c02.OUT_T, "calls": CALLS_T, "body": Bytes},
    requires=["calls.n == 0", "tr.n_start == 0", "out.n_yield == 0", "out.out_len == 0"],
    defs=WH_DEFS, ufuncs=H_UF, consts=c02.wsgi_consts(),
    on_yield_from=yield_from_app, on_yield=c02.call_yield, yield_mods=("out",),
    ghost_modifies=["tr", "out", "calls"],
    ensures={
        "miss.404": "implies(not some(hh()), tr.n_start == 1 and tr.status == status_line(404) and calls.n == 0)",
        "hit": "implies(some(hh()), calls.n == 1 and tr.n_start == 0 and exists(k, 0, len(self._host_array), first(k, hh()) and "
               "calls.app == self._host_array[k][1]))",
    },
    canaries={"never_dispatches": "calls.n == 0"},
    assumptions=["A-server", "A-re-2"],
)


def register_hosts(reg):
    for c in (HOSTS_SEARCH, A_HOSTS_CALL, W_HOSTS_CALL, small_init_inline("baize/asgi/responses.py"),
              small_init_inline("baize/wsgi/responses.py")):
        reg.add(c)
    reg._opaque_method[("Pattern", "fullmatch")] = pattern_fullmatch
