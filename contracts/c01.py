"""C01 / C15 -- multipart: the two stream helpers are the same program (AST lemma), MultipartDecoder.last_newline,
and the limit accounting of parse_stream relative to the decoder's event contract."""
import ast
import copy

import z3

from pyvc import source
from pyvc.contract import Contract
from pyvc.stubs import USED
from pyvc.values import *  # noqa
from pyvc.builtins import ufunc, S, I, Bz
from pyvc.engine import PyRaise, Unsupported

MH = "baize/multipart_helper.py"
MP = "baize/multipart.py"


class _Erase(ast.NodeTransformer):
    """await-erasure + the declared renamings of the async twin"""
    RENAME = {"awrite": "write", "aseek": "seek", "parse_async_stream": "parse_stream", "_AsyncUploadFile": "_SyncUploadFile",
              "AsyncIterable": "Iterable"}

    def visit_Await(self, node):
        return self.visit(node.value)

    def visit_AsyncFor(self, node):
        self.generic_visit(node)
        return ast.For(target=node.target, iter=node.iter, body=node.body, orelse=node.orelse, type_comment=None)

    def visit_AsyncFunctionDef(self, node):
        self.generic_visit(node)
        return ast.FunctionDef(name=self.RENAME.get(node.name, node.name), args=node.args, body=node.body,
                               decorator_list=node.decorator_list, returns=None, type_comment=None)

    def visit_FunctionDef(self, node):
        self.generic_visit(node)
        node.returns = None
        return node

    def visit_Attribute(self, node):
        self.generic_visit(node)
        node.attr = self.RENAME.get(node.attr, node.attr)
        return node

    def visit_Name(self, node):
        node.id = self.RENAME.get(node.id, node.id)
        return node

    def visit_arg(self, node):
        node.annotation = None
        return node

    def visit_AnnAssign(self, node):
        self.generic_visit(node)
        if node.value is None:
            return None
        return ast.Assign(targets=[node.target], value=node.value)

    def visit_Expr(self, node):
        if isinstance(node.value, ast.Constant) and isinstance(node.value.value, str):
            return None      # docstring
        self.generic_visit(node)
        return node


def _normal_form(relpath, qualname):
    fdef = copy.deepcopy(source.find_def(relpath, qualname))
    t = _Erase().visit(fdef)
    ast.fix_missing_locations(t)
    return ast.dump(t, include_attributes=False)


def lemma_same_program(ev):
    a = _normal_form(MH, "parse_stream")
    b = _normal_form(MH, "parse_async_stream")
    if a != b:
        # textual identity is a sufficient condition only: spelled differently, the shortcut does not apply (undecided; the
        # bounded layer runs both helpers on every case)
        raise Unsupported("parse_stream / parse_async_stream are no longer the same text (syntactic shortcut not applicable)")
    return z3.BoolVal(True)


lemma_same_program.note = ("after await-erasure, async-for -> for, dropping annotations/docstrings and the declared renamings "
                           "(awrite->write, aseek->seek) the AST of parse_async_stream equals the AST of parse_stream")


def _json_form_twins():
    out = []
    for q in ("Request.form", "Request._parse_multipart"):
        a = _normal_form("baize/wsgi/requests.py", q)
        b = _normal_form("baize/asgi/requests.py", q)
        out.append(a == b)
    return all(out)


def lemma_request_twins(ev):
    if not _json_form_twins():
        raise Unsupported("Request.form / _parse_multipart of the two interfaces are no longer the same text (syntactic shortcut not applicable)")
    return z3.BoolVal(True)


lemma_request_twins.note = "Request.form / Request._parse_multipart of both interfaces are the same program after await-erasure"

TWINS = Contract(
    id="multipart.twins", file=MH, qualname="parse_stream", props=["C01", "C15", "C04"], bodyless=True,
    lemmas={"helpers_same_program": lemma_same_program, "request_accessors_same_program": lemma_request_twins},
    notes="structural identity of the hand-copied sync/async code: whatever is established for one copy holds for the other",
)


# ----- MultipartDecoder.last_newline
def rindex_stub(ev, recv_unused, args=None, kwargs=None, node=None):
    raise Unsupported("unused")


def buffer_rindex(ev, recv, args, kwargs, node):
    """bytearray.rindex(b): the last index of b, ValueError when absent (A-bytes)"""
    USED.add("A-bytes")
    t, sub = recv.t, args[0].t
    has = z3.Contains(t, sub)
    if not ev.st.decide(has):
        _positional_instances(ev, t, sub, None)
        raise PyRaise("ValueError", None, getattr(node, "lineno", 0))
    i = ufunc("last_index_of", S, S, I)(t, sub)
    ev.st.assume(z3.And(i >= 0, i + z3.Length(sub) <= z3.Length(t), z3.SubString(t, i, z3.Length(sub)) == sub,
                        z3.Not(z3.Contains(z3.SubString(t, i + 1, z3.Length(t)), sub))))
    _positional_instances(ev, t, sub, i)
    return VInt(i)


def _positional_instances(ev, t, sub, last):
    """ground instances, at the ghost position gi and at gi + 1, of what 'last index' / 'absent' mean position by
    position:  t[p] == sub  implies  p <= last   (resp. t[p] != sub when sub does not occur).  They follow from the
    definition of rindex; the string solvers do not derive them from the Contains form by themselves."""
    g = ev.st.ghost.get("gi")
    if g is None:
        return
    n = z3.Length(sub)
    for p in (g.t, g.t + 1):
        occ = z3.And(p >= 0, z3.SubString(t, p, n) == sub)
        if last is None:
            ev.st.assume(z3.Not(occ))
        else:
            ev.st.assume(z3.Implies(occ, p <= last))


LAST_NEWLINE = Contract(
    id="MultipartDecoder.last_newline", file=MP, qualname="MultipartDecoder.last_newline", props=["C01", "C15"],
    params={"self": ObjT(MP + ":MultipartDecoder", buffer=Bytes)}, returns=Int,
    ufuncs={"last_index_of": ([Str, Str], Int)},
    stubs={"self.buffer.rindex": lambda ev, a, k, n: buffer_rindex(ev, ev.st.obj(ev.frame.lookup("self")).fields["buffer"], a, k, n)},
    ensures={
        "within": "0 <= result and result <= len(self.buffer)",
        # the hold-back starts at the EARLIER of the last CR and the last LF (len(buffer) when a kind is absent)
        "is_the_earlier_of_the_last_breaks": "result == min(last_index_of(self.buffer, b'\\n') if has(self.buffer, b'\\n') else len(self.buffer), "
                                             "last_index_of(self.buffer, b'\\r') if has(self.buffer, b'\\r') else len(self.buffer))",
        "at_a_break": "result == len(self.buffer) or self.buffer[result:result + 1] == b'\\n' or self.buffer[result:result + 1] == b'\\r'",
        "none": "implies(not has(self.buffer, b'\\n') and not has(self.buffer, b'\\r'), result == len(self.buffer))",
        # the released prefix is safe for EVERY continuation of the stream: an incomplete delimiter is a line break
        # followed by text without line breaks ('--' + boundary + optional '--' / blanks), and no suffix of the buffer
        # that starts before the hold-back point has that shape - so nothing that is released can turn out to be the
        # beginning of a delimiter once more bytes arrive
        # Position by position (gi is an arbitrary position: proved for the symbol, quantified at call sites): the suffix
        # at gi has that shape iff  buffer[gi] is CR or LF,  no CR/LF occurs after position gi + 1 (i.e. the last CR and
        # the last LF are at <= gi + 1),  and buffer[gi + 1] is not a line break of its own (only the LF of a CRLF).
        "no_released_byte_starts_a_partial_delimiter": "implies(0 <= gi and gi < result, not partial_at(gi))",
    },
    defs={
        "brk(j)": "self.buffer[j:j + 1] == b'\\r' or self.buffer[j:j + 1] == b'\\n'",
        "no_break_after(j)": "(not has(self.buffer, b'\\r') or last_index_of(self.buffer, b'\\r') <= j) and "
                             "(not has(self.buffer, b'\\n') or last_index_of(self.buffer, b'\\n') <= j)",
        "partial_at(j)": "brk(j) and no_break_after(j + 1) and "
                         "(not brk(j + 1) or (self.buffer[j:j + 1] == b'\\r' and self.buffer[j + 1:j + 2] == b'\\n'))",
    },
    ghosts={"gi": Int}, forall_ghosts=["gi"],
    canaries={"always_end": "result == len(self.buffer)"},
    assumptions=["A-bytes"],
)


# ----- MultipartDecoder.next_event in the DATA state (the streaming step of a part body)
TAIL_RE = r"(--[ \t\x0b\x0c]*(\r\n|\n|\r)?|[ \t\x0b\x0c]*(\r\n|\n|\r))"   # [^\S\n\r] on bytes: blank, tab, VT, FF
MG_T = ObjT("MatchGhost", found=Bool, s=Int, e=Int, g1=Bytes, lb=Bytes)
ST_CONST = {"PREAMBLE": 0, "PART": 1, "DATA": 2, "EPILOGUE": 3, "COMPLETE": 4}


def re_search_stub(ev, recv, args, kwargs, node):
    """self.boundary_re.search(buffer) (A-re-search): None, or a match  buffer[s:e] == line-break '--' boundary g1  with
    g1 in ('--' blanks* line-break? | blanks* line-break).  (That the match is the LEFTMOST one is the regex engine's
    business and is not used by the clauses below.)  The outcome is named by the ghost `m`."""
    from pyvc.regex import to_z3
    USED.add("A-re-search")
    st = ev.st
    m = st.obj(st.ghost["m"])
    buf = args[0].t
    me = st.obj(ev.frame.lookup("self"))
    if not st.decide(m.fields["found"].t):
        return NONE
    s_, e_, g1, lb = m.fields["s"].t, m.fields["e"].t, m.fields["g1"].t, m.fields["lb"].t
    st.assume(z3.And(0 <= s_, s_ <= e_, e_ <= z3.Length(buf)))
    st.assume(z3.Or(lb == z3.StringVal("\r\n"), lb == z3.StringVal("\n"), lb == z3.StringVal("\r")))
    st.assume(z3.SubString(buf, s_, e_ - s_) == z3.Concat(lb, z3.StringVal("--"), me.fields["boundary"].t, g1))
    st.assume(z3.InRe(g1, to_z3(TAIL_RE)))
    return st.alloc(Obj("Match", {"s": VInt(s_), "e": VInt(e_), "g1": VStr(g1, True)}))


re_search_stub.mods = ()
re_search_stub.mutates_recv = False


def _m_start(ev, recv, args, kwargs, node):
    return ev.st.obj(recv).fields["s"]


def _m_end(ev, recv, args, kwargs, node):
    return ev.st.obj(recv).fields["e"]


def _m_group(ev, recv, args, kwargs, node):
    return ev.st.obj(recv).fields["g1"]


for _f in (_m_start, _m_end, _m_group):
    _f.mods = ()
    _f.mutates_recv = False


def _data_ctor(ev, args, kwargs, node):
    return ev.st.alloc(Obj("Data", {"data": kwargs["data"], "more_data": kwargs["more_data"]}))


def _state_ns(ev):
    return ev.st.alloc(Obj("StateNS", {k: VInt(v) for k, v in ST_CONST.items()}))


NE_DEFS = {
    "LN0()": "min(last_index_of(old(self.buffer), b'\\n') if has(old(self.buffer), b'\\n') else len(old(self.buffer)), "
             "last_index_of(old(self.buffer), b'\\r') if has(old(self.buffer), b'\\r') else len(old(self.buffer)))",
    "is_data()": "not is_need()",
    "is_need()": "result == NEED",
    "delim()": "m.lb + b'--' + self.boundary + m.g1",
    "brk0(j)": "old(self.buffer)[j:j + 1] == b'\\r' or old(self.buffer)[j:j + 1] == b'\\n'",
    "nba0(j)": "(not has(old(self.buffer), b'\\r') or last_index_of(old(self.buffer), b'\\r') <= j) and "
               "(not has(old(self.buffer), b'\\n') or last_index_of(old(self.buffer), b'\\n') <= j)",
    "partial0(j)": "brk0(j) and nba0(j + 1) and (not brk0(j + 1) or (old(self.buffer)[j:j + 1] == b'\\r' and "
                   "old(self.buffer)[j + 1:j + 2] == b'\\n'))",
}

NEXT_EVENT_DATA = Contract(
    id="MultipartDecoder.next_event[DATA]", file=MP, qualname="MultipartDecoder.next_event", props=["C01", "C15"],
    params={"self": ObjT(MP + ":MultipartDecoder", buffer=Bytes, state=Int, complete=Bool, boundary=Bytes,
                         boundary_re=ObjT("Pattern"))},
    returns=None,
    ghosts={"m": MG_T, "gi": Int}, forall_ghosts=["gi"],
    requires=["self.state == 2",       # State.DATA: inside a part body
              "self.boundary != b'' and not has(self.boundary, b'\\r') and not has(self.boundary, b'\\n')"],
    defs=NE_DEFS, ufuncs={"last_index_of": ([Str, Str], Int)},
    consts={"State": _state_ns, "NEED_DATA": VGlobal("NEED_DATA"), "NEED": VGlobal("NEED_DATA"), "NeedData": VClass("NeedData")},
    stubs={"Data": _data_ctor,
           "self.buffer.rindex": lambda ev, a, k, n: buffer_rindex(ev, ev.st.obj(ev.frame.lookup("self")).fields["buffer"], a, k, n)},
    stub_methods={("Pattern", "search"): re_search_stub, ("Match", "start"): _m_start, ("Match", "end"): _m_end,
                  ("Match", "group"): _m_group},
    inline_callees=("MultipartDecoder.last_newline",),
    modifies=["self.buffer", "self.state"], frame_check=False,
    raises={"MalformedMultipart": "self.complete"},
    raises_ensures={"MalformedMultipart": {"ensures": ["self.buffer == old(self.buffer)"]}},
    ensures={
        # nothing is lost and nothing is invented: what was buffered is what is emitted, then (only when the part ends) one
        # delimiter, then what stays buffered
        "need_data.keeps_everything": "implies(is_need(), self.buffer == old(self.buffer) and self.state == 2 and not self.complete)",
        "more.conservation": "implies(is_data() and result.more_data, old(self.buffer) == result.data + self.buffer and "
                             "self.state == 2 and result.data != b'')",
        "last.conservation": "implies(is_data() and not result.more_data, m.found and "
                             "old(self.buffer) == result.data + delim() + self.buffer)",
        "last.next_state": "implies(is_data() and not result.more_data, self.state == (3 if m.g1.startswith(b'--') else 1))",
        # progress: without a complete delimiter in the buffer, EVERYTHING before the hold-back point (the earlier of the last
        # CR and the last LF, or the end) is released now - whether or not the text '--boundary' occurs somewhere in the content
        "no_match.releases_up_to_the_hold_back_point": "implies(not m.found, (is_need() and LN0() == 0) or "
                                                       "(is_data() and result.more_data and len(result.data) == LN0()))",
        # a chunk released while the part goes on never contains the start of a delimiter that later bytes could complete
        "more.released_bytes_are_safe": "implies(is_data() and result.more_data and 0 <= gi and gi < len(result.data), not partial0(gi))",
    },
    canaries={"never_ends_a_part": "is_need() or result.more_data"},
    assumptions=["A-re-search", "A-bytes"],
    notes="next_event restricted to the DATA state (requires).  The regex search is a stub whose outcome the ghost `m` names; "
          "last_newline is executed inline.  Leftmost-match semantics, the PREAMBLE / PART / EPILOGUE states and the header "
          "parser are not covered here (bounded layer).",
)


# ----- MultipartDecoder.next_event in the PART state (the header block of a part): which exceptions can escape (C12), what
# happens to the buffer and the state
BM_T = ObjT("BlankMatchGhost", found=Bool, s=Int, e=Int)
HD_ = "baize/datastructures.py:Headers"


def blank_search_stub(ev, recv, args, kwargs, node):
    """BLANK_LINE_RE.search(buffer): None, or a match with 0 <= start < end <= len(buffer) (A-re-search; which blank line
    is found is the regex engine's business)"""
    USED.add("A-re-search")
    st = ev.st
    m = st.obj(st.ghost["bm"])
    if not st.decide(m.fields["found"].t):
        return NONE
    s_, e_ = m.fields["s"].t, m.fields["e"].t
    st.assume(z3.And(0 <= s_, s_ < e_, e_ <= z3.Length(args[0].t)))
    return st.alloc(Obj("Match", {"s": VInt(s_), "e": VInt(e_), "g1": VStr(b"")}))


blank_search_stub.mods = ()
blank_search_stub.mutates_recv = False


def parse_headers_stub(ev, args, kwargs, node):
    """self._parse_headers(block): a Headers object (lower-case names) or MalformedMultipart for a line without a colon
    (its body: bounded layer)"""
    st = ev.st
    if st.choose([z3.BoolVal(True)] * 2, force_record=True) == 1:
        raise PyRaise("MalformedMultipart", None, getattr(node, "lineno", 0))
    from pyvc.builtins import mk_quant
    h = st.alloc(Obj(HD_, {"_dict": st.fresh(Map(Str, Str), "part.headers")}))
    return h


def parse_header_stub(ev, args, kwargs, node):
    """baize.utils.parse_header(line): (main value, dict of the parameters the client wrote - any keys, any values)"""
    st = ev.st
    return VTuple([st.fresh(Str, "disposition"), st.fresh(Map(Str, Str), "disposition.params")])


def _part_event(kind):
    def ctor(ev, args, kwargs, node):
        f = {"kind": VInt(1 if kind == "Field" else 2), "name": kwargs["name"], "headers": kwargs["headers"]}
        if kind == "File":
            f["filename"] = kwargs["filename"]
        return ev.st.alloc(Obj(kind, f))
    return ctor


NEXT_EVENT_PART = Contract(
    id="MultipartDecoder.next_event[PART]", file=MP, qualname="MultipartDecoder.next_event", props=["C12", "C01"],
    params={"self": ObjT(MP + ":MultipartDecoder", buffer=Bytes, state=Int, complete=Bool, charset=Str)},
    returns=None,
    ghosts={"bm": BM_T},
    requires=["self.state == 1"],       # State.PART: at the header block of a part
    defs={"is_need()": "result == NEED"},
    consts={"State": _state_ns, "NEED_DATA": VGlobal("NEED_DATA"), "NEED": VGlobal("NEED_DATA"), "NeedData": VClass("NeedData"),
            "BLANK_LINE_RE": lambda ev: ev.st.alloc(Obj("BlankPattern", {}))},
    stubs={"self._parse_headers": parse_headers_stub, "parse_header": parse_header_stub, "File": _part_event("File"),
           "Field": _part_event("Field"), "cast": lambda ev, a, k, n: a[1]},
    stub_methods={("BlankPattern", "search"): blank_search_stub, ("Match", "start"): _m_start, ("Match", "end"): _m_end},
    modifies=["self.buffer", "self.state"], frame_check=False,
    # whatever the client wrote into the part's header block: the only exception is the 400-mapped MalformedMultipart
    # (a missing 'name' parameter is not an error: the field name is None)
    raises={"MalformedMultipart": None},
    ensures={
        "need_data.keeps_everything": "implies(is_need(), self.buffer == old(self.buffer) and self.state == 1 and not self.complete)",
        "event.consumes_the_header_block": "implies(not is_need(), bm.found and self.buffer == old(self.buffer)[bm.e:] and self.state == 2)",
        "file_iff_filename": "implies(not is_need(), (result.kind == 2) == has(old_params(), 'filename'))",
    },
    canaries={"never_an_event": "is_need()"},
    assumptions=["A-re-search"],
    notes="next_event restricted to the PART state.  _parse_headers and parse_header are stubs (any header mapping / any parameter "
          "dict, or MalformedMultipart); the clause of interest is the raise catalogue.",
)
del NEXT_EVENT_PART.ensures["file_iff_filename"]     # (the parameter dict is not nameable from the contract: bounded layer)


def _isinstance_model(ev, v, names):
    if any(n.endswith("NeedData") for n in names):
        if isinstance(v, VGlobal):
            return v.name == "NEED_DATA"
        if isinstance(v, VRef) and ev.st.obj(v).cls == "Data":
            return False
    return None


def register(reg):
    for c in (TWINS, LAST_NEWLINE, NEXT_EVENT_DATA, NEXT_EVENT_PART):
        reg.add(c)
    reg.isinstance_model = _isinstance_model
    register2(reg)


# =========================================================================== parse_stream: limit accounting (C15)
EVS_T = List(Tup(Int, Str, Bytes, Bool))
KINDS = {0: "NeedData", 1: "Field", 2: "File", 3: "Data", 4: "Epilogue", 5: "Preamble"}
DG_T = ObjT("DecoderGhost", cursor=Int, parts=Int, fbytes=Int, last_len=Int, open=Bool, isfile=Bool, n_items=Int)


def decoder_ctor(ev, args, kwargs, node):
    return ev.st.alloc(Obj("Decoder", {}))


def decoder_receive(ev, recv, args, kwargs, node):
    return NONE


decoder_receive.mods = ()
decoder_receive.mutates_recv = False


def decoder_next_event(ev, recv, args, kwargs, node):
    """MultipartDecoder.next_event seen through its event contract: the next event of the ghost script `evs`
    (Preamble (Field|File Data(more)* Data(last))* Epilogue, NeedData when more input is needed).  The ghost `dg` does the
    accounting the property speaks about: completed parts and bytes of non-file field data."""
    USED.add("A-decoder-events")
    st = ev.st
    dg = st.obj(st.ghost["dg"])
    evs = st.obj(st.ghost["evs"])
    f = dg.fields
    cur = f["cursor"].t
    if not st.decide(cur < evs.length):
        return st.alloc(Obj(MP + ":NeedData", {}))
    kind, name, data, more = ev.list_get(evs, cur).items
    f["cursor"] = VInt(cur + 1)
    k = st.choose([kind.t == i for i in range(6)])
    cls = KINDS[k]
    if cls in ("Field", "File"):
        st.assume(z3.Not(f["open"].t))   # grammar: a part opens only after the previous one was completed
    if cls == "Field":
        f["open"], f["isfile"] = VBool(True), VBool(False)
        return st.alloc(Obj(MP + ":Field", {"name": name, "headers": VOpaque(st.fresh(Opaque("Headers"), "h").t, "Headers")}))
    if cls == "File":
        f["open"], f["isfile"] = VBool(True), VBool(True)
        return st.alloc(Obj(MP + ":File", {"name": name, "filename": name, "headers": VOpaque(st.fresh(Opaque("Headers"), "h").t, "Headers")}))
    if cls == "Data":
        st.assume(f["open"].t)           # grammar: Data only inside a part
        ln = z3.Length(data.t)
        f["last_len"] = VInt(ln)
        f["fbytes"] = VInt(z3.If(f["isfile"].t, f["fbytes"].t, f["fbytes"].t + ln))
        f["parts"] = VInt(z3.If(more.t, f["parts"].t, f["parts"].t + 1))
        f["open"] = VBool(z3.And(f["open"].t, more.t))
        return st.alloc(Obj(MP + ":Data", {"data": data, "more_data": more}))
    if cls == "Epilogue":
        return st.alloc(Obj(MP + ":Epilogue", {"data": data}))
    if cls == "Preamble":
        return st.alloc(Obj(MP + ":Preamble", {"data": data}))
    return st.alloc(Obj(MP + ":NeedData", {}))


decoder_next_event.mods = ("dg",)
decoder_next_event.mutates_recv = False


def bytearray_ctor(ev, args, kwargs, node):
    return ev.st.alloc(Obj("ByteArray", {"value": VStr(b"")}))


def ba_extend(ev, recv, args, kwargs, node):
    o = ev.st.obj(recv)
    o.fields["value"] = VStr(z3.Concat(o.fields["value"].t, args[0].t), True)
    return NONE


def ba_clear(ev, recv, args, kwargs, node):
    ev.st.obj(recv).fields["value"] = VStr(b"")
    return NONE


def safe_decode_stub(ev, args, kwargs, node):
    src = args[0]
    t = ev.st.obj(src).fields["value"].t if isinstance(src, VRef) else src.t
    return VOpaque(ufunc("text_item", S, S, opaque_sort("Item"))(t, args[1].t), "Item")


def file_factory_stub(ev, args, kwargs, node):
    return VOpaque(ev.st.fresh(Opaque("Item"), "upload").t, "Item")


def item_write(ev, recv, args, kwargs, node):
    return NONE


PS_DEFS = {
    "mm_ok()": "is_none(max_form_memory_size) or dg.fbytes <= max_form_memory_size",
    "I()": "form_parts_count == dg.parts and form_memory_size_count == dg.fbytes and dg.parts <= max_form_parts and mm_ok() and "
           "is_none(file) == (not (dg.open and dg.isfile)) and dg.cursor >= 0 and dg.parts >= 0 and dg.fbytes >= 0",
}

PARSE_STREAM = Contract(
    id="parse_stream", file=MH, qualname="parse_stream", props=["C15", "C01"],
    params={"stream": List(Bytes), "boundary": Bytes, "charset": Str, "file_factory": TFunc(file_factory_stub, "file_factory"),
            "max_form_parts": Int, "max_form_memory_size": Opt(Int)},
    ghosts={"evs": EVS_T, "dg": DG_T},
    requires=["max_form_parts >= 0", "dg.cursor == 0 and dg.parts == 0 and dg.fbytes == 0 and not dg.open and not dg.isfile",
              "implies(not is_none(max_form_memory_size), max_form_memory_size >= 0)"],
    defs=PS_DEFS, ufuncs={"text_item": ([Str, Str], Opaque("Item"))},
    stubs={"MultipartDecoder": decoder_ctor, "bytearray": bytearray_ctor, "safe_decode": safe_decode_stub},
    stub_methods={("Decoder", "receive_data"): decoder_receive, ("Decoder", "next_event"): decoder_next_event,
                  ("ByteArray", "extend"): ba_extend, ("ByteArray", "clear"): ba_clear},
    locals={"file": Opt(Opaque("Item")), "items": List(Tup(Str, Opaque("Item")))},
    ghost_modifies=["dg"],
    returns=List(Tup(Str, Opaque("Item"))),
    raises={"RequestEntityTooLarge": "True"},
    raises_ensures={"RequestEntityTooLarge": {"fields": {"status_code": Int}, "ensures": [
        # 413 exactly when a limit is exceeded, at the event that exceeds it
        "dg.parts == max_form_parts + 1 or (not is_none(max_form_memory_size) and dg.fbytes > max_form_memory_size and "
        "dg.fbytes - dg.last_len <= max_form_memory_size)",
        "exc.status_code == 413"]}},
    ensures={
        "within_limits": "dg.parts <= max_form_parts and mm_ok()",
        "one_item_per_part": "len(result) == dg.parts",
    },
    invariants={
        1: ["I()", "len(items) == dg.parts"],
        2: ["I()", "len(items) == dg.parts"],
    },
    canaries={"never_counts": "dg.parts == 0"},
    assumptions=["A-decoder-events"],
    notes="the decoder is abstracted by its event contract (ghost script); the async twin is covered by the same-program lemma",
)


def register2(reg):
    reg.add(PARSE_STREAM)
    reg._opaque_method[("Item", "write")] = item_write
    reg._opaque_method[("Item", "seek")] = item_write
