"""C17 -- multi-value mappings (baize/datastructures.py MultiMapping / MutableMultiMapping)."""
import z3

from pyvc.contract import Contract
from pyvc.stubs import USED
from pyvc.values import *  # noqa
from pyvc.builtins import ufunc, S, I, Bz
from pyvc.engine import Unsupported

D = "baize/datastructures.py"
MM = D + ":MutableMultiMapping"
K, V_ = Opaque("K"), Opaque("V")
PAIRS = List(Tup(K, V_))
SELF_T = ObjT(MM, _list=PAIRS, _dict=Map(K, V_))

DEFS = {
    # representation invariant: _dict has exactly the keys of _list and holds the LAST value of each key
    "R(l, d)": "forall((k, K), has(d, k) == exists(i, 0, len(l), l[i][0] == k)) and "
               "forall(i, 0, len(l), implies(forall(j, i + 1, len(l), l[j][0] != l[i][0]), d[l[i][0]] == l[i][1]))",
    "present(l, k)": "exists(i, 0, len(l), l[i][0] == k)",
    "R1(l, d)": "forall((k, K), has(d, k) == exists(i, 0, len(l), l[i][0] == k))",
    "R2(l, d)": "forall(i, 0, len(l), implies(forall(j, i + 1, len(l), l[j][0] != l[i][0]), d[l[i][0]] == l[i][1]))",
}


def mm_contains(ev, recv, args, kwargs, node):
    """Mapping.__contains__ -> self[key] in try/except KeyError -> self._dict[key] (A-abc-1)"""
    USED.add("A-abc-1")
    o = ev.st.obj(recv)
    m = ev.st.obj(o.fields["_dict"])
    return VBool(m.has[unpack(args[0])[0]])


COMMON = dict(defs=DEFS, requires=["R(self._list, self._dict)"])

APPEND = Contract(
    id="mm.append", file=D, qualname="MutableMultiMapping.append", props=["C17"],
    params={"self": SELF_T, "key": K, "value": V_}, modifies=["self._list", "self._dict"],
    ensures={"R": "R(self._list, self._dict)",
             "view": "len(self._list) == len(old(self._list)) + 1 and self._list[len(self._list) - 1] == (key, value) and "
                     "forall(i, 0, len(old(self._list)), self._list[i] == old(self._list)[i])"},
    **COMMON)

GETLIST = Contract(
    id="mm.getlist", file=D, qualname="MultiMapping.getlist", props=["C17"],
    params={"self": SELF_T, "key": K}, returns=List(V_),
    ensures={
        # the values of `key` in order: an order-preserving bijection with the positions holding `key`
        "only_values_of_key": "forall(j, 0, len(result), exists(i, 0, len(self._list), self._list[i][0] == key and self._list[i][1] == result[j]))",
        "all_values_of_key": "forall(i, 0, len(self._list), implies(self._list[i][0] == key, exists(j, 0, len(result), result[j] == self._list[i][1])))",
        "empty_iff_absent": "(len(result) == 0) == (not present(self._list, key))",
    },
    canaries={"always_empty": "len(result) == 0"},
    **COMMON)

GETITEM = Contract(
    id="mm.__getitem__", file=D, qualname="MultiMapping.__getitem__", props=["C17"],
    params={"self": SELF_T, "key": K}, returns=V_,
    raises={"KeyError": "not present(self._list, key)"},
    ensures={"last_value": "forall(i, 0, len(self._list), implies(self._list[i][0] == key and "
                           "forall(j, i + 1, len(self._list), self._list[j][0] != key), result == self._list[i][1]))",
             "present": "present(self._list, key)"},
    **COMMON)

MULTI_ITEMS = Contract(
    id="mm.multi_items", file=D, qualname="MultiMapping.multi_items", props=["C17"],
    params={"self": SELF_T}, returns=PAIRS,
    ensures={"is_the_list": "result == self._list"},
    **COMMON)

DELITEM = Contract(
    id="mm.__delitem__", file=D, qualname="MutableMultiMapping.__delitem__", props=["C17"],
    params={"self": SELF_T, "key": K}, modifies=["self._list", "self._dict"],
    raises={"KeyError": "not present(self._list, key)"},
    raises_ensures={"KeyError": {"ensures": ["self._list == old(self._list)", "self._dict == old(self._dict)"]}},
    ensures={
        "R": "R(self._list, self._dict)",
        "removed": "not present(self._list, key)",
        "others_kept_in_order": "forall(i, 0, len(self._list), exists(p, 0, len(old(self._list)), old(self._list)[p] == self._list[i])) and "
                                "forall(p, 0, len(old(self._list)), implies(old(self._list)[p][0] != key, "
                                "exists(i, 0, len(self._list), self._list[i] == old(self._list)[p])))",
        "was_present": "old(present(self._list, key))",
    },
    **COMMON)

SETLIST = Contract(
    id="mm.setlist", file=D, qualname="MutableMultiMapping.setlist", props=["C17"],
    params={"self": SELF_T, "key": K, "values": List(V_)}, modifies=["self._list", "self._dict"],
    raises={},
    ensures={
        "R1": "R1(self._list, self._dict)",
        "R2": "R2(self._list, self._dict)",
        "values_of_key": "implies(len(values) > 0, forall(j, 0, len(values), self._list[len(self._list) - len(values) + j] == (key, values[j])) and "
                         "forall(i, 0, len(self._list) - len(values), self._list[i][0] != key))",
        "empty_removes": "implies(len(values) == 0, not present(self._list, key))",
        "others_kept": "forall(p, 0, len(old(self._list)), implies(old(self._list)[p][0] != key, "
                       "exists(i, 0, len(self._list), self._list[i] == old(self._list)[p])))",
    },
    cuts={"self._list": [
        "self._list[len(self._list) - 1][0] == key",
        "forall(p, 0, len(old(self._list)), implies(old(self._list)[p][0] != key, exists(i, 0, len(self._list), self._list[i] == old(self._list)[p])))",
        "forall(i, 0, len(self._list), self._list[i][0] == key or exists(p, 0, len(old(self._list)), old(self._list)[p] == self._list[i]))",
    ]},
    **COMMON)

POPLIST = Contract(
    id="mm.poplist", file=D, qualname="MutableMultiMapping.poplist", props=["C17"],
    params={"self": SELF_T, "key": K}, returns=List(V_), modifies=["self._list", "self._dict"],
    raises={},
    ensures={
        "R": "R(self._list, self._dict)",
        "removed": "not present(self._list, key)",
        "returned": "forall(i, 0, len(old(self._list)), implies(old(self._list)[i][0] == key, "
                    "exists(j, 0, len(result), result[j] == old(self._list)[i][1])))",
    },
    **COMMON)

# ----- __setitem__: in-place deletion loop, proved with two ghost maps between old and current positions
import ast as _ast
from pyvc.builtins import mk_quant


def _is_del_list(node):
    return (isinstance(node, _ast.Delete) and len(node.targets) == 1 and isinstance(node.targets[0], _ast.Subscript)
            and isinstance(node.targets[0].value, _ast.Attribute) and node.targets[0].value.attr == "_list")


def _ghost_delete(ev, node):
    """ghost code after `del self._list[index]`: G (current position -> old position) loses the same entry; H (old position
    -> current position) moves every old position behind the deleted element one to the left"""
    st = ev.st
    idx = ev.expr(node.targets[0].slice)
    G = st.obj(st.ghost["G"])
    g = ev.list_get(G, idx.t).t          # old position of the element that was just deleted
    ev.list_delete(G, idx.t)
    H = st.obj(st.ghost["H"])
    hc = H.cols[0]
    nc = z3.Array(st.run.fresh_name("H.c0"), z3.IntSort(), z3.IntSort())
    p = z3.Int(st.run.fresh_name("hp"))
    st.assume(mk_quant("forall", [p], nc[p] == z3.If(p > g, hc[p] - 1, hc[p]), patterns=[nc[p]]))
    H.cols = [nc]


def _is_first_index_assign(node):
    return isinstance(node, _ast.Assign) and len(node.targets) == 1 and isinstance(node.targets[0], _ast.Name) \
        and isinstance(node.value, _ast.Subscript) and isinstance(node.value.value, _ast.Name) and node.value.value.id == "indexes"


def _ghost_first(ev, node):
    ev.st.ghost["F"] = ev.frame.lookup(node.targets[0].id)


def _setitem_setup(ev):
    """ghost initialisation: both maps start as the identity on the positions of the list"""
    st = ev.st
    L = st.obj(st.obj(ev.frame.lookup("self")).fields["_list"])
    for name in ("G", "H"):
        o = st.obj(st.ghost[name])
        o.length = L.length
        j = z3.Int(st.run.fresh_name("idj"))
        st.assume(mk_quant("forall", [j], o.cols[0][j] == j, patterns=[o.cols[0][j]]))


SI_DEFS = dict(DEFS)
SI_DEFS.update({
    "n0()": "len(old(self._list))",
    "m()": "len(indexes)",
    "keyp(p)": "old(self._list)[p][0] == key",
    # b(t): the lowest old position already processed after t iterations (the loop walks the key positions downwards)
    "b(t)": "indexes[m() - t] if t >= 1 else n0()",
    "bI(t)": "b(t) if t < m() else indexes[0] + 1",
    "deleted(p, t)": "keyp(p) and p >= b(t) and p != indexes[0]",
})

SETITEM = Contract(
    id="mm.__setitem__", file=D, qualname="MutableMultiMapping.__setitem__", props=["C17"],
    params={"self": SELF_T, "key": K, "value": V_}, modifies=["self._list", "self._dict"],
    ghosts={"G": List(Int), "H": List(Int), "F": Int}, ghost_modifies=["G", "H", "F"],
    setup=_setitem_setup, defs=SI_DEFS, requires=["R(self._list, self._dict)"],
    stmt_hooks=[(_is_del_list, _ghost_delete), (_is_first_index_assign, _ghost_first)],
    loop_modifies={1: ["self._list", "G", "H"]},
    raises={},
    invariants={1: [
        "len(G) == len(self._list) and len(H) == n0() and m() >= 1 and F == indexes[0] and 0 <= IDX and IDX <= m()",
        "forall(i, 0, len(self._list), 0 <= G[i] and G[i] < n0() and H[G[i]] == i and not deleted(G[i], IDX))",
        "forall(i, 0, len(self._list), implies(not (IDX == m() and i == indexes[0]), self._list[i] == old(self._list)[G[i]]))",
        "implies(IDX == m(), self._list[indexes[0]] == (key, value))",
        "forall(i, 0, len(self._list), forall(j, i + 1, len(self._list), G[i] < G[j]))",
        "forall(p, 0, n0(), implies(not deleted(p, IDX), 0 <= H[p] and H[p] < len(self._list) and G[H[p]] == p))",
        "forall(i, 0, bI(IDX), i < len(self._list) and G[i] == i and H[i] == i)",
        "self._dict == old(self._dict)",
    ]},
    ensures={
        "R1": "R1(self._list, self._dict)",
        "R2": "R2(self._list, self._dict)",
        "absent.appended": "implies(not old(present(self._list, key)), len(self._list) == n0() + 1 and "
                           "self._list[n0()] == (key, value) and forall(i, 0, n0(), self._list[i] == old(self._list)[i]))",
        # present: the FIRST occurrence takes the new value in place, every other occurrence disappears, all other pairs
        # stay, in their order (G: current position -> old position, strictly increasing; H its inverse)
        "present.first_in_place": "implies(old(present(self._list, key)), self._list[F] == (key, value) and keyp(F) and "
                                  "forall(i, 0, F, not keyp(i) and self._list[i] == old(self._list)[i]))",
        "present.single": "implies(old(present(self._list, key)), forall(i, 0, len(self._list), implies(self._list[i][0] == key, i == F)))",
        "present.others_kept_in_order": "implies(old(present(self._list, key)), "
                                        "forall(i, 0, len(self._list), implies(i != F, self._list[i] == old(self._list)[G[i]])) and "
                                        "forall(i, 0, len(self._list), forall(j, i + 1, len(self._list), G[i] < G[j])) and "
                                        "forall(p, 0, n0(), implies(not keyp(p), 0 <= H[p] and H[p] < len(self._list) and "
                                        "self._list[H[p]] == old(self._list)[p])))",
    },
    canaries={"never_replaces": "len(self._list) == n0() + 1"},
    notes="the in-place deletion loop is proved with ghost code: G maps current to old positions, H old to current ones; both "
          "are updated by ghost statements attached to `del self._list[index]`",
    **{k: v for k, v in COMMON.items() if k not in ("defs", "requires")})


INIT = Contract(
    id="mm.__init__", file=D, qualname="MultiMapping.__init__", props=["C17"],
    params={"self": ObjT(MM), "raw": Opt(PAIRS)}, defs=DEFS, frame_check=False,
    init_fields={"_list": PAIRS, "_dict": Map(K, V_)},
    stubs={},
    ensures={"R": "R(self._list, self._dict)",
             "view": "implies(not is_none(raw), self._list == raw) and implies(is_none(raw), len(self._list) == 0)"},
    assumptions=["A-dict-1"],
)


def dict_ctor(ev, args, kwargs, node):
    """dict(pairs): keeps the last value per key (A-dict-1)"""
    USED.add("A-dict-1")
    from pyvc.contract import spec_eval
    st = ev.st
    src = st.obj(args[0])
    if src.etype is None:
        ks, vs = opaque_sort("K"), opaque_sort("V")
        return st.alloc(MapObj(z3.K(ks, z3.BoolVal(False)), [z3.K(ks, z3.Const("default!V", vs))], K, V_))
    m = st.alloc(st.fresh_mapobj(K, V_, "dict"))
    f = spec_eval(ev, "R(l_, d_)", {"l_": args[0], "d_": m})
    st.assume(f)
    return m


def register(reg):
    for c in (APPEND, GETLIST, GETITEM, MULTI_ITEMS, DELITEM, SETLIST, POPLIST, INIT, SETITEM):
        reg.add(c)
    reg._mixins[("MutableMultiMapping", "__contains__")] = mm_contains
    reg._mixins[("MultiMapping", "__contains__")] = mm_contains
    reg._ctor_models["dict"] = dict_ctor
