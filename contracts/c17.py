"""C17 -- multi-value mappings (baize/datastructures.py MultiMapping / MutableMultiMapping)."""
import z3

from pyvc.contract import Contract
from pyvc.stubs import USED
from pyvc.values import *  # noqa
from pyvc.builtins import ufunc, S, I, Bz
from pyvc.engine import Unsupported

D = "baize/datastructures.py"
MM = D + ":MutableMultiMapping"
K, V_ = Opaque("K"), Opaque("V")
PAIRS = List(Tup(K, V_))
SELF_T = ObjT(MM, _list=PAIRS, _dict=Map(K, V_))

DEFS = {
    # representation invariant: _dict has exactly the keys of _list and holds the LAST value of each key
    "R(l, d)": "forall((k, K), has(d, k) == exists(i, 0, len(l), l[i][0] == k)) and "
               "forall(i, 0, len(l), implies(forall(j, i + 1, len(l), l[j][0] != l[i][0]), d[l[i][0]] == l[i][1]))",
    "present(l, k)": "exists(i, 0, len(l), l[i][0] == k)",
    "R1(l, d)": "forall((k, K), has(d, k) == exists(i, 0, len(l), l[i][0] == k))",
    "R2(l, d)": "forall(i, 0, len(l), implies(forall(j, i + 1, len(l), l[j][0] != l[i][0]), d[l[i][0]] == l[i][1]))",
}


def mm_contains(ev, recv, args, kwargs, node):
    """Mapping.__contains__ -> self[key] in try/except KeyError -> self._dict[key] (A-abc-1)"""
    USED.add("A-abc-1")
    o = ev.st.obj(recv)
    m = ev.st.obj(o.fields["_dict"])
    return VBool(m.has[unpack(args[0])[0]])


COMMON = dict(defs=DEFS, requires=["R(self._list, self._dict)"])

APPEND = Contract(
    id="mm.append", file=D, qualname="MutableMultiMapping.append", props=["C17"],
    params={"self": SELF_T, "key": K, "value": V_}, modifies=["self._list", "self._dict"],
    ensures={"R": "R(self._list, self._dict)",
             "view": "len(self._list) == len(old(self._list)) + 1 and self._list[len(self._list) - 1] == (key, value) and "
                     "forall(i, 0, len(old(self._list)), self._list[i] == old(self._list)[i])"},
    **COMMON)

GETLIST = Contract(
    id="mm.getlist", file=D, qualname="MultiMapping.getlist", props=["C17"],
    params={"self": SELF_T, "key": K}, returns=List(V_),
    ensures={
        # the values of `key` in order: an order-preserving bijection with the positions holding `key`
        "only_values_of_key": "forall(j, 0, len(result), exists(i, 0, len(self._list), self._list[i][0] == key and self._list[i][1] == result[j]))",
        "all_values_of_key": "forall(i, 0, len(self._list), implies(self._list[i][0] == key, exists(j, 0, len(result), result[j] == self._list[i][1])))",
        "empty_iff_absent": "(len(result) == 0) == (not present(self._list, key))",
    },
    canaries={"always_empty": "len(result) == 0"},
    **COMMON)

GETITEM = Contract(
    id="mm.__getitem__", file=D, qualname="MultiMapping.__getitem__", props=["C17"],
    params={"self": SELF_T, "key": K}, returns=V_,
    raises={"KeyError": "not present(self._list, key)"},
    ensures={"last_value": "forall(i, 0, len(self._list), implies(self._list[i][0] == key and "
                           "forall(j, i + 1, len(self._list), self._list[j][0] != key), result == self._list[i][1]))",
             "present": "present(self._list, key)"},
    **COMMON)

MULTI_ITEMS = Contract(
    id="mm.multi_items", file=D, qualname="MultiMapping.multi_items", props=["C17"],
    params={"self": SELF_T}, returns=PAIRS,
    ensures={"is_the_list": "result == self._list"},
    **COMMON)

DELITEM = Contract(
    id="mm.__delitem__", file=D, qualname="MutableMultiMapping.__delitem__", props=["C17"],
    params={"self": SELF_T, "key": K}, modifies=["self._list", "self._dict"],
    raises={"KeyError": "not present(self._list, key)"},
    raises_ensures={"KeyError": {"ensures": ["self._list == old(self._list)", "self._dict == old(self._dict)"]}},
    ensures={
        "R": "R(self._list, self._dict)",
        "removed": "not present(self._list, key)",
        "others_kept_in_order": "forall(i, 0, len(self._list), exists(p, 0, len(old(self._list)), old(self._list)[p] == self._list[i])) and "
                                "forall(p, 0, len(old(self._list)), implies(old(self._list)[p][0] != key, "
                                "exists(i, 0, len(self._list), self._list[i] == old(self._list)[p])))",
        "was_present": "old(present(self._list, key))",
    },
    **COMMON)

SETLIST = Contract(
    id="mm.setlist", file=D, qualname="MutableMultiMapping.setlist", props=["C17"],
    params={"self": SELF_T, "key": K, "values": List(V_)}, modifies=["self._list", "self._dict"],
    raises={},
    ensures={
        "R1": "R1(self._list, self._dict)",
        "R2": "R2(self._list, self._dict)",
        "values_of_key": "implies(len(values) > 0, forall(j, 0, len(values), self._list[len(self._list) - len(values) + j] == (key, values[j])) and "
                         "forall(i, 0, len(self._list) - len(values), self._list[i][0] != key))",
        "empty_removes": "implies(len(values) == 0, not present(self._list, key))",
        "others_kept": "forall(p, 0, len(old(self._list)), implies(old(self._list)[p][0] != key, "
                       "exists(i, 0, len(self._list), self._list[i] == old(self._list)[p])))",
    },
    cuts={"self._list": [
        "self._list[len(self._list) - 1][0] == key",
        "forall(p, 0, len(old(self._list)), implies(old(self._list)[p][0] != key, exists(i, 0, len(self._list), self._list[i] == old(self._list)[p])))",
        "forall(i, 0, len(self._list), self._list[i][0] == key or exists(p, 0, len(old(self._list)), old(self._list)[p] == self._list[i]))",
    ]},
    **COMMON)

POPLIST = Contract(
    id="mm.poplist", file=D, qualname="MutableMultiMapping.poplist", props=["C17"],
    params={"self": SELF_T, "key": K}, returns=List(V_), modifies=["self._list", "self._dict"],
    raises={},
    ensures={
        "R": "R(self._list, self._dict)",
        "removed": "not present(self._list, key)",
        "returned": "forall(i, 0, len(old(self._list)), implies(old(self._list)[i][0] == key, "
                    "exists(j, 0, len(result), result[j] == old(self._list)[i][1])))",
    },
    **COMMON)

INIT = Contract(
    id="mm.__init__", file=D, qualname="MultiMapping.__init__", props=["C17"],
    params={"self": ObjT(MM), "raw": Opt(PAIRS)}, defs=DEFS, frame_check=False,
    init_fields={"_list": PAIRS, "_dict": Map(K, V_)},
    stubs={},
    ensures={"R": "R(self._list, self._dict)",
             "view": "implies(not is_none(raw), self._list == raw) and implies(is_none(raw), len(self._list) == 0)"},
    assumptions=["A-dict-1"],
)


def dict_ctor(ev, args, kwargs, node):
    """dict(pairs): keeps the last value per key (A-dict-1)"""
    USED.add("A-dict-1")
    from pyvc.contract import spec_eval
    st = ev.st
    src = st.obj(args[0])
    if src.etype is None:
        ks, vs = opaque_sort("K"), opaque_sort("V")
        return st.alloc(MapObj(z3.K(ks, z3.BoolVal(False)), [z3.K(ks, z3.Const("default!V", vs))], K, V_))
    m = st.alloc(st.fresh_mapobj(K, V_, "dict"))
    f = spec_eval(ev, "R(l_, d_)", {"l_": args[0], "d_": m})
    st.assume(f)
    return m


def register(reg):
    for c in (APPEND, GETLIST, GETITEM, MULTI_ITEMS, DELITEM, SETLIST, POPLIST, INIT):
        reg.add(c)
    reg._mixins[("MutableMultiMapping", "__contains__")] = mm_contains
    reg._mixins[("MultiMapping", "__contains__")] = mm_contains
    reg._ctor_models["dict"] = dict_ctor
