"""C03 -- FileResponseMixin.parse_range (baize/responses.py)."""
import z3

from pyvc.contract import Contract
from pyvc.stubs import USED
from pyvc.values import *  # noqa
from pyvc.builtins import int_ok, int_of, mk_quant

F = "baize/responses.py"


def findall_stub(ev, args, kwargs, node):
    """A-re-1 + A-int-1: re.findall(r"(\\d*)-(\\d*)", s) returns pairs of (possibly empty) decimal numerals;
    int() of a non-empty one (<= 4300 digits, see requires) succeeds and is >= 0."""
    USED.update(("A-re-1", "A-int-1"))
    from pyvc.builtins import const_str
    pat = const_str(args[0]) if args else None
    if pat != r"(\d*)-(\d*)":
        # the assumed contract is about THIS pattern; any other one is outside it (undecided - the bounded layer decides)
        ev.unsupported(node, "re.findall with the pattern %r: the assumed contract A-re-1 is about r'(\\d*)-(\\d*)'" % (pat,))
    return ev.st.ghost["specs"]


def watch_extra(ev):
    """numeral values of the abstract findall groups, so a model can be turned into a real header"""
    specs = ev.st.obj(ev.st.ghost["specs"])
    out = {}
    for i in range(8):
        out["specs_val[%d][0]" % i] = int_of(specs.cols[0][z3.IntVal(i)])
        out["specs_val[%d][1]" % i] = int_of(specs.cols[1][z3.IntVal(i)])
    return out


def model_to_inputs(m):
    n = max(0, min(int(m.get("specs.len", 0)), 8))
    parts = []
    for i in range(n):
        f = m.get("specs[%d][0]" % i, "")
        l = m.get("specs[%d][1]" % i, "")
        fs = "" if f == "" else str(max(0, int(m.get("specs_val[%d][0]" % i, 0))))
        ls = "" if l == "" else str(max(0, int(m.get("specs_val[%d][1]" % i, 0))))
        parts.append(fs + "-" + ls)
    raw = m.get("range_raw_line", "")
    if "=" not in raw:
        header = "".join(ch for ch in raw if ch not in "0123456789-") or "x"
    else:
        header = raw.split("=", 1)[0] + "=" + ",".join(parts)
    return {"header": header, "size": int(m.get("max_size", 0))}


DEFS = {
    "keep(f, l)": "not (f == '' and l == '')",
    "lo(f, l)": "int_of(f) if f != '' else max_size - int_of(l)",
    "hi(f, l)": "(int_of(l) + 1 if int_of(l) < max_size else max_size) if (f != '' and l != '') else max_size",
    "unsat_(f, l)": "keep(f, l) and not (0 <= lo(f, l) and lo(f, l) < max_size)",
    "malformed(f, l)": "f != '' and l != '' and int_of(f) > int_of(l)",
    "cov(rs, x)": "exists(k, 0, len(rs), rs[k][0] <= x and x < rs[k][1])",
    "den(x)": "exists(i, 0, len(specs), keep(specs[i][0], specs[i][1]) and "
              "lo(specs[i][0], specs[i][1]) <= x and x < hi(specs[i][0], specs[i][1]))",
    "bytes_unit()": "range_raw_line.startswith('bytes=')",
    "some_spec()": "exists(i, 0, len(specs), keep(specs[i][0], specs[i][1]))",
    "some_unsat()": "exists(i, 0, len(specs), unsat_(specs[i][0], specs[i][1]))",
    "some_malformed()": "exists(i, 0, len(specs), malformed(specs[i][0], specs[i][1]))",
    # a numeral int() refuses (beyond the interpreter's digit limit) makes the header malformed
    "convertible(f, l)": "(f == '' or int_ok(f)) and (l == '' or int_ok(l))",
    "some_too_long()": "exists(i, 0, len(specs), keep(specs[i][0], specs[i][1]) and not convertible(specs[i][0], specs[i][1]))",
}

PARSE_RANGE = Contract(
    id="parse_range", file=F, qualname="FileResponseMixin.parse_range", props=["C03", "C02", "C12"],
    params={"range_raw_line": Str, "max_size": Int},
    ghosts={"specs": List(Tup(Str, Str)), "x": Int},
    forall_ghosts=["x"],   # x is an arbitrary byte position: never assigned, so a proof for the symbol is a proof for all x
    requires=["max_size >= 0",
              # A-re-1 + A-int-1: each group is "" or a decimal numeral; int() of a numeral either succeeds with a value >= 0 or
              # (more than 4300 digits) raises ValueError
              "forall(k, 0, len(specs), implies(specs[k][0] != '' and int_ok(specs[k][0]), int_of(specs[k][0]) >= 0)"
              " and implies(specs[k][1] != '' and int_ok(specs[k][1]), int_of(specs[k][1]) >= 0))"],
    local_raises=["ValueError"],
    returns=List(Tup(Int, Int)),
    stubs={"re.findall": findall_stub},
    ufuncs={"int_of": ([Str], Int), "int_ok": ([Str], Bool)},
    defs=DEFS,
    ensures={
        "shape.nonempty": "len(result) >= 1",
        "shape.bounds": "forall(k, 0, len(result), 0 <= result[k][0] and result[k][0] < result[k][1] "
                        "and result[k][1] <= max_size)",
        "shape.separated": "forall(k, 0, len(result) - 1, result[k][1] < result[k + 1][0])",
        "meaning.sound": "implies(cov(result, x), den(x))",
        "meaning.complete": "implies(den(x), cov(result, x))",
        "accept.exact": "bytes_unit() and some_spec() and not some_unsat() and not some_malformed() and not some_too_long()",
    },
    raises={
        "MalformedRangeHeader": "not bytes_unit() or not some_spec() or some_malformed() or some_too_long()",
        "RangeNotSatisfiable": "some_unsat()",
    },
    raises_ensures={
        "MalformedRangeHeader": {"fields": {"status_code": Int, "headers": NoneT, "content": Str},
                                 "ensures": ["exc.status_code == 400", "exc.headers is None"]},
        "RangeNotSatisfiable": {"fields": {"status_code": Int, "headers": Dict(**{"Content-Range": Str}), "content": NoneT},
                                "ensures": ["exc.status_code == 416", "exc.content is None",
                                            "exc.headers['Content-Range'] == '*/' + str(max_size)"]},
    },
    invariants={1: [
        "forall(k, 0, len(result), 0 <= result[k][0] and result[k][0] < result[k][1] and result[k][1] <= max_size)",
        "forall(k, 0, len(result) - 1, result[k][1] < result[k + 1][0])",
        "implies(IDX > 0, len(result) > 0)",
        "implies(len(result) > 0 and IDX < len(SEQ), result[len(result) - 1][0] <= SEQ[IDX][0])",
        "cov(result, x) == exists(j, 0, IDX, SEQ[j][0] <= x and x < SEQ[j][1])",
    ]},
    locals={"result": List(Tup(Int, Int))},
    # lemma proved right after the comprehension: every computed end is clipped to the file size
    cuts={"ranges": ["forall(k, 0, len(ranges), ranges[k][1] <= max_size)"]},
    canaries={"single": "len(result) <= 1"},
    assumptions=["A-re-1", "A-int-1", "A-sorted", "A-split"],
    watch_extra=watch_extra, model_to_inputs=model_to_inputs, native=("c03", "replay"),
)


def register(reg):
    reg.add(PARSE_RANGE)
