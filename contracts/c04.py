"""C04 -- WSGI == ASGI: twin functions are the same program after await-erasure (AST lemmas), and twin contracts state
the same functional clauses (shared-contract lemma)."""
import re

import z3

from pyvc.contract import Contract
from pyvc.values import *  # noqa
from contracts import c01, c02, c05, c08, c09, c14, c07

W, A = "baize/wsgi/", "baize/asgi/"

# functions that are meant to be literally the same code on both sides
AST_TWINS = [
    ("staticfiles.py", "Files.file_response"), ("staticfiles.py", "Pages.ensure_absolute_path"),
    ("responses.py", "SmallResponse.__init__"), ("responses.py", "JSONResponse.__init__"), ("responses.py", "RedirectResponse.__init__"),
    ("responses.py", "StreamingResponse.__init__"), ("responses.py", "StreamResponse.__init__"),
    ("responses.py", "SendEventResponse.__init__"), ("responses.py", "FileResponse.__init__"),
    ("responses.py", "PlainTextResponse.render"), ("responses.py", "JSONResponse.render"),
    ("requests.py", "Request.form"), ("requests.py", "Request._parse_multipart"),
    ("shortcut.py", "decorator"),
]


def make_ast_lemma(fname, qual):
    def lemma(ev):
        a = c01._normal_form(W + fname, qual)
        b = c01._normal_form(A + fname, qual)
        if a != b:
            # textual identity is a SUFFICIENT condition for equivalence, used as a shortcut: where the two copies are spelled
            # differently the shortcut does not apply - undecided here, the differential bounded layer decides
            from pyvc.engine import Unsupported
            raise Unsupported("%s: the WSGI and the ASGI copy are no longer the same text (syntactic shortcut not applicable)" % qual)
        return z3.BoolVal(True)
    lemma.note = "%s: the WSGI and the ASGI copy are the same program after await-erasure" % qual
    return lemma


# contract pairs verified against the same functional clauses.  `same` = clause keys whose text must be identical after the
# sanctioned renamings of the two gateways (status line vs status int, yield vs body event, environ vs scope)
PAIRS = [
    (c02.W_HANDLE_ALL, c02.A_HANDLE_ALL, ["start.once", "content-length", "content-type", "headers.kept"]),
    (c02.W_HANDLE_SINGLE, c02.A_HANDLE_SINGLE, ["start.once", "content-range", "content-length", "content-type", "headers.kept"]),
    (c02.W_HANDLE_SEVERAL, c02.A_HANDLE_SEVERAL, ["start.once", "content-type", "content-length", "headers.kept"]),
    (c02.W_CALL, c02.A_CALL, ["start.once", "full.when_not_honoured", "partial.when_honoured", "head.empty"]),
    (c05.W_RESPONSE_CALL, c05.A_RESPONSE_CALL, ["start.once", "content-length"]),
    (c05.W_SMALL_CALL, c05.A_SMALL_CALL, ["start.once", "content-length", "content-type"]),
    (c05.W_REDIRECT, c05.A_REDIRECT, ["location", "location.clean", "status"]),
    (c14.W_FILE_RESPONSE, c14.A_FILE_RESPONSE, ["decision", "file", "cache_headers"]),
    (c09.W_SUBPATHS_CALL, c09.A_SUBPATHS_CALL, ["hit.full_path_kept", "hit.remainder_is_a_path"]),
]
RENAMES = [(r"tr\.status == status_line\((\w+(?:\.\w+)*)\)", r"STATUS(\1)"), (r"tr\.code == (\w+(?:\.\w+)*)", r"STATUS(\1)"),
           (r"out\.n_yield", "out.N"), (r"out\.n_body", "out.N"), (r"old\(scope\['path'\]\)", "OLDPATH"), (r"old_path\(\)", "OLDPATH")]


def _norm(text):
    t = " ".join(text.split())
    for pat, rep in RENAMES:
        t = re.sub(pat, rep, t)
    return t


def make_pair_lemma(wc, ac, keys):
    def lemma(ev):
        bad = []
        for k in keys:
            if k not in wc.ensures or k not in ac.ensures:
                bad.append("%s missing" % k)
            elif _norm(wc.ensures[k]) != _norm(ac.ensures[k]):
                bad.append(k)
        lemma.details = bad
        return z3.BoolVal(not bad)
    lemma.note = "%s / %s are verified against the same clauses %s (text equal up to the sanctioned gateway renamings)" % (wc.id, ac.id, keys)
    return lemma


LEMMAS = {}
for _f, _q in AST_TWINS:
    LEMMAS["same_program[%s]" % _q] = make_ast_lemma(_f, _q)
for _w, _a, _k in PAIRS:
    LEMMAS["same_contract[%s]" % _w.id.split(".", 1)[1]] = make_pair_lemma(_w, _a, _k)

EQUIV = Contract(
    id="c04.equivalence", file="baize/wsgi/responses.py", qualname="Response", props=["C04"], bodyless=True, lemmas=LEMMAS,
    notes="out_w == spec(x) and out_a == spec(x) => out_w == out_a: the per-side obligations are those of C02/C05/C08/C09/C14; this "
          "contract checks that the two sides are (a) literally the same program where they are meant to be and (b) verified "
          "against the same functional clauses elsewhere.  Sanctioned difference: the Connection header of the ASGI event stream.",
)


def register(reg):
    reg.add(EQUIV)
