"""C16 -- cookies: set_cookie / delete_cookie (Expires in UTC, Max-Age) and the request-side cookie parser."""
import z3

from pyvc.contract import Contract
from pyvc.stubs import USED
from pyvc.values import *  # noqa
from pyvc.builtins import ufunc, S, I, Bz
from pyvc.engine import PyRaise, Unsupported
from contracts.hdrs import MH_T

R = "baize/responses.py"
RQ = "baize/requests.py"
FLOAT = Opaque("Float")
DT = Opaque("Datetime")


def time_stub(ev, args, kwargs, node):
    return ev.st.ghost["now"]


def fromtimestamp_stub(ev, args, kwargs, node):
    """datetime.fromtimestamp(t) is LOCAL broken-down time; with tz=timezone.utc it is UTC (A-time-1)"""
    USED.add("A-time-1")
    t = args[0]
    tz = kwargs.get("tz", args[1] if len(args) > 1 else None)
    if tz is None or isinstance(tz, VNone):
        return VOpaque(ufunc("local_datetime", opaque_sort("Float"), opaque_sort("Datetime"))(t.t), "Datetime")
    if isinstance(tz, VGlobal) and tz.name.endswith("timezone.utc"):
        return VOpaque(ufunc("utc_datetime", opaque_sort("Float"), opaque_sort("Datetime"))(t.t), "Datetime")
    raise Unsupported("fromtimestamp with tz %r" % (tz,))


def cookie_ctor(ev, args, kwargs, node):
    st = ev.st
    g = st.obj(st.ghost["made"])
    fields = {"name": args[0], "value": args[1]}
    fields.update(kwargs)
    ref = st.alloc(Obj("CookieRecord", fields))
    g.fields["n"] = VInt(g.fields["n"].t + 1)
    g.fields["last"] = ref
    return VOpaque(st.fresh(Opaque("Cookie"), "cookie").t, "Cookie")


def float_add(a, b):
    return ufunc("float_plus_int", opaque_sort("Float"), I, opaque_sort("Float"))(a, b)


SELF_T = ObjT(R + ":BaseResponse", headers=MH_T, cookies=List(Opaque("Cookie")), status_code=Int)
REC_T = ObjT("CookieRecord", name=Str, value=Str, expires=Opt(DT), max_age=Int, path=Str)

SET_COOKIE = Contract(
    id="set_cookie", file=R, qualname="BaseResponse.set_cookie", props=["C16"],
    params={"self": SELF_T, "key": Str, "value": Str, "max_age": Int, "expires": Opt(Int), "path": Str, "domain": Opt(Str),
            "secure": Bool, "httponly": Bool, "samesite": Str},
    ghosts={"now": FLOAT, "made": ObjT("MadeGhost", n=Int, last=REC_T)},
    requires=["made.n == 0"],
    ufuncs={"utc_datetime": ([FLOAT], DT), "local_datetime": ([FLOAT], DT), "float_plus_int": ([FLOAT, Int], FLOAT)},
    stubs={"time.time": time_stub, "datetime.datetime.fromtimestamp": fromtimestamp_stub, "Cookie": cookie_ctor},
    modifies=["self.cookies"], ghost_modifies=["made"],
    ensures={
        "one_cookie_added": "made.n == 1 and len(self.cookies) == len(old(self.cookies)) + 1",
        "name_value": "made.last.name == key and made.last.value == value and made.last.max_age == max_age",
        # Expires denotes now + the requested seconds as a UTC (GMT) broken-down time, whatever the process time zone
        "expires_is_utc": "implies(not is_none(expires), made.last.expires == utc_datetime(float_plus_int(now, expires)))",
        "no_expires": "implies(is_none(expires), is_none(made.last.expires))",
    },
    canaries={"never_expires": "is_none(made.last.expires)"},
    assumptions=["A-time-1"],
)


def set_cookie_stub(ev, args, kwargs, node):
    g = ev.st.obj(ev.st.ghost["dc"])
    g.fields["n"] = VInt(g.fields["n"].t + 1)
    g.fields["key"] = args[0]
    g.fields["expires"] = kwargs.get("expires", NONE)
    g.fields["max_age"] = kwargs.get("max_age", VInt(-1))
    return NONE


set_cookie_stub.mods = ("dc",)

DELETE_COOKIE = Contract(
    id="delete_cookie", file=R, qualname="BaseResponse.delete_cookie", props=["C16"],
    params={"self": SELF_T, "key": Str, "value": Str, "path": Str, "domain": Opt(Str), "secure": Bool, "httponly": Bool, "samesite": Str},
    ghosts={"dc": ObjT("DcGhost", n=Int, key=Str, expires=Int, max_age=Int)},
    requires=["dc.n == 0"],
    stubs={"self.set_cookie": set_cookie_stub}, ghost_modifies=["dc"],
    ensures={"already_expired": "dc.n == 1 and dc.key == key and dc.expires == 0 and dc.max_age == 0"},
    notes="expires=0 -> Expires == now (already expired by the time it arrives), Max-Age=0",
)


# ----- request side: MoreInfoFromHeaderMixin.cookies
def unquote_stub(ev, args, kwargs, node):
    """http.cookies._unquote (A-cookie-1): inverse of the quoting on quoted strings, identity otherwise"""
    USED.add("A-cookie-1")
    return VStr(ufunc("cookie_unquote", S, S)(args[0].t))


def headers_get(ev, recv, args, kwargs, node):
    return ev.st.ghost["cookie_header"]


COOKIES = Contract(
    id="request.cookies", file=RQ, qualname="MoreInfoFromHeaderMixin.cookies", props=["C16"],
    params={"self": ObjT(RQ + ":MoreInfoFromHeaderMixin", headers=ObjT("HeadersView"))},
    ghosts={"cookie_header": Str, "chunks": List(Str)},
    stub_methods={("HeadersView", "get"): headers_get},
    stubs={"cookie_header.split": lambda ev, a, k, n: ev.st.ghost["chunks"], "http_cookies._unquote": unquote_stub},
    locals={"cookies": Map(Str, Str)},
    returns=Map(Str, Str),
    ufuncs={"cookie_unquote": ([Str], Str)},
    defs={
        "name_of(c)": "c.partition('=')[0].strip() if has(c, '=') else ''",
        "raw_of(c)": "c.partition('=')[2].strip() if has(c, '=') else c.strip()",
        "kept(c)": "c != '' and (name_of(c) != '' or raw_of(c) != '')",
    },
    ensures={
        # every non-empty chunk name=value contributes its unquoted value; a later duplicate name wins
        "values": "forall(i, 0, len(chunks), implies(kept(chunks[i]) and forall(j, i + 1, len(chunks), implies(kept(chunks[j]), "
                  "name_of(chunks[j]) != name_of(chunks[i]))), has(result, name_of(chunks[i])) and "
                  "result[name_of(chunks[i])] == cookie_unquote(raw_of(chunks[i]))))",
        "only_those": "forall((k, Str), implies(has(result, k), exists(i, 0, len(chunks), kept(chunks[i]) and name_of(chunks[i]) == k)))",
    },
    invariants={1: [
        "forall(i, 0, IDX, implies(kept(SEQ[i]) and forall(j, i + 1, IDX, implies(kept(SEQ[j]), name_of(SEQ[j]) != name_of(SEQ[i]))), "
        "has(cookies, name_of(SEQ[i])) and cookies[name_of(SEQ[i])] == cookie_unquote(raw_of(SEQ[i]))))",
        "forall((k, Str), implies(has(cookies, k), exists(i, 0, IDX, kept(SEQ[i]) and name_of(SEQ[i]) == k)))",
    ]},
    canaries={"empty": "not has(result, 'a')"},
    assumptions=["A-cookie-1", "A-split"],
    notes="`chunks` names cookie_header.split(';') (A-split)",
)


def register(reg):
    for c in (SET_COOKIE, DELETE_COOKIE, COOKIES):
        reg.add(c)
    reg._compare_models.append(lambda a, b, op: None)
