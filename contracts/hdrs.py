"""Header mapping (baize/datastructures.py Headers / MutableHeaders) and BaseResponse.list_headers:
contracts used by C02, C05, C13, C20."""
import z3

from pyvc.contract import Contract
from pyvc.stubs import USED
from pyvc.values import *  # noqa
from pyvc.builtins import ufunc, S, I, Bz, str_lower, mk_quant
from pyvc.engine import PyRaise, Unsupported

D = "baize/datastructures.py"
R = "baize/responses.py"
MH = D + ":MutableHeaders"
HD = D + ":Headers"

MH_T = ObjT(MH, _dict=Map(Str, Str))

DEFS = {
    "unclean(s)": "has(s, '\\n') or has(s, '\\r') or has(s, '\\0')",
    # abstract view of a header mapping m: every stored name/value is free of CR, LF, NUL
    "CLEAN(m)": "forall((k, Str), implies(has(m, k), not unclean(k) and not unclean(m[k])))",
    "LOWER(m)": "forall((k, Str), implies(has(m, k), lower(k) == k))",
    "same_except(m, m0, key)": "forall((k, Str), implies(k != key, has(m, k) == has(m0, k) and "
                               "implies(has(m0, k), m[k] == m0[k])))",
}

SETITEM = Contract(
    id="MutableHeaders.__setitem__", file=D, qualname="MutableHeaders.__setitem__", props=["C13", "C05", "C02"],
    params={"self": MH_T, "key": Str, "value": Str},
    defs=DEFS,
    modifies=["self._dict"],
    raises={"ValueError": "unclean(key) or unclean(value)"},
    raises_ensures={"ValueError": {"ensures": ["self._dict == old(self._dict)"]}},
    ensures={
        "accepted.clean": "not unclean(key) and not unclean(value)",
        "stored": "has(self._dict, lower(key)) and self._dict[lower(key)] == value",
        "others": "same_except(self._dict, old(self._dict), lower(key))",
        "CLEAN.kept": "implies(old(CLEAN(self._dict)), CLEAN(self._dict))",
        "LOWER.kept": "implies(old(LOWER(self._dict)), LOWER(self._dict))",
    },
    assumptions=["A-lower"],
)

DELITEM = Contract(
    id="MutableHeaders.__delitem__", file=D, qualname="MutableHeaders.__delitem__", props=["C13"],
    params={"self": MH_T, "key": Str},
    defs=DEFS,
    modifies=["self._dict"],
    raises={"KeyError": "not has(self._dict, lower(key))"},
    raises_ensures={"KeyError": {"ensures": ["self._dict == old(self._dict)"]}},
    ensures={
        "removed": "not has(self._dict, lower(key))",
        "others": "same_except(self._dict, old(self._dict), lower(key))",
        "CLEAN.kept": "implies(old(CLEAN(self._dict)), CLEAN(self._dict))",
        "LOWER.kept": "implies(old(LOWER(self._dict)), LOWER(self._dict))",
    },
)

GETITEM = Contract(
    id="Headers.__getitem__", file=D, qualname="Headers.__getitem__", props=["C13"],
    params={"self": ObjT(HD, _dict=Map(Str, Str)), "key": Str},
    returns=Str,
    raises={"KeyError": "not has(self._dict, lower(key))"},
    ensures={"value": "has(self._dict, lower(key)) and result == self._dict[lower(key)]"},
)

APPEND = Contract(
    id="MutableHeaders.append", file=D, qualname="MutableHeaders.append", props=["C13", "C14"],
    params={"self": MH_T, "key": Str, "value": Str},
    defs=DEFS,
    modifies=["self._dict"],
    raises={"ValueError": "unclean(key) or unclean(value) or (has(self._dict, lower(key)) and unclean(self._dict[lower(key)]))"},
    raises_ensures={"ValueError": {"ensures": ["self._dict == old(self._dict)"]}},
    ensures={
        "stored": "has(self._dict, lower(key)) and self._dict[lower(key)] == "
                  "(old(self._dict)[lower(key)] + ', ' + value if has(old(self._dict), lower(key)) else value)",
        "others": "same_except(self._dict, old(self._dict), lower(key))",
        "CLEAN.kept": "implies(old(CLEAN(self._dict)), CLEAN(self._dict))",
    },
)


def mapping_contains(ev, recv, args, kwargs, node):
    """collections.abc.Mapping.__contains__: `self[key]` inside try/except KeyError (A-abc-1)"""
    USED.add("A-abc-1")
    o = ev.st.obj(recv)
    m = ev.st.obj(o.fields["_dict"])
    k = args[0]
    return VBool(m.has[str_lower(ev, k.t)])


def mapping_get(ev, recv, args, kwargs, node):
    USED.add("A-abc-1")
    o = ev.st.obj(recv)
    m = ev.st.obj(o.fields["_dict"])
    k = str_lower(ev, args[0].t)
    default = args[1] if len(args) > 1 else kwargs.get("default", NONE)
    v = VStr(m.val[0][k])
    if ev.pure:
        return ev.ite(m.has[k], v, default)
    return v if ev.st.decide(m.has[k]) else default


def mutablemapping_update(ev, recv, args, kwargs, node):
    """collections.abc.MutableMapping.update(other): `self[key] = other[key]` for every key (A-abc-1)"""
    USED.add("A-abc-1")
    from pyvc.builtins import call_method
    src = args[0]
    so = ev.st.obj(src)
    if not isinstance(so, DictObj):
        raise Unsupported("headers.update() with a non-concrete mapping")
    for k, v in so.items.items():
        call_method(ev, recv, "__setitem__", [VStr(k), v], {}, node)
    return NONE


# ----- the emitted header list (BaseResponse.list_headers): an opaque value with a map view
def hl_has(t, k):
    return ufunc("hl_has", opaque_sort("HeaderList"), S, Bz)(t, k)


def hl_get(t, k):
    return ufunc("hl_get", opaque_sort("HeaderList"), S, S)(t, k)


LIST_HEADERS = Contract(
    id="list_headers", file=R, qualname="BaseResponse.list_headers", props=["C05", "C13", "C02"],
    params={"self": ObjT("baize/responses.py:BaseResponse", headers=MH_T, cookies=List(Opaque("Cookie"))), "as_bytes": Bool},
    returns=Opaque("HeaderList"),
    ufuncs={"hl_has": ([Opaque("HeaderList"), Str], Bool), "hl_get": ([Opaque("HeaderList"), Str], Str),
            "hl_bytes": ([Opaque("HeaderList")], Bool), "hl_ncookies": ([Opaque("HeaderList")], Int)},
    ensures={
        "map": "forall((k, Str), hl_has(result, k) == has(self.headers._dict, k) and "
               "implies(has(self.headers._dict, k), hl_get(result, k) == self.headers._dict[k]))",
        "kind": "hl_bytes(result) == as_bytes",
        "cookies": "hl_ncookies(result) == len(self.cookies)",
    },
    bodyless=True,
    notes="call-site summary of list_headers: the emitted list is the header map's items plus one set-cookie line per "
          "cookie; its body is checked in the C13/C05 checks (bounded), here it is an assumed contract (A-list-headers)",
    assumptions=["A-list-headers"],
)


# ----- the body of list_headers against a concrete list (what the summary above abstracts)
def _items_stub(ev, recv, args, kwargs, node):
    """Mapping.items() of the header mapping (collections.abc mixin): one (k, self[k]) pair per key (A-abc-1); the pair
    list is named by the ghost `its`"""
    from pyvc.builtins import mk_quant
    USED.add("A-abc-1")
    st = ev.st
    m = st.obj(st.obj(recv).fields["_dict"])
    ref = st.ghost["its"]
    lo = st.obj(ref)
    n = lo.length
    kc, vc = lo.cols
    i, j = z3.Int(st.run.fresh_name("it_i")), z3.Int(st.run.fresh_name("it_j"))
    st.assume(mk_quant("forall", [i], z3.Implies(z3.And(0 <= i, i < n), z3.And(m.has[kc[i]], vc[i] == m.val[0][kc[i]])),
                       patterns=[kc[i]]))
    st.assume(mk_quant("forall", [i, j], z3.Implies(z3.And(0 <= i, i < j, j < n), kc[i] != kc[j]),
                       patterns=[z3.MultiPattern(kc[i], kc[j])]))
    pos = z3.Function(st.run.fresh_name("items.pos"), S, z3.IntSort())
    k = z3.String(st.run.fresh_name("it_k"))
    st.assume(mk_quant("forall", [k], z3.Implies(m.has[k], z3.And(0 <= pos(k), pos(k) < n, kc[pos(k)] == k)), patterns=[m.has[k]]))
    return ref


_items_stub.mods = ()
_items_stub.mutates_recv = False


def _cookie_str(ev, args, kwargs, node):
    """str(cookie) / bytes(cookie): Cookie.__str__ (its own contract in C13/C16) seen as a function of the cookie;
    ASCII by that contract, so bytes(cookie) is the same text"""
    c = args[0]
    return VStr(ufunc("cookie_text", opaque_sort("Cookie"), S)(c.t), node.func.id == "bytes")


LIST_HEADERS_BODY = Contract(
    id="list_headers[body]", file=R, qualname="BaseResponse.list_headers", props=["C05", "C13", "C02", "C20"],
    params={"self": ObjT("baize/responses.py:BaseResponse", headers=MH_T, cookies=List(Opaque("Cookie"))), "as_bytes": Bool},
    ghosts={"its": List(Tup(Str, Str))},
    requires=["forall((k, Str), implies(has(self.headers._dict, k), inre(k, '[\\x00-\\xff]*') and "
              "inre(self.headers._dict[k], '[\\x00-\\xff]*')))"],    # header text is Latin-1 (kept by the mutators, C13)
    ufuncs={"cookie_text": ([Opaque("Cookie")], Str)},
    stub_methods={(MH, "items"): _items_stub}, stubs={"str": _cookie_str, "bytes": _cookie_str},
    applies=lambda ev, args, kwargs: False,      # call sites use the summary above; this contract only verifies the body
    frame_check=False, raises={},
    ensures={
        # the emitted list is exactly: the mapping's items (one line per name, same text), then one set-cookie line per
        # cookie in order - nothing else, nothing twice
        "length": "len(result) == len(its) + len(self.cookies)",
        "header_lines": "forall(i, 0, len(its), result[i][0] == (its[i][0].encode('latin-1') if as_bytes else its[i][0]) and "
                        "result[i][1] == (its[i][1].encode('latin-1') if as_bytes else its[i][1]))",
        "cookie_lines": "forall(j, 0, len(self.cookies), result[len(its) + j][0] == (b'set-cookie' if as_bytes else 'set-cookie') and "
                        "result[len(its) + j][1] == (cookie_text(self.cookies[j]).encode('latin-1') if as_bytes else cookie_text(self.cookies[j])))",
    },
    assumptions=["A-abc-1"],
    notes="verifies the real body of list_headers; `its` names headers.items() (exactly one (k, headers[k]) per key). The "
          "summary contract `list_headers` used at call sites (map view + number of cookie lines) is the abstraction of this",
)


def register(reg):
    for c in (SETITEM, DELITEM, GETITEM, APPEND, LIST_HEADERS, LIST_HEADERS_BODY):
        reg.add(c)
    for cls in ("MutableHeaders", "Headers"):
        reg._mixins[(cls, "__contains__")] = mapping_contains
        reg._mixins[(cls, "get")] = mapping_get
    reg._mixins[("MutableHeaders", "update")] = mutablemapping_update
