"""Header mapping (baize/datastructures.py Headers / MutableHeaders) and BaseResponse.list_headers:
contracts used by C02, C05, C13, C20."""
import z3

from pyvc.contract import Contract
from pyvc.stubs import USED
from pyvc.values import *  # noqa
from pyvc.builtins import ufunc, S, I, Bz, str_lower, mk_quant
from pyvc.engine import PyRaise, Unsupported

D = "baize/datastructures.py"
R = "baize/responses.py"
MH = D + ":MutableHeaders"
HD = D + ":Headers"

MH_T = ObjT(MH, _dict=Map(Str, Str))

DEFS = {
    "unclean(s)": "has(s, '\\n') or has(s, '\\r') or has(s, '\\0')",
    # abstract view of a header mapping m: every stored name/value is free of CR, LF, NUL
    "CLEAN(m)": "forall((k, Str), implies(has(m, k), not unclean(k) and not unclean(m[k])))",
    "LOWER(m)": "forall((k, Str), implies(has(m, k), lower(k) == k))",
    "same_except(m, m0, key)": "forall((k, Str), implies(k != key, has(m, k) == has(m0, k) and "
                               "implies(has(m0, k), m[k] == m0[k])))",
}

SETITEM = Contract(
    id="MutableHeaders.__setitem__", file=D, qualname="MutableHeaders.__setitem__", props=["C13", "C05", "C02"],
    params={"self": MH_T, "key": Str, "value": Str},
    defs=DEFS,
    modifies=["self._dict"],
    raises={"ValueError": "unclean(key) or unclean(value)"},
    raises_ensures={"ValueError": {"ensures": ["self._dict == old(self._dict)"]}},
    ensures={
        "accepted.clean": "not unclean(key) and not unclean(value)",
        "stored": "has(self._dict, lower(key)) and self._dict[lower(key)] == value",
        "others": "same_except(self._dict, old(self._dict), lower(key))",
        "CLEAN.kept": "implies(old(CLEAN(self._dict)), CLEAN(self._dict))",
        "LOWER.kept": "implies(old(LOWER(self._dict)), LOWER(self._dict))",
    },
    assumptions=["A-lower"],
)

DELITEM = Contract(
    id="MutableHeaders.__delitem__", file=D, qualname="MutableHeaders.__delitem__", props=["C13"],
    params={"self": MH_T, "key": Str},
    defs=DEFS,
    modifies=["self._dict"],
    raises={"KeyError": "not has(self._dict, lower(key))"},
    raises_ensures={"KeyError": {"ensures": ["self._dict == old(self._dict)"]}},
    ensures={
        "removed": "not has(self._dict, lower(key))",
        "others": "same_except(self._dict, old(self._dict), lower(key))",
        "CLEAN.kept": "implies(old(CLEAN(self._dict)), CLEAN(self._dict))",
        "LOWER.kept": "implies(old(LOWER(self._dict)), LOWER(self._dict))",
    },
)

GETITEM = Contract(
    id="Headers.__getitem__", file=D, qualname="Headers.__getitem__", props=["C13"],
    params={"self": ObjT(HD, _dict=Map(Str, Str)), "key": Str},
    returns=Str,
    raises={"KeyError": "not has(self._dict, lower(key))"},
    ensures={"value": "has(self._dict, lower(key)) and result == self._dict[lower(key)]"},
)

APPEND = Contract(
    id="MutableHeaders.append", file=D, qualname="MutableHeaders.append", props=["C13", "C14"],
    params={"self": MH_T, "key": Str, "value": Str},
    defs=DEFS,
    modifies=["self._dict"],
    raises={"ValueError": "unclean(key) or unclean(value) or (has(self._dict, lower(key)) and unclean(self._dict[lower(key)]))"},
    raises_ensures={"ValueError": {"ensures": ["self._dict == old(self._dict)"]}},
    ensures={
        "stored": "has(self._dict, lower(key)) and self._dict[lower(key)] == "
                  "(old(self._dict)[lower(key)] + ', ' + value if has(old(self._dict), lower(key)) else value)",
        "others": "same_except(self._dict, old(self._dict), lower(key))",
        "CLEAN.kept": "implies(old(CLEAN(self._dict)), CLEAN(self._dict))",
    },
)


def mapping_contains(ev, recv, args, kwargs, node):
    """collections.abc.Mapping.__contains__: `self[key]` inside try/except KeyError (A-abc-1)"""
    USED.add("A-abc-1")
    o = ev.st.obj(recv)
    m = ev.st.obj(o.fields["_dict"])
    k = args[0]
    return VBool(m.has[str_lower(ev, k.t)])


def mapping_get(ev, recv, args, kwargs, node):
    USED.add("A-abc-1")
    o = ev.st.obj(recv)
    m = ev.st.obj(o.fields["_dict"])
    k = str_lower(ev, args[0].t)
    default = args[1] if len(args) > 1 else kwargs.get("default", NONE)
    v = VStr(m.val[0][k])
    if ev.pure:
        return ev.ite(m.has[k], v, default)
    return v if ev.st.decide(m.has[k]) else default


def mutablemapping_update(ev, recv, args, kwargs, node):
    """collections.abc.MutableMapping.update(other): `self[key] = other[key]` for every key (A-abc-1)"""
    USED.add("A-abc-1")
    from pyvc.builtins import call_method
    src = args[0]
    so = ev.st.obj(src)
    if not isinstance(so, DictObj):
        raise Unsupported("headers.update() with a non-concrete mapping")
    for k, v in so.items.items():
        call_method(ev, recv, "__setitem__", [VStr(k), v], {}, node)
    return NONE


# ----- the emitted header list (BaseResponse.list_headers): an opaque value with a map view
def hl_has(t, k):
    return ufunc("hl_has", opaque_sort("HeaderList"), S, Bz)(t, k)


def hl_get(t, k):
    return ufunc("hl_get", opaque_sort("HeaderList"), S, S)(t, k)


LIST_HEADERS = Contract(
    id="list_headers", file=R, qualname="BaseResponse.list_headers", props=["C05", "C13", "C02"],
    params={"self": ObjT("baize/responses.py:BaseResponse", headers=MH_T, cookies=List(Opaque("Cookie"))), "as_bytes": Bool},
    returns=Opaque("HeaderList"),
    ufuncs={"hl_has": ([Opaque("HeaderList"), Str], Bool), "hl_get": ([Opaque("HeaderList"), Str], Str),
            "hl_bytes": ([Opaque("HeaderList")], Bool), "hl_ncookies": ([Opaque("HeaderList")], Int)},
    ensures={
        "map": "forall((k, Str), hl_has(result, k) == has(self.headers._dict, k) and "
               "implies(has(self.headers._dict, k), hl_get(result, k) == self.headers._dict[k]))",
        "kind": "hl_bytes(result) == as_bytes",
        "cookies": "hl_ncookies(result) == len(self.cookies)",
    },
    bodyless=True,
    notes="call-site summary of list_headers: the emitted list is the header map's items plus one set-cookie line per "
          "cookie; its body is checked in the C13/C05 checks (bounded), here it is an assumed contract (A-list-headers)",
    assumptions=["A-list-headers"],
)


def register(reg):
    for c in (SETITEM, DELITEM, GETITEM, APPEND, LIST_HEADERS):
        reg.add(c)
    for cls in ("MutableHeaders", "Headers"):
        reg._mixins[(cls, "__contains__")] = mapping_contains
        reg._mixins[(cls, "get")] = mapping_get
    reg._mixins[("MutableHeaders", "update")] = mutablemapping_update
