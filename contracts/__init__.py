"""Sidecar contracts for the functions of /repo (one module per group).  Each module defines register(reg)."""
import importlib

MODULES = ["common", "hdrs", "c03", "c02", "c05", "c09", "c08", "c13", "c17", "c14", "c10", "c20", "c16", "c19", "c18", "c07", "c12", "c01", "c11", "c04"]


def load(reg, modules=None):
    for m in modules or MODULES:
        importlib.import_module("contracts." + m).register(reg)
    return reg
