"""C02 (and the emission part of C05) -- file responses: baize/responses.py, baize/wsgi/responses.py,
baize/asgi/responses.py."""
import z3

from pyvc.contract import Contract, spec_value
from pyvc.stubs import USED
from pyvc.values import *  # noqa
from pyvc.builtins import ufunc, S, I, Bz
from pyvc.engine import PyRaise, Unsupported

R = "baize/responses.py"
W = "baize/wsgi/responses.py"
A = "baize/asgi/responses.py"

# spec functions taken from the property statement / RFC 7233 multipart/byteranges layout
DEFS = {
    "part_header(b, ct, ms, s, e)":
        "'--' + b + '\\n' + 'Content-Type: ' + ct + '\\n' + 'Content-Range: bytes ' + str(s) + '-' + str(e - 1) + '/' + str(ms) + '\\n\\n'",
    "closing(b)": "'--' + b + '--\\n'",
}


def gm_returns(ev, env):
    """result of generate_multipart at a call site: (content_length, function computing the spec part header)"""
    st = ev.st
    n = st.fresh(Int, "generate_multipart.len")

    def gen_headers(ev2, args, kwargs, node):
        s, e = args
        sub = ev2.sub(pure=True, spec=True)
        sub.bound.update({"b": env["boundary"], "ct": env["content_type"], "ms": env["max_size"], "s": s, "e": e})
        import ast
        v = sub.expr(GENERATE_MULTIPART.defs_parsed["part_header"][1])
        return VStr(v.t, True, tag=("hdr", s, e))
    gen_headers.mods = ()
    return VTuple([n, VFunc("py", gen_headers, "generate_headers")])


GENERATE_MULTIPART = Contract(
    id="generate_multipart", file=R, qualname="FileResponseMixin.generate_multipart", props=["C02"],
    params={"self": ObjT("mixin"), "ranges": List(Tup(Int, Int)), "boundary": Str, "max_size": Int, "content_type": Str},
    ghosts={"gs": Int, "ge": Int}, forall_ghosts=["gs", "ge"],
    requires=["forall(k, 0, len(ranges), 0 <= ranges[k][0] and ranges[k][0] < ranges[k][1])", "max_size >= 0"],
    defs=DEFS,
    returns=gm_returns,
    ensures={
        # L1/L2: the closed-form Content-Length equals the number of bytes of the body it describes
        "length": "result[0] == sum((len(part_header(boundary, content_type, max_size, s, e)) + (e - s) + 1) "
                  "for s, e in ranges) + len(closing(boundary))",
        # the per-part header generator is the RFC layout
        "header": "result[1](gs, ge) == part_header(boundary, content_type, max_size, gs, ge).encode('latin-1')",
    },
    canaries={"short": "result[0] == sum((len(part_header(boundary, content_type, max_size, s, e)) + (e - s)) "
                       "for s, e in ranges) + len(closing(boundary))"},
    assumptions=["A-int-1", "A-fold-ext"],
    notes="len(s.encode('latin-1')) == len(s) (A-latin1-len); str(int) >= 0 has no sign",
)


def register(reg):
    reg.add(GENERATE_MULTIPART)
    register_handlers(reg)


# =========================================================================== shared ghost machinery
from contracts.hdrs import MH_T, hl_get, hl_has  # noqa

WFR = W + ":FileResponse"
AFR = A + ":FileResponse"

STAT_T = ObjT("stat_result", st_size=Int, st_mtime=Opaque("Float"), st_mode=Int)


def self_t(cls):
    return ObjT(cls, headers=MH_T, cookies=List(Opaque("Cookie")), filepath=Str, content_type=Str, chunk_size=Int,
                status_code=Int, stat_result=STAT_T)


TR_T = ObjT("Trace", n_start=Int, status=Str, code=Int, hl=Opaque("HeaderList"))
OUT_T = ObjT("Out", out_len=Int, n_yield=Int, part_off=Int, cur_end=Int, n_body=Int, last_more=Bool, all_more=Bool,
             opened=Int, phase=Int, n_parts=Int)


def status_line(code_t):
    return ufunc("status_line", I, S)(code_t)


class StatusMap:
    """StatusStringMapping[code] (baize/wsgi/responses.py): table over http.HTTPStatus with a fallback; its
    content is checked exhaustively over 0..999 by the native layer of C05 (A-status-table)."""


def status_index(ev, base, idx, node):
    USED.add("A-status-table")
    return VStr(status_line(idx.t))


def start_response_stub(ev, args, kwargs, node):
    """the server's start_response (A-server: it does not raise).  Legality of the WSGI sequence is an
    obligation at the call: exactly once, and before any body byte was yielded."""
    st = ev.st
    c = ev.frame.root().contract
    tr = st.obj(st.ghost["tr"])
    out = st.obj(st.ghost["out"])
    st.oblige("%s/trace.start_once" % c.id, tr.fields["n_start"].t == 0, note="start_response is called at most once",
              line=getattr(node, "lineno", 0))
    st.oblige("%s/trace.start_before_body" % c.id, out.fields["n_yield"].t == 0,
              note="start_response precedes the first yielded chunk", line=getattr(node, "lineno", 0))
    status, hl = args[0], args[1]
    st.oblige("%s/trace.status_is_str" % c.id, isinstance(status, VStr) and not status.isbytes)
    tr.fields["n_start"] = VInt(tr.fields["n_start"].t + 1)
    tr.fields["status"] = status
    if isinstance(hl, VOpaque) and hl.sort == "HeaderList":
        tr.fields["hl"] = hl
    else:
        # header list built by hand (error path): record it through the view functions
        tr.fields["hl"] = headerlist_from_pairs(ev, hl, node)
    return NONE


start_response_stub.mods = ("tr",)


def headerlist_from_pairs(ev, v, node):
    """[*dict.items()] of a concrete-key dict -> HeaderList view (names as given, NOT lower-cased)"""
    st = ev.st
    items = ev.iter_concrete(v, node)
    hl = st.fresh(Opaque("HeaderList"), "errhl")
    k = z3.String(st.run.fresh_name("hk"))
    names = []
    for it in items:
        name, val = it.items
        names.append(name.t)
        st.assume(hl_has(hl.t, name.t))
        st.assume(hl_get(hl.t, name.t) == val.t)
    st.assume(mk_quant_str(k, z3.Implies(z3.And([k != n for n in names] + [z3.BoolVal(True)]), z3.Not(hl_has(hl.t, k))), hl.t))
    return hl


def mk_quant_str(k, body, hlt):
    return z3.ForAll([k], body, patterns=[hl_has(hlt, k)])


def open_stub(ev, args, kwargs, node):
    """open(path, 'rb') of the response's file: a cursor over an abstract file of `fsize` bytes (A-fs-1/2).
    Raises nothing here: a vanished file is outside C02 (OSError -> 500 is the server's business)."""
    USED.update(("A-fs-1", "A-fs-2"))
    st = ev.st
    out = st.obj(st.ghost["out"])
    out.fields["opened"] = VInt(out.fields["opened"].t + 1)
    return st.alloc(Obj("File", {"pos": VInt(0), "size": st.ghost["fsize"]}))


open_stub.mods = ("out",)


def file_read(ev, recv, args, kwargs, node):
    st = ev.st
    f = st.obj(recv)
    n = args[0]
    c = ev.frame.root().contract
    st.oblige("%s/safe.read_size" % c.id, n.t >= 1, note="read(n) is called with n >= 1 (n <= 0 would read nothing / everything)",
              line=getattr(node, "lineno", 0))
    pos, size = f.fields["pos"].t, f.fields["size"].t
    rem = z3.If(size - pos < 0, 0, size - pos)
    ln = z3.If(n.t <= rem, n.t, rem)
    data = st.fresh(Bytes, "chunk")
    st.assume(z3.Length(data.t) == ln)
    f.fields["pos"] = VInt(pos + ln)
    return VStr(data.t, True, tag=("file", pos, ln))


def file_seek(ev, recv, args, kwargs, node):
    f = ev.st.obj(recv)
    c = ev.frame.root().contract
    ev.st.oblige("%s/safe.seek_offset" % c.id, args[0].t >= 0, line=getattr(node, "lineno", 0))
    f.fields["pos"] = args[0]
    return NONE


FILE_METHODS = {("File", "read"): file_read, ("File", "seek"): file_seek}
for _f in FILE_METHODS.values():
    _f.mods = ()
    _f.mutates_recv = True


def make_yield(expected_off):
    """on_yield hook of the WSGI file handlers.  `expected_off(ev, out)` gives the file offset the next file
    chunk must start at (contiguity => the body is exactly the requested slice)."""
    def on_yield(ev, v, node):
        st = ev.st
        c = ev.frame.root().contract
        out = st.obj(st.ghost["out"])
        line = getattr(node, "lineno", 0)
        st.oblige("%s/yield.bytes" % c.id, isinstance(v, VStr) and v.isbytes, note="only bytes are yielded", line=line)
        if not isinstance(v, VStr):
            return
        tr = st.obj(st.ghost["tr"])
        st.oblige("%s/trace.started_before_yield" % c.id, tr.fields["n_start"].t == 1,
                  note="start_response was called before the first chunk", line=line)
        if v.tag and v.tag[0] == "file":
            off, ln = v.tag[1], v.tag[2]
            st.oblige("%s/yield.contiguous" % c.id, off == expected_off(ev, out),
                      note="file chunk starts where the previous one ended (body == requested slice)", line=line)
            st.oblige("%s/yield.within_part" % c.id, off + ln <= out.fields["cur_end"].t,
                      note="file chunk does not run past the end of the requested range", line=line)
            out.fields["part_off"] = VInt(off + ln)
        elif v.tag and v.tag[0] == "hdr":
            s, e = v.tag[1], v.tag[2]
            st.oblige("%s/yield.prev_part_complete" % c.id, out.fields["part_off"].t == out.fields["cur_end"].t,
                      note="the previous part delivered all of its range before the next part header", line=line)
            out.fields["part_off"] = s
            out.fields["cur_end"] = e
        out.fields["out_len"] = VInt(out.fields["out_len"].t + z3.Length(v.t))
        out.fields["n_yield"] = VInt(out.fields["n_yield"].t + 1)
    return on_yield


def ghost_init(ev, **fields):
    """ghost statement at function entry: (re)initialise the bookkeeping fields of the emission ghost `out`"""
    out = ev.st.obj(ev.st.ghost["out"])
    for k, v in fields.items():
        out.fields[k] = v


COMMON_REQ = [
    "self.chunk_size >= 1", "file_size >= 0", "fsize == file_size",
    "tr.n_start == 0", "out.out_len == 0", "out.n_yield == 0", "out.opened == 0",
]
HDEFS = dict(DEFS)
HDEFS.update({
    "boundary_of(h)": "hl_get(h, 'content-type')[31:]",
    "unclean(s)": "has(s, '\\n') or has(s, '\\r') or has(s, '\\0')",
    "hdr_is(name, v)": "hl_has(tr.hl, name) and hl_get(tr.hl, name) == v",
    "other_headers_kept(a, b, c)": "forall((k, Str), implies(k != a and k != b and k != c, "
                                   "hl_has(tr.hl, k) == has(old(self.headers._dict), k) and "
                                   "implies(hl_has(tr.hl, k), hl_get(tr.hl, k) == old(self.headers._dict)[k])))",
    "nothing_emitted()": "tr.n_start == 0 and out.n_yield == 0 and out.opened == 0",
})
HUF = {"hl_has": ([Opaque("HeaderList"), Str], Bool), "hl_get": ([Opaque("HeaderList"), Str], Str),
       "status_line": ([Int], Str)}


def wsgi_consts():
    return {"StatusStringMapping": VOpaque(z3.Const("StatusStringMapping", opaque_sort("StatusMap")), "StatusMap")}


W_HANDLE_ALL = Contract(
    id="wsgi.handle_all", file=W, qualname="FileResponse.handle_all", props=["C02", "C05"], generator=True,
    params={"self": self_t(WFR), "send_header_only": Bool, "file_size": Int,
            "start_response": TFunc(start_response_stub, "start_response")},
    ghosts={"tr": TR_T, "out": OUT_T, "fsize": Int},
    requires=COMMON_REQ,
    setup=lambda ev: ghost_init(ev, part_off=VInt(0), cur_end=ev.frame.env["file_size"]),
    defs=HDEFS, ufuncs=HUF, consts=wsgi_consts(),
    stubs={"open": open_stub}, stub_methods=FILE_METHODS,
    on_yield=make_yield(lambda ev, out: out.fields["out_len"].t), yield_mods=("out",),
    modifies=["self.headers._dict"], ghost_modifies=["tr", "out"],
    raises={"ValueError": "unclean(self.content_type)"},
    raises_ensures={"ValueError": {"ensures": ["nothing_emitted()"]}},
    ensures={
        "start.once": "tr.n_start == 1",
        "status": "tr.status == status_line(200)",
        "content-length": "hdr_is('content-length', str(file_size))",
        "content-type": "hdr_is('content-type', self.content_type)",
        "headers.kept": "other_headers_kept('content-length', 'content-type', 'content-type')",
        "head": "implies(send_header_only, out.out_len == 0 and out.n_yield == 1 and out.opened == 0)",
        "get": "implies(not send_header_only, out.out_len == file_size and out.part_off == file_size and out.opened == 1)",
    },
    invariants={1: ["file.pos == out.out_len", "file.size == fsize", "out.cur_end == file_size",
                    "out.out_len == (IDX if IDX <= file_size else file_size)", "out.part_off == out.out_len",
                    "tr.n_start == 1", "out.opened == 1"]},
    canaries={"short": "implies(not send_header_only, out.out_len < file_size)"},
    assumptions=["A-fs-1", "A-fs-2", "A-server", "A-status-table", "A-list-headers"],
)


def register_handlers(reg):
    reg._opaque_index["StatusMap"] = status_index
    reg.add(W_HANDLE_ALL)
    reg.add(W_HANDLE_SINGLE)
    reg.add(W_HANDLE_SEVERAL)
    for c in (GENERATE_ETAG, JUDGE_IF_RANGE, W_CALL):
        reg.add(c)


W_HANDLE_SINGLE = Contract(
    id="wsgi.handle_single_range", file=W, qualname="FileResponse.handle_single_range", props=["C02", "C05"], generator=True,
    params={"self": self_t(WFR), "send_header_only": Bool, "file_size": Int,
            "start_response": TFunc(start_response_stub, "start_response"), "start": Int, "end": Int},
    ghosts={"tr": TR_T, "out": OUT_T, "fsize": Int},
    requires=COMMON_REQ + ["0 <= start and start < end and end <= file_size"],
    setup=lambda ev: ghost_init(ev, part_off=ev.frame.env["start"], cur_end=ev.frame.env["end"]),
    defs=HDEFS, ufuncs=HUF, consts=wsgi_consts(),
    stubs={"open": open_stub}, stub_methods=FILE_METHODS,
    on_yield=make_yield(lambda ev, out: out.fields["part_off"].t), yield_mods=("out",),
    modifies=["self.headers._dict"], ghost_modifies=["tr", "out"],
    raises={"ValueError": "unclean(self.content_type)"},
    raises_ensures={"ValueError": {"ensures": ["nothing_emitted()"]}},
    ensures={
        "start.once": "tr.n_start == 1",
        "status": "tr.status == status_line(206)",
        "content-range": "hdr_is('content-range', 'bytes ' + str(start) + '-' + str(end - 1) + '/' + str(file_size))",
        "content-length": "hdr_is('content-length', str(end - start))",
        "content-type": "hdr_is('content-type', self.content_type)",
        "headers.kept": "other_headers_kept('content-length', 'content-type', 'content-range')",
        "head": "implies(send_header_only, out.out_len == 0 and out.n_yield == 1 and out.opened == 0)",
        # contiguity (yield.contiguous, from `start`) + this length => the body is exactly file[start:end]
        "get": "implies(not send_header_only, out.out_len == end - start and out.part_off == end and out.opened == 1)",
    },
    invariants={1: ["file.pos == out.part_off", "file.size == fsize", "out.cur_end == end",
                    "out.part_off == (IDX if IDX <= end else end)", "out.out_len == out.part_off - start",
                    "tr.n_start == 1", "out.opened == 1"]},
    canaries={"short": "implies(not send_header_only, out.out_len < end - start)"},
    assumptions=["A-fs-1", "A-fs-2", "A-server", "A-status-table", "A-list-headers"],
)


def random_choices_stub(ev, args, kwargs, node):
    """random.choices(alphabet, k=13): a list of 13 one-character strings from the alphabet (A-random)"""
    USED.add("A-random")
    st = ev.st
    vals = []
    for i in range(13):
        ch = st.fresh(Str, "rc")
        st.assume(z3.InRe(ch.t, z3.Union(z3.Range("a", "z"), z3.Range("0", "9"))))
        st.assume(z3.Length(ch.t) == 1)
        for bad in ("\n", "\r", "\0"):
            st.assume(ch.t != z3.StringVal(bad))
        vals.append(ch)
    return VTuple(vals)


def several_yield(ev, v, node):
    """on_yield of handle_several_ranges: the body must be  (header_k  slice_k  LF)*  closing-line, parts in the
    order of `ranges`, each header the RFC layout for its range, each slice contiguous and complete.
    phase: 0 expecting a part header or the closing line, 1 inside a part, 2 closed, 3 HEAD (single empty chunk)."""
    from pyvc.contract import spec_value
    st = ev.st
    c = ev.frame.root().contract
    out = st.obj(st.ghost["out"])
    tr = st.obj(st.ghost["tr"])
    line = getattr(node, "lineno", 0)
    st.oblige("%s/yield.bytes" % c.id, isinstance(v, VStr) and v.isbytes, note="only bytes are yielded", line=line)
    if not isinstance(v, VStr):
        return
    st.oblige("%s/trace.started_before_yield" % c.id, tr.fields["n_start"].t == 1, line=line)
    phase = out.fields["phase"].t
    f = out.fields
    if v.tag and v.tag[0] == "hdr":
        s, e = v.tag[1], v.tag[2]
        ranges = ev.frame.root().lookup("ranges")
        ro = st.obj(ranges)
        k = f["n_parts"].t
        st.oblige("%s/yield.part_header_in_phase0" % c.id, phase == 0, line=line)
        st.oblige("%s/yield.part_is_next_range" % c.id, z3.And(k >= 0, k < ro.length, s.t == ro.cols[0][k], e.t == ro.cols[1][k]),
                  note="the k-th part describes the k-th range", line=line)
        want = spec_value(ev, "part_header(boundary_of(tr.hl), self.content_type, file_size, s_, e_)", {"s_": s, "e_": e})
        st.oblige("%s/yield.part_header_text" % c.id, v.t == want.t,
                  note="part header == '--B\\nContent-Type: T\\nContent-Range: bytes s-(e-1)/size\\n\\n' with the boundary announced in Content-Type", line=line)
        f["phase"] = VInt(1)
        f["part_off"] = s
        f["cur_end"] = e
    elif v.tag and v.tag[0] == "file":
        off, ln = v.tag[1], v.tag[2]
        st.oblige("%s/yield.data_in_phase1" % c.id, phase == 1, line=line)
        st.oblige("%s/yield.contiguous" % c.id, off == f["part_off"].t,
                  note="file chunk starts where the previous one ended", line=line)
        st.oblige("%s/yield.within_part" % c.id, off + ln <= f["cur_end"].t, line=line)
        f["part_off"] = VInt(off + ln)
    else:
        if st.decide(phase == 1):
            st.oblige("%s/yield.part_terminator" % c.id, z3.And(v.t == z3.StringVal("\n"), f["part_off"].t == f["cur_end"].t),
                      note="a part ends with LF after all of its range was delivered", line=line)
            f["phase"] = VInt(0)
            f["n_parts"] = VInt(f["n_parts"].t + 1)
        elif st.decide(z3.Length(v.t) == 0):
            st.oblige("%s/yield.empty_only_for_head" % c.id, z3.And(phase == 0, f["n_yield"].t == 0), line=line)
            f["phase"] = VInt(3)
        else:
            want = spec_value(ev, "closing(boundary_of(tr.hl))")
            st.oblige("%s/yield.closing_line" % c.id, z3.And(phase == 0, v.t == want.t),
                      note="the body ends with '--B--\\n'", line=line)
            f["phase"] = VInt(2)
    f["out_len"] = VInt(f["out_len"].t + z3.Length(v.t))
    f["n_yield"] = VInt(f["n_yield"].t + 1)


W_HANDLE_SEVERAL = Contract(
    id="wsgi.handle_several_ranges", file=W, qualname="FileResponse.handle_several_ranges", props=["C02", "C05"], generator=True,
    params={"self": self_t(WFR), "send_header_only": Bool, "file_size": Int,
            "start_response": TFunc(start_response_stub, "start_response"), "ranges": List(Tup(Int, Int))},
    ghosts={"tr": TR_T, "out": OUT_T, "fsize": Int},
    requires=COMMON_REQ + ["forall(k, 0, len(ranges), 0 <= ranges[k][0] and ranges[k][0] < ranges[k][1] and ranges[k][1] <= file_size)",
                           ],
    setup=lambda ev: ghost_init(ev, part_off=VInt(0), cur_end=VInt(0), phase=VInt(0), n_parts=VInt(0)),
    defs=HDEFS, ufuncs=HUF, consts=wsgi_consts(),
    stubs={"open": open_stub, "random_choices": random_choices_stub}, stub_methods=FILE_METHODS,
    on_yield=several_yield, yield_mods=("out",),
    modifies=["self.headers._dict"], ghost_modifies=["tr", "out"],
    raises={},   # no header value of this path is caller-controlled: nothing may escape
    ensures={
        "start.once": "tr.n_start == 1",
        "status": "tr.status == status_line(206)",
        "content-type": "hl_has(tr.hl, 'content-type') and hl_get(tr.hl, 'content-type').startswith('multipart/byteranges; boundary=') "
                        "and len(boundary_of(tr.hl)) == 13",
        # declared length == bytes of the body: sum over the parts of header + slice + LF, plus the closing line
        "content-length": "hdr_is('content-length', str(sum((len(part_header(boundary_of(tr.hl), self.content_type, file_size, s, e))"
                          " + (e - s) + 1) for s, e in ranges) + len(closing(boundary_of(tr.hl)))))",
        "head": "implies(send_header_only, out.out_len == 0 and out.n_yield == 1 and out.opened == 0 and out.phase == 3)",
        "get": "implies(not send_header_only, str(out.out_len) == hl_get(tr.hl, 'content-length') and "
               "out.phase == 2 and out.n_parts == len(ranges) and out.opened == 1)",
        "headers.kept": "other_headers_kept('content-length', 'content-type', 'content-type')",
    },
    invariants={
        1: ["file.size == fsize", "tr.n_start == 1", "out.opened == 1", "out.phase == 0", "out.n_parts == IDX",
            "out.out_len == sum_upto(IDX, ((len(part_header(boundary, self.content_type, file_size, s, e)) + (e - s) + 1) for s, e in ranges))",
            "hl_get(tr.hl, 'content-length') == str(content_length)", "hl_has(tr.hl, 'content-length')"],
        2: ["file.size == fsize", "tr.n_start == 1", "out.opened == 1", "out.cur_end == end", "file.pos == out.part_off",
            "out.phase == 1", "out.n_parts == IDX1",
            "out.part_off == (IDX if IDX <= end else end)", "start <= out.part_off",
            "out.out_len == sum_upto(IDX1, ((len(part_header(boundary, self.content_type, file_size, s, e)) + (e - s) + 1) for s, e in ranges))"
            " + len(part_header(boundary, self.content_type, file_size, start, end)) + (out.part_off - start)",
            "hl_get(tr.hl, 'content-length') == str(content_length)", "hl_has(tr.hl, 'content-length')"],
    },
    assumptions=["A-fs-1", "A-fs-2", "A-server", "A-status-table", "A-list-headers", "A-random", "A-fold-ext"],
)


# =========================================================================== dispatch
from contracts import c03 as _c03  # noqa

ENV_T = Dict(REQUEST_METHOD=Str, HTTP_RANGE=Maybe_(Str), HTTP_IF_RANGE=Maybe_(Str))


def etag_of(stat_ref_t):
    return ufunc("etag_of", opaque_sort("Float"), I, S)


def generate_etag_returns(ev, env):
    """generate_etag at a call site: a function of (st_mtime, st_size) only (A-sha-1: treated as uninterpreted)"""
    st_ = ev.st.obj(env["stat_result"])
    return VStr(ufunc("etag_of", opaque_sort("Float"), I, S)(st_.fields["st_mtime"].t, st_.fields["st_size"].t))


GENERATE_ETAG = Contract(
    id="generate_etag", file=R, qualname="FileResponseMixin.generate_etag", props=["C02", "C14"],
    params={"stat_result": STAT_T}, returns=generate_etag_returns, bodyless=True,
    notes="sha1(f'{mtime}-{size}') is summarised as an uninterpreted function of (mtime, size) (A-sha-1)",
    assumptions=["A-sha-1"],
)


def formatdate_stub(ev, args, kwargs, node):
    """email.utils.formatdate(t, usegmt=True): a function of t (A-fmt-1)"""
    USED.add("A-fmt-1")
    return VStr(ufunc("httpdate", opaque_sort("Float"), S)(args[0].t))


JUDGE_IF_RANGE = Contract(
    id="judge_if_range", file=R, qualname="FileResponseMixin.judge_if_range", props=["C02"],
    params={"cls": Opaque("Class"), "if_range_raw_line": Str, "stat_result": STAT_T},
    returns=Bool,
    ufuncs={"etag_of": ([Opaque("Float"), Int], Str), "httpdate": ([Opaque("Float")], Str)},
    stubs={"formatdate": formatdate_stub, "cls.generate_etag": lambda ev, a, k, n: generate_etag_returns(ev, {"stat_result": a[0]})},
    ensures={"iff": "result == (if_range_raw_line == '\"' + etag_of(stat_result.st_mtime, stat_result.st_size) + '\"' "
                    "or if_range_raw_line == httpdate(stat_result.st_mtime))"},
    canaries={"always": "result"},
    assumptions=["A-sha-1", "A-fmt-1"],
)

CALL_DEFS = dict(HDEFS)
CALL_DEFS.update(_c03.DEFS)
CALL_DEFS.update({
    "size()": "self.stat_result.st_size",
    "head()": "environ['REQUEST_METHOD'] == 'HEAD'",
    "has_range()": "has(environ, 'HTTP_RANGE')",
    "if_range_ok()": "not has(environ, 'HTTP_IF_RANGE') or environ['HTTP_IF_RANGE'] == '\"' + "
                     "etag_of(self.stat_result.st_mtime, self.stat_result.st_size) + '\"' or "
                     "environ['HTTP_IF_RANGE'] == httpdate(self.stat_result.st_mtime)",
    "honoured()": "has_range() and if_range_ok()",
    "acceptable()": "bytes_unit() and some_spec() and not some_unsat() and not some_malformed()",
})
CALL_UF = dict(HUF)
CALL_UF.update({"etag_of": ([Opaque("Float"), Int], Str), "httpdate": ([Opaque("Float")], Str),
                "int_of": ([Str], Int), "int_ok": ([Str], Bool)})


def call_consts(range_expr):
    d = wsgi_consts()
    from pyvc.contract import spec_value
    d["range_raw_line"] = lambda ev: spec_value(ev, range_expr)
    d["max_size"] = lambda ev: spec_value(ev, "self.stat_result.st_size")
    return d


def call_yield(ev, v, node):
    """the error path yields one chunk itself (everything else comes from the handlers' contracts)"""
    st = ev.st
    c = ev.frame.root().contract
    out = st.obj(st.ghost["out"])
    tr = st.obj(st.ghost["tr"])
    st.oblige("%s/yield.bytes" % c.id, isinstance(v, VStr) and v.isbytes, line=getattr(node, "lineno", 0))
    st.oblige("%s/trace.started_before_yield" % c.id, tr.fields["n_start"].t == 1, line=getattr(node, "lineno", 0))
    out.fields["out_len"] = VInt(out.fields["out_len"].t + z3.Length(v.t))
    out.fields["n_yield"] = VInt(out.fields["n_yield"].t + 1)


W_CALL = Contract(
    id="wsgi.FileResponse.__call__", file=W, qualname="FileResponse.__call__", props=["C02", "C05", "C12"], generator=True,
    params={"self": self_t(WFR), "environ": ENV_T, "start_response": TFunc(start_response_stub, "start_response")},
    ghosts={"tr": TR_T, "out": OUT_T, "fsize": Int, "specs": List(Tup(Str, Str)), "x": Int},
    requires=["self.chunk_size >= 1", "self.stat_result.st_size >= 0", "fsize == self.stat_result.st_size",
              "tr.n_start == 0", "out.out_len == 0", "out.n_yield == 0", "out.opened == 0",
              _c03.PARSE_RANGE.requires[1]],
    defs=CALL_DEFS, ufuncs=CALL_UF, consts=call_consts("environ['HTTP_RANGE']"),
    on_yield=call_yield, yield_mods=("out",),
    modifies=["self.headers._dict"], ghost_modifies=["tr", "out"],
    raises={"ValueError": "unclean(self.content_type)"},
    raises_ensures={"ValueError": {"ensures": ["out.n_yield == 0 and out.opened == 0 and tr.n_start == 0"]}},
    ensures={
        "start.once": "tr.n_start == 1",
        "full.when_not_honoured": "implies(not honoured(), tr.status == status_line(200) and "
                                  "hdr_is('content-length', str(size())) and out.out_len == (0 if head() else size()))",
        "partial.when_honoured": "implies(honoured() and acceptable(), tr.status == status_line(206) and "
                                 "(head() or str(out.out_len) == hl_get(tr.hl, 'content-length')))",
        "reject.when_honoured": "implies(honoured() and not acceptable(), "
                                "(tr.status == status_line(400) or tr.status == status_line(416)) and "
                                "out.opened == 0 and out.n_yield == 1)",
        "reject.416": "implies(tr.status == status_line(416), hl_has(tr.hl, 'Content-Range') and "
                      "hl_get(tr.hl, 'Content-Range') == '*/' + str(size()) or not honoured() or acceptable())",
        "head.empty": "implies(head() and (not honoured() or acceptable()), out.out_len == 0 and out.opened == 0)",
    },
    axioms=["forall(a, forall(b, implies(status_line(a) == status_line(b), a == b)))"],
    assumptions=["A-status-table", "A-server", "A-re-1", "A-int-1"],
    canaries={"never_partial": "tr.status != status_line(206)"},
)
