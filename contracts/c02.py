"""C02 (and the emission part of C05) -- file responses: baize/responses.py, baize/wsgi/responses.py,
baize/asgi/responses.py."""
import z3

from pyvc.contract import Contract, spec_value
from pyvc.stubs import USED
from pyvc.values import *  # noqa
from pyvc.builtins import ufunc, S, I, Bz
from pyvc.engine import PyRaise, Unsupported

R = "baize/responses.py"
W = "baize/wsgi/responses.py"
A = "baize/asgi/responses.py"

# spec functions taken from the property statement / RFC 7233 multipart/byteranges layout
DEFS = {
    "part_header(b, ct, ms, s, e)":
        "'--' + b + '\\n' + 'Content-Type: ' + ct + '\\n' + 'Content-Range: bytes ' + str(s) + '-' + str(e - 1) + '/' + str(ms) + '\\n\\n'",
    "closing(b)": "'--' + b + '--\\n'",
}


def gm_returns(ev, env):
    """result of generate_multipart at a call site: (content_length, function computing the spec part header)"""
    st = ev.st
    n = st.fresh(Int, "generate_multipart.len")

    def gen_headers(ev2, args, kwargs, node):
        s, e = args
        sub = ev2.sub(pure=True, spec=True)
        sub.bound.update({"b": env["boundary"], "ct": env["content_type"], "ms": env["max_size"], "s": s, "e": e})
        import ast
        v = sub.expr(GENERATE_MULTIPART.defs_parsed["part_header"][1])
        return VStr(v.t, True, tag=("hdr", s, e))
    gen_headers.mods = ()
    return VTuple([n, VFunc("py", gen_headers, "generate_headers")])


GENERATE_MULTIPART = Contract(
    id="generate_multipart", file=R, qualname="FileResponseMixin.generate_multipart", props=["C02"],
    params={"self": ObjT("mixin"), "ranges": List(Tup(Int, Int)), "boundary": Str, "max_size": Int, "content_type": Str},
    ghosts={"gs": Int, "ge": Int}, forall_ghosts=["gs", "ge"],
    requires=["forall(k, 0, len(ranges), 0 <= ranges[k][0] and ranges[k][0] < ranges[k][1])", "max_size >= 0"],
    defs=DEFS,
    returns=gm_returns,
    ensures={
        # L1/L2: the closed-form Content-Length equals the number of bytes of the body it describes
        "length": "result[0] == sum((len(part_header(boundary, content_type, max_size, s, e)) + (e - s) + 1) "
                  "for s, e in ranges) + len(closing(boundary))",
        # the per-part header generator is the RFC layout
        "header": "result[1](gs, ge) == part_header(boundary, content_type, max_size, gs, ge).encode('latin-1')",
    },
    canaries={"short": "result[0] == sum((len(part_header(boundary, content_type, max_size, s, e)) + (e - s)) "
                       "for s, e in ranges) + len(closing(boundary))"},
    assumptions=["A-int-1", "A-fold-ext"],
    notes="len(s.encode('latin-1')) == len(s) (A-latin1-len); str(int) >= 0 has no sign",
)


def register(reg):
    reg.add(GENERATE_MULTIPART)
    register_handlers(reg)
    register_asgi(reg)


# =========================================================================== shared ghost machinery
from contracts.hdrs import MH_T, hl_get, hl_has  # noqa

WFR = W + ":FileResponse"
AFR = A + ":FileResponse"

STAT_T = ObjT("stat_result", st_size=Int, st_mtime=Opaque("Float"), st_mode=Int)


def self_t(cls):
    return ObjT(cls, headers=MH_T, cookies=List(Opaque("Cookie")), filepath=Str, content_type=Str, chunk_size=Int,
                status_code=Int, stat_result=STAT_T)


TR_T = ObjT("Trace", n_start=Int, status=Str, code=Int, hl=Opaque("HeaderList"))
OUT_T = ObjT("Out", out_len=Int, n_yield=Int, part_off=Int, cur_end=Int, n_body=Int, closed=Bool,
             opened=Int, fd_closed=Int, phase=Int, n_parts=Int)


def status_line(code_t):
    return ufunc("status_line", I, S)(code_t)


class StatusMap:
    """StatusStringMapping[code] (baize/wsgi/responses.py): table over http.HTTPStatus with a fallback; its
    content is checked exhaustively over 0..999 by the native layer of C05 (A-status-table)."""


def status_index(ev, base, idx, node):
    USED.add("A-status-table")
    return VStr(status_line(idx.t))


def start_response_stub(ev, args, kwargs, node):
    """the server's start_response (A-server: it does not raise).  Legality of the WSGI sequence is an
    obligation at the call: exactly once, and before any body byte was yielded."""
    st = ev.st
    c = ev.frame.root().contract
    tr = st.obj(st.ghost["tr"])
    out = st.obj(st.ghost["out"])
    st.oblige("%s/trace.start_once" % c.id, tr.fields["n_start"].t == 0, note="start_response is called at most once",
              line=getattr(node, "lineno", 0))
    st.oblige("%s/trace.start_before_body" % c.id, out.fields["n_yield"].t == 0,
              note="start_response precedes the first yielded chunk", line=getattr(node, "lineno", 0))
    status, hl = args[0], args[1]
    st.oblige("%s/trace.status_is_str" % c.id, isinstance(status, VStr) and not status.isbytes)
    tr.fields["n_start"] = VInt(tr.fields["n_start"].t + 1)
    tr.fields["status"] = status
    if isinstance(hl, VOpaque) and hl.sort == "HeaderList":
        tr.fields["hl"] = hl
    else:
        # header list built by hand (error path): record it through the view functions
        tr.fields["hl"] = headerlist_from_pairs(ev, hl, node)
    return NONE


start_response_stub.mods = ("tr",)


def headerlist_from_pairs(ev, v, node):
    """[*dict.items()] of a concrete-key dict -> HeaderList view (names as given, NOT lower-cased)"""
    st = ev.st
    items = ev.iter_concrete(v, node)
    hl = st.fresh(Opaque("HeaderList"), "errhl")
    k = z3.String(st.run.fresh_name("hk"))
    names = []
    for it in items:
        name, val = it.items
        names.append(name.t)
        st.assume(hl_has(hl.t, name.t))
        st.assume(hl_get(hl.t, name.t) == val.t)
    st.assume(mk_quant_str(k, z3.Implies(z3.And([k != n for n in names] + [z3.BoolVal(True)]), z3.Not(hl_has(hl.t, k))), hl.t))
    return hl


def mk_quant_str(k, body, hlt):
    return z3.ForAll([k], body, patterns=[hl_has(hlt, k)])


def open_stub(ev, args, kwargs, node):
    """open(path, 'rb') of the response's file: a cursor over an abstract file of `fsize` bytes (A-fs-1/2).
    Raises nothing here: a vanished file is outside C02 (OSError -> 500 is the server's business)."""
    USED.update(("A-fs-1", "A-fs-2"))
    st = ev.st
    out = st.obj(st.ghost["out"])
    out.fields["opened"] = VInt(out.fields["opened"].t + 1)
    return st.alloc(Obj("File", {"pos": VInt(0), "size": st.ghost["fsize"]}))


open_stub.mods = ("out",)


def file_read(ev, recv, args, kwargs, node):
    st = ev.st
    f = st.obj(recv)
    n = args[0]
    c = ev.frame.root().contract
    st.oblige("%s/safe.read_size" % c.id, n.t >= 1, note="read(n) is called with n >= 1 (n <= 0 would read nothing / everything)",
              line=getattr(node, "lineno", 0))
    pos, size = f.fields["pos"].t, f.fields["size"].t
    rem = z3.If(size - pos < 0, 0, size - pos)
    ln = z3.If(n.t <= rem, n.t, rem)
    data = st.fresh(Bytes, "chunk")
    st.assume(z3.Length(data.t) == ln)
    f.fields["pos"] = VInt(pos + ln)
    return VStr(data.t, True, tag=("file", pos, ln))


def file_seek(ev, recv, args, kwargs, node):
    f = ev.st.obj(recv)
    c = ev.frame.root().contract
    ev.st.oblige("%s/safe.seek_offset" % c.id, args[0].t >= 0, line=getattr(node, "lineno", 0))
    f.fields["pos"] = args[0]
    return NONE


FILE_METHODS = {("File", "read"): file_read, ("File", "seek"): file_seek}
for _f in FILE_METHODS.values():
    _f.mods = ()
    _f.mutates_recv = True


def make_yield(expected_off):
    """on_yield hook of the WSGI file handlers.  `expected_off(ev, out)` gives the file offset the next file
    chunk must start at (contiguity => the body is exactly the requested slice)."""
    def on_yield(ev, v, node):
        st = ev.st
        c = ev.frame.root().contract
        out = st.obj(st.ghost["out"])
        line = getattr(node, "lineno", 0)
        st.oblige("%s/yield.bytes" % c.id, isinstance(v, VStr) and v.isbytes, note="only bytes are yielded", line=line)
        if not isinstance(v, VStr):
            return
        tr = st.obj(st.ghost["tr"])
        st.oblige("%s/trace.started_before_yield" % c.id, tr.fields["n_start"].t == 1,
                  note="start_response was called before the first chunk", line=line)
        if v.tag and v.tag[0] == "file":
            off, ln = v.tag[1], v.tag[2]
            st.oblige("%s/yield.contiguous" % c.id, off == expected_off(ev, out),
                      note="file chunk starts where the previous one ended (body == requested slice)", line=line)
            st.oblige("%s/yield.within_part" % c.id, off + ln <= out.fields["cur_end"].t,
                      note="file chunk does not run past the end of the requested range", line=line)
            out.fields["part_off"] = VInt(off + ln)
        elif v.tag and v.tag[0] == "hdr":
            s, e = v.tag[1], v.tag[2]
            st.oblige("%s/yield.prev_part_complete" % c.id, out.fields["part_off"].t == out.fields["cur_end"].t,
                      note="the previous part delivered all of its range before the next part header", line=line)
            out.fields["part_off"] = s
            out.fields["cur_end"] = e
        out.fields["out_len"] = VInt(out.fields["out_len"].t + z3.Length(v.t))
        out.fields["n_yield"] = VInt(out.fields["n_yield"].t + 1)
    return on_yield


def ghost_init(ev, **fields):
    """ghost statement at function entry: (re)initialise the bookkeeping fields of the emission ghost `out`"""
    out = ev.st.obj(ev.st.ghost["out"])
    for k, v in fields.items():
        out.fields[k] = v


COMMON_REQ = [
    "self.chunk_size >= 1", "file_size >= 0", "fsize == file_size",
    "tr.n_start == 0", "out.out_len == 0", "out.n_yield == 0", "out.opened == 0",
]
HDEFS = dict(DEFS)
HDEFS.update({
    "boundary_of(h)": "hl_get(h, 'content-type')[31:]",
    "unclean(s)": "has(s, '\\n') or has(s, '\\r') or has(s, '\\0')",
    "hdr_is(name, v)": "hl_has(tr.hl, name) and hl_get(tr.hl, name) == v",
    "other_headers_kept(a, b, c)": "forall((k, Str), implies(k != a and k != b and k != c, "
                                   "hl_has(tr.hl, k) == has(old(self.headers._dict), k) and "
                                   "implies(hl_has(tr.hl, k), hl_get(tr.hl, k) == old(self.headers._dict)[k])))",
    "nothing_emitted()": "tr.n_start == 0 and out.n_yield == 0 and out.opened == 0",
})
HUF = {"hl_has": ([Opaque("HeaderList"), Str], Bool), "hl_get": ([Opaque("HeaderList"), Str], Str),
       "status_line": ([Int], Str)}


def wsgi_consts():
    return {"StatusStringMapping": VOpaque(z3.Const("StatusStringMapping", opaque_sort("StatusMap")), "StatusMap")}


W_HANDLE_ALL = Contract(
    id="wsgi.handle_all", file=W, qualname="FileResponse.handle_all", props=["C02", "C05"], generator=True,
    params={"self": self_t(WFR), "send_header_only": Bool, "file_size": Int,
            "start_response": TFunc(start_response_stub, "start_response")},
    ghosts={"tr": TR_T, "out": OUT_T, "fsize": Int},
    requires=COMMON_REQ,
    setup=lambda ev: ghost_init(ev, part_off=VInt(0), cur_end=ev.frame.env["file_size"]),
    defs=HDEFS, ufuncs=HUF, consts=wsgi_consts(),
    stubs={"open": open_stub}, stub_methods=FILE_METHODS,
    on_yield=make_yield(lambda ev, out: out.fields["out_len"].t), yield_mods=("out",),
    modifies=["self.headers._dict"], ghost_modifies=["tr", "out"],
    raises={"ValueError": "unclean(self.content_type)"},
    raises_ensures={"ValueError": {"ensures": ["nothing_emitted()"]}},
    ensures={
        "start.once": "tr.n_start == 1",
        "status": "tr.status == status_line(200)",
        "content-length": "hdr_is('content-length', str(file_size))",
        "content-type": "hdr_is('content-type', self.content_type)",
        "headers.kept": "other_headers_kept('content-length', 'content-type', 'content-type')",
        "head": "implies(send_header_only, out.out_len == 0 and out.n_yield == 1 and out.opened == 0)",
        "get": "implies(not send_header_only, out.out_len == file_size and out.part_off == file_size and out.opened == 1)",
    },
    invariants={1: ["file.pos == out.out_len", "file.size == fsize", "out.cur_end == file_size",
                    "out.out_len == (IDX if IDX <= file_size else file_size)", "out.part_off == out.out_len",
                    "tr.n_start == 1", "out.opened == 1"]},
    canaries={"short": "implies(not send_header_only, out.out_len < file_size)"},
    assumptions=["A-fs-1", "A-fs-2", "A-server", "A-status-table", "A-list-headers"],
)


def register_handlers(reg):
    reg._opaque_index["StatusMap"] = status_index
    reg.add(W_HANDLE_ALL)
    reg.add(W_HANDLE_SINGLE)
    reg.add(W_HANDLE_SEVERAL)
    for c in (GENERATE_ETAG, JUDGE_IF_RANGE, W_CALL, SEND_HTTP_START, SEND_HTTP_BODY, FAKE_SENDFILE, ZC_SENDFILE):
        reg.add(c)


W_HANDLE_SINGLE = Contract(
    id="wsgi.handle_single_range", file=W, qualname="FileResponse.handle_single_range", props=["C02", "C05"], generator=True,
    params={"self": self_t(WFR), "send_header_only": Bool, "file_size": Int,
            "start_response": TFunc(start_response_stub, "start_response"), "start": Int, "end": Int},
    ghosts={"tr": TR_T, "out": OUT_T, "fsize": Int},
    requires=COMMON_REQ + ["0 <= start and start < end and end <= file_size"],
    setup=lambda ev: ghost_init(ev, part_off=ev.frame.env["start"], cur_end=ev.frame.env["end"]),
    defs=HDEFS, ufuncs=HUF, consts=wsgi_consts(),
    stubs={"open": open_stub}, stub_methods=FILE_METHODS,
    on_yield=make_yield(lambda ev, out: out.fields["part_off"].t), yield_mods=("out",),
    modifies=["self.headers._dict"], ghost_modifies=["tr", "out"],
    raises={"ValueError": "unclean(self.content_type)"},
    raises_ensures={"ValueError": {"ensures": ["nothing_emitted()"]}},
    ensures={
        "start.once": "tr.n_start == 1",
        "status": "tr.status == status_line(206)",
        "content-range": "hdr_is('content-range', 'bytes ' + str(start) + '-' + str(end - 1) + '/' + str(file_size))",
        "content-length": "hdr_is('content-length', str(end - start))",
        "content-type": "hdr_is('content-type', self.content_type)",
        "headers.kept": "other_headers_kept('content-length', 'content-type', 'content-range')",
        "head": "implies(send_header_only, out.out_len == 0 and out.n_yield == 1 and out.opened == 0)",
        # contiguity (yield.contiguous, from `start`) + this length => the body is exactly file[start:end]
        "get": "implies(not send_header_only, out.out_len == end - start and out.part_off == end and out.opened == 1)",
    },
    invariants={1: ["file.pos == out.part_off", "file.size == fsize", "out.cur_end == end",
                    "out.part_off == (IDX if IDX <= end else end)", "out.out_len == out.part_off - start",
                    "tr.n_start == 1", "out.opened == 1"]},
    canaries={"short": "implies(not send_header_only, out.out_len < end - start)"},
    assumptions=["A-fs-1", "A-fs-2", "A-server", "A-status-table", "A-list-headers"],
)


def random_choices_stub(ev, args, kwargs, node):
    """random.choices(alphabet, k=13): a list of 13 one-character strings from the alphabet (A-random)"""
    USED.add("A-random")
    st = ev.st
    vals = []
    for i in range(13):
        ch = st.fresh(Str, "rc")
        st.assume(z3.InRe(ch.t, z3.Union(z3.Range("a", "z"), z3.Range("0", "9"))))
        st.assume(z3.Length(ch.t) == 1)
        for bad in ("\n", "\r", "\0"):
            st.assume(ch.t != z3.StringVal(bad))
        vals.append(ch)
    return VTuple(vals)


def several_yield(ev, v, node):
    """on_yield of handle_several_ranges: the body must be  (header_k  slice_k  LF)*  closing-line, parts in the
    order of `ranges`, each header the RFC layout for its range, each slice contiguous and complete.
    phase: 0 expecting a part header or the closing line, 1 inside a part, 2 closed, 3 HEAD (single empty chunk)."""
    from pyvc.contract import spec_value
    st = ev.st
    c = ev.frame.root().contract
    out = st.obj(st.ghost["out"])
    tr = st.obj(st.ghost["tr"])
    line = getattr(node, "lineno", 0)
    st.oblige("%s/yield.bytes" % c.id, isinstance(v, VStr) and v.isbytes, note="only bytes are yielded", line=line)
    if not isinstance(v, VStr):
        return
    st.oblige("%s/trace.started_before_yield" % c.id, tr.fields["n_start"].t == 1, line=line)
    phase = out.fields["phase"].t
    f = out.fields
    if v.tag and v.tag[0] == "hdr":
        s, e = v.tag[1], v.tag[2]
        ranges = ev.frame.outermost().lookup("ranges")
        ro = st.obj(ranges)
        k = f["n_parts"].t
        st.oblige("%s/yield.part_header_in_phase0" % c.id, phase == 0, line=line)
        st.oblige("%s/yield.part_is_next_range" % c.id, z3.And(k >= 0, k < ro.length, s.t == ro.cols[0][k], e.t == ro.cols[1][k]),
                  note="the k-th part describes the k-th range", line=line)
        want = spec_value(ev, "part_header(boundary_of(tr.hl), self.content_type, file_size, s_, e_)", {"s_": s, "e_": e})
        st.oblige("%s/yield.part_header_text" % c.id, v.t == want.t,
                  note="part header == '--B\\nContent-Type: T\\nContent-Range: bytes s-(e-1)/size\\n\\n' with the boundary announced in Content-Type", line=line)
        f["phase"] = VInt(1)
        f["part_off"] = s
        f["cur_end"] = e
    elif v.tag and v.tag[0] == "file":
        off, ln = v.tag[1], v.tag[2]
        st.oblige("%s/yield.data_in_phase1" % c.id, phase == 1, line=line)
        st.oblige("%s/yield.contiguous" % c.id, off == f["part_off"].t,
                  note="file chunk starts where the previous one ended", line=line)
        st.oblige("%s/yield.within_part" % c.id, off + ln <= f["cur_end"].t, line=line)
        f["part_off"] = VInt(off + ln)
    else:
        if st.decide(phase == 1):
            st.oblige("%s/yield.part_terminator" % c.id, z3.And(v.t == z3.StringVal("\n"), f["part_off"].t == f["cur_end"].t),
                      note="a part ends with LF after all of its range was delivered", line=line)
            f["phase"] = VInt(0)
            f["n_parts"] = VInt(f["n_parts"].t + 1)
        elif st.decide(z3.Length(v.t) == 0):
            st.oblige("%s/yield.empty_only_for_head" % c.id, z3.And(phase == 0, f["n_yield"].t == 0), line=line)
            f["phase"] = VInt(3)
        else:
            want = spec_value(ev, "closing(boundary_of(tr.hl))")
            st.oblige("%s/yield.closing_line" % c.id, z3.And(phase == 0, v.t == want.t),
                      note="the body ends with '--B--\\n'", line=line)
            f["phase"] = VInt(2)
    f["out_len"] = VInt(f["out_len"].t + z3.Length(v.t))
    f["n_yield"] = VInt(f["n_yield"].t + 1)


W_HANDLE_SEVERAL = Contract(
    id="wsgi.handle_several_ranges", file=W, qualname="FileResponse.handle_several_ranges", props=["C02", "C05"], generator=True,
    params={"self": self_t(WFR), "send_header_only": Bool, "file_size": Int,
            "start_response": TFunc(start_response_stub, "start_response"), "ranges": List(Tup(Int, Int))},
    ghosts={"tr": TR_T, "out": OUT_T, "fsize": Int},
    requires=COMMON_REQ + ["forall(k, 0, len(ranges), 0 <= ranges[k][0] and ranges[k][0] < ranges[k][1] and ranges[k][1] <= file_size)",
                           ],
    setup=lambda ev: ghost_init(ev, part_off=VInt(0), cur_end=VInt(0), phase=VInt(0), n_parts=VInt(0)),
    defs=HDEFS, ufuncs=HUF, consts=wsgi_consts(),
    stubs={"open": open_stub, "random_choices": random_choices_stub}, stub_methods=FILE_METHODS,
    on_yield=several_yield, yield_mods=("out",),
    modifies=["self.headers._dict"], ghost_modifies=["tr", "out"],
    raises={},   # no header value of this path is caller-controlled: nothing may escape
    ensures={
        "start.once": "tr.n_start == 1",
        "status": "tr.status == status_line(206)",
        "content-type": "hl_has(tr.hl, 'content-type') and hl_get(tr.hl, 'content-type').startswith('multipart/byteranges; boundary=') "
                        "and len(boundary_of(tr.hl)) == 13",
        # declared length == bytes of the body: sum over the parts of header + slice + LF, plus the closing line
        "content-length": "hdr_is('content-length', str(sum((len(part_header(boundary_of(tr.hl), self.content_type, file_size, s, e))"
                          " + (e - s) + 1) for s, e in ranges) + len(closing(boundary_of(tr.hl)))))",
        "head": "implies(send_header_only, out.out_len == 0 and out.n_yield == 1 and out.opened == 0 and out.phase == 3)",
        "get": "implies(not send_header_only, str(out.out_len) == hl_get(tr.hl, 'content-length') and "
               "out.phase == 2 and out.n_parts == len(ranges) and out.opened == 1)",
        "headers.kept": "other_headers_kept('content-length', 'content-type', 'content-type')",
    },
    invariants={
        1: ["file.size == fsize", "tr.n_start == 1", "out.opened == 1", "out.phase == 0", "out.n_parts == IDX",
            "out.out_len == sum_upto(IDX, ((len(part_header(boundary, self.content_type, file_size, s, e)) + (e - s) + 1) for s, e in ranges))",
            "hl_get(tr.hl, 'content-length') == str(content_length)", "hl_has(tr.hl, 'content-length')"],
        2: ["file.size == fsize", "tr.n_start == 1", "out.opened == 1", "out.cur_end == end", "file.pos == out.part_off",
            "out.phase == 1", "out.n_parts == IDX1",
            "out.part_off == (IDX if IDX <= end else end)", "start <= out.part_off",
            "out.out_len == sum_upto(IDX1, ((len(part_header(boundary, self.content_type, file_size, s, e)) + (e - s) + 1) for s, e in ranges))"
            " + len(part_header(boundary, self.content_type, file_size, start, end)) + (out.part_off - start)",
            "hl_get(tr.hl, 'content-length') == str(content_length)", "hl_has(tr.hl, 'content-length')"],
    },
    assumptions=["A-fs-1", "A-fs-2", "A-server", "A-status-table", "A-list-headers", "A-random", "A-fold-ext"],
    cuts={"boundary": ["len(boundary) == 13", "not unclean(boundary)"]},
)


# =========================================================================== dispatch
from contracts import c03 as _c03  # noqa

ENV_T = Dict(REQUEST_METHOD=Str, HTTP_RANGE=Maybe_(Str), HTTP_IF_RANGE=Maybe_(Str))


def etag_of(stat_ref_t):
    return ufunc("etag_of", opaque_sort("Float"), I, S)


def generate_etag_returns(ev, env):
    """generate_etag at a call site: a function of (st_mtime, st_size) only (A-sha-1: treated as uninterpreted)"""
    st_ = ev.st.obj(env["stat_result"])
    return VStr(ufunc("etag_of", opaque_sort("Float"), I, S)(st_.fields["st_mtime"].t, st_.fields["st_size"].t))


GENERATE_ETAG = Contract(
    id="generate_etag", file=R, qualname="FileResponseMixin.generate_etag", props=["C02", "C14"],
    params={"stat_result": STAT_T}, returns=generate_etag_returns, bodyless=True,
    notes="sha1(f'{mtime}-{size}') is summarised as an uninterpreted function of (mtime, size) (A-sha-1)",
    assumptions=["A-sha-1"],
)


def formatdate_stub(ev, args, kwargs, node):
    """email.utils.formatdate(t, usegmt=True): a function of t (A-fmt-1)"""
    USED.add("A-fmt-1")
    return VStr(ufunc("httpdate", opaque_sort("Float"), S)(args[0].t))


JUDGE_IF_RANGE = Contract(
    id="judge_if_range", file=R, qualname="FileResponseMixin.judge_if_range", props=["C02"],
    params={"cls": Opaque("Class"), "if_range_raw_line": Str, "stat_result": STAT_T},
    returns=Bool,
    ufuncs={"etag_of": ([Opaque("Float"), Int], Str), "httpdate": ([Opaque("Float")], Str)},
    stubs={"formatdate": formatdate_stub, "cls.generate_etag": lambda ev, a, k, n: generate_etag_returns(ev, {"stat_result": a[0]})},
    ensures={"iff": "result == (if_range_raw_line == '\"' + etag_of(stat_result.st_mtime, stat_result.st_size) + '\"' "
                    "or if_range_raw_line == httpdate(stat_result.st_mtime))"},
    canaries={"always": "result"},
    assumptions=["A-sha-1", "A-fmt-1"],
)

CALL_DEFS = dict(HDEFS)
CALL_DEFS.update(_c03.DEFS)
CALL_DEFS.update({
    "size()": "self.stat_result.st_size",
    "head()": "environ['REQUEST_METHOD'] == 'HEAD'",
    # a header with an empty value counts as absent (both interfaces)
    "has_range()": "has(environ, 'HTTP_RANGE') and environ['HTTP_RANGE'] != ''",
    "if_range_ok()": "not has(environ, 'HTTP_IF_RANGE') or environ['HTTP_IF_RANGE'] == '' or environ['HTTP_IF_RANGE'] == '\"' + "
                     "etag_of(self.stat_result.st_mtime, self.stat_result.st_size) + '\"' or "
                     "environ['HTTP_IF_RANGE'] == httpdate(self.stat_result.st_mtime)",
    "honoured()": "has_range() and if_range_ok()",
    "acceptable()": "bytes_unit() and some_spec() and not some_unsat() and not some_malformed() and not some_too_long()",
})
CALL_UF = dict(HUF)
CALL_UF.update({"etag_of": ([Opaque("Float"), Int], Str), "httpdate": ([Opaque("Float")], Str),
                "int_of": ([Str], Int), "int_ok": ([Str], Bool)})


def call_consts(range_expr):
    d = wsgi_consts()
    from pyvc.contract import spec_value
    d["range_raw_line"] = lambda ev: spec_value(ev, range_expr)
    d["max_size"] = lambda ev: spec_value(ev, "self.stat_result.st_size")
    return d


def call_yield(ev, v, node):
    """the error path yields one chunk itself (everything else comes from the handlers' contracts)"""
    st = ev.st
    c = ev.frame.root().contract
    out = st.obj(st.ghost["out"])
    tr = st.obj(st.ghost["tr"])
    st.oblige("%s/yield.bytes" % c.id, isinstance(v, VStr) and v.isbytes, line=getattr(node, "lineno", 0))
    st.oblige("%s/trace.started_before_yield" % c.id, tr.fields["n_start"].t == 1, line=getattr(node, "lineno", 0))
    out.fields["out_len"] = VInt(out.fields["out_len"].t + z3.Length(v.t))
    out.fields["n_yield"] = VInt(out.fields["n_yield"].t + 1)


W_CALL = Contract(
    id="wsgi.FileResponse.__call__", file=W, qualname="FileResponse.__call__", props=["C02", "C05", "C12"], generator=True,
    params={"self": self_t(WFR), "environ": ENV_T, "start_response": TFunc(start_response_stub, "start_response")},
    ghosts={"tr": TR_T, "out": OUT_T, "fsize": Int, "specs": List(Tup(Str, Str)), "x": Int},
    requires=["self.chunk_size >= 1", "self.stat_result.st_size >= 0", "fsize == self.stat_result.st_size",
              "tr.n_start == 0", "out.out_len == 0", "out.n_yield == 0", "out.opened == 0",
              _c03.PARSE_RANGE.requires[1]],
    defs=CALL_DEFS, ufuncs=CALL_UF, consts=call_consts("environ['HTTP_RANGE']"),
    on_yield=call_yield, yield_mods=("out",), lazy_opt=True,    # environ.get(...) merges instead of forking
    modifies=["self.headers._dict"], ghost_modifies=["tr", "out"],
    raises={"ValueError": "unclean(self.content_type)"},
    raises_ensures={"ValueError": {"ensures": ["out.n_yield == 0 and out.opened == 0 and tr.n_start == 0"]}},
    ensures={
        "start.once": "tr.n_start == 1",
        "full.when_not_honoured": "implies(not honoured(), tr.status == status_line(200) and "
                                  "hdr_is('content-length', str(size())) and out.out_len == (0 if head() else size()))",
        "partial.when_honoured": "implies(honoured() and acceptable(), tr.status == status_line(206) and "
                                 "(head() or str(out.out_len) == hl_get(tr.hl, 'content-length')))",
        "reject.when_honoured": "implies(honoured() and not acceptable(), "
                                "(tr.status == status_line(400) or tr.status == status_line(416)) and "
                                "out.opened == 0 and out.n_yield == 1)",
        "reject.416": "implies(tr.status == status_line(416), hl_has(tr.hl, 'Content-Range') and "
                      "hl_get(tr.hl, 'Content-Range') == '*/' + str(size()) or not honoured() or acceptable())",
        # HEAD never has a body - also not on the 400 / 416 answers
        "head.empty": "implies(head(), out.out_len == 0 and out.opened == 0)",
    },
    axioms=["forall(a, forall(b, implies(status_line(a) == status_line(b), a == b)))"],
    assumptions=["A-status-table", "A-server", "A-re-1", "A-int-1"],
    # (a canary on the 206 path needs a satisfying assignment through parse_range's contract: seconds for z3, and a
    # verdict that flips under load; the whole-file path is reached without any string search)
    canaries={"never_full": "tr.status != status_line(200)"},
)


# =========================================================================== ASGI side
H = "baize/asgi/helper.py"
FD_T = ObjT("FD", pos=Int, size=Int)


def emit_body(ev, v, more, node, zc=None):
    """one ASGI body event (or zero-copy event): legality + provenance bookkeeping on the ghost `out`.
    zc = (offset Opt, count Opt, fd) for a zero-copy message (A-zc: the server sends file[offset:offset+count])."""
    from pyvc.contract import spec_value
    st = ev.st
    c = ev.frame.root().contract
    out = st.obj(st.ghost["out"])
    tr = st.obj(st.ghost["tr"])
    f = out.fields
    line = getattr(node, "lineno", 0)
    st.oblige("%s/trace.body_after_start" % c.id, tr.fields["n_start"].t == 1,
              note="http.response.body only after exactly one http.response.start", line=line)
    st.oblige("%s/trace.no_body_after_final" % c.id, z3.Not(f["closed"].t),
              note="nothing is sent after the body event with more_body false", line=line)
    phase = f["phase"].t
    if zc is not None:
        off, ln = zc
        st.oblige("%s/emit.data_in_phase1" % c.id, phase == 1, line=line)
        st.oblige("%s/emit.contiguous" % c.id, off == f["part_off"].t,
                  note="file data starts where the previous chunk ended (body == requested slice)", line=line)
        st.oblige("%s/emit.within_part" % c.id, z3.And(ln >= 0, off + ln <= f["cur_end"].t), line=line)
        f["part_off"] = VInt(off + ln)
        length = ln
    else:
        st.oblige("%s/emit.body_is_bytes" % c.id, isinstance(v, VStr) and v.isbytes, line=line)
        if not isinstance(v, VStr):
            return
        length = z3.Length(v.t)
        if v.tag and v.tag[0] == "file":
            off, ln = v.tag[1], v.tag[2]
            st.oblige("%s/emit.data_in_phase1" % c.id, phase == 1, line=line)
            st.oblige("%s/emit.contiguous" % c.id, off == f["part_off"].t,
                      note="file chunk starts where the previous one ended (body == requested slice)", line=line)
            st.oblige("%s/emit.within_part" % c.id, off + ln <= f["cur_end"].t, line=line)
            f["part_off"] = VInt(off + ln)
        elif v.tag and v.tag[0] == "hdr":
            s, e = v.tag[1], v.tag[2]
            ranges = ev.frame.outermost().lookup("ranges")
            ro = st.obj(ranges)
            k = f["n_parts"].t
            st.oblige("%s/emit.part_header_in_phase0" % c.id, phase == 0, line=line)
            st.oblige("%s/emit.part_is_next_range" % c.id,
                      z3.And(k >= 0, k < ro.length, s.t == ro.cols[0][k], e.t == ro.cols[1][k]), line=line)
            want = spec_value(ev, "part_header(boundary_of(tr.hl), self.content_type, file_size, s_, e_)", {"s_": s, "e_": e},
                              frame=ev.frame.outermost())
            st.oblige("%s/emit.part_header_text" % c.id, v.t == want.t, line=line)
            f["phase"] = VInt(1)
            f["part_off"] = s
            f["cur_end"] = e
        elif getattr(c, "emit_mode", "plain") == "multipart":
            if st.decide(phase == 1):
                st.oblige("%s/emit.part_terminator" % c.id, z3.And(v.t == z3.StringVal("\n"), f["part_off"].t == f["cur_end"].t), line=line)
                f["phase"] = VInt(0)
                f["n_parts"] = VInt(f["n_parts"].t + 1)
            elif st.decide(z3.Length(v.t) == 0):
                st.oblige("%s/emit.empty_only_for_head" % c.id, z3.And(phase == 0, f["n_body"].t == 0), line=line)
                f["phase"] = VInt(3)
            else:
                want = spec_value(ev, "closing(boundary_of(tr.hl))", frame=ev.frame.outermost())
                st.oblige("%s/emit.closing_line" % c.id, z3.And(phase == 0, v.t == want.t), line=line)
                f["phase"] = VInt(2)
    f["out_len"] = VInt(f["out_len"].t + length)
    f["n_body"] = VInt(f["n_body"].t + 1)
    f["closed"] = VBool(z3.Not(more.t))


def send_stub(ev, args, kwargs, node):
    """the ASGI server's send (A-server: does not raise).  Every call is checked against the response automaton
    start -> body(more_body)* -> body(final): every prefix of the emitted sequence is legal."""
    from pyvc.builtins import const_str, Maybe
    st = ev.st
    c = ev.frame.root().contract
    msg = st.obj(args[0])
    typ = const_str(msg.items["type"])
    tr = st.obj(st.ghost["tr"])
    out = st.obj(st.ghost["out"])
    line = getattr(node, "lineno", 0)
    if typ == "http.response.start":
        st.oblige("%s/trace.start_once" % c.id, tr.fields["n_start"].t == 0, note="exactly one http.response.start", line=line)
        st.oblige("%s/trace.start_first" % c.id, out.fields["n_body"].t == 0, note="start precedes every body event", line=line)
        st.oblige("%s/trace.status_is_int" % c.id, isinstance(msg.items["status"], VInt), line=line)
        tr.fields["n_start"] = VInt(tr.fields["n_start"].t + 1)
        tr.fields["code"] = msg.items["status"]
        hl = msg.items.get("headers")
        if isinstance(hl, VOpaque) and hl.sort == "HeaderList":
            tr.fields["hl"] = hl
        elif hl is not None:
            from pyvc.builtins import str_lower
            for it in ev.iter_concrete(hl, node):
                nm, val = it.items
                st.oblige("%s/trace.header_is_bytes_pair" % c.id, bool(nm.isbytes and val.isbytes),
                          note="ASGI header names and values are bytes", line=line)
                st.oblige("%s/trace.header_name_lower" % c.id, nm.t == str_lower(ev, nm.t),
                          note="ASGI header names are lower-case", line=line)
            tr.fields["hl"] = headerlist_from_pairs(ev, hl, node)
    elif typ == "http.response.body":
        emit_body(ev, msg.items["body"], msg.items["more_body"], node)
    elif typ == "http.response.zerocopysend":
        fd = st.obj(msg.items["file"])
        pos0 = msg.items["offset"].t if "offset" in msg.items else fd.fields["pos"].t
        ln = msg.items["count"].t if "count" in msg.items else fd.fields["size"].t - pos0
        USED.add("A-zc")
        emit_body(ev, None, msg.items["more_body"], node, zc=(pos0, ln))
        fd.fields["pos"] = VInt(pos0 + ln)
    else:
        st.oblige("%s/trace.known_event_type" % c.id, False, note="unexpected event type %r" % typ, line=line)
    return NONE


send_stub.mods = ("tr", "out")
send_stub.arg_mods = ()


def os_lseek(ev, args, kwargs, node):
    USED.add("A-fs-2")
    fd = ev.st.obj(args[0])
    c = ev.frame.root().contract
    ev.st.oblige("%s/safe.seek_offset" % c.id, args[1].t >= 0, line=getattr(node, "lineno", 0))
    fd.fields["pos"] = args[1]
    return args[1]


os_lseek.mods = ()
os_lseek.arg_mods = (1,)   # run_in_threadpool(os.lseek, fd, ...): the fd is argument 1 of run_in_threadpool


def os_read(ev, args, kwargs, node):
    USED.add("A-fs-2")
    st = ev.st
    fd = st.obj(args[0])
    n = args[1]
    c = ev.frame.root().contract
    st.oblige("%s/safe.read_size" % c.id, n.t >= 0, line=getattr(node, "lineno", 0))
    pos, size = fd.fields["pos"].t, fd.fields["size"].t
    rem = z3.If(size - pos < 0, 0, size - pos)
    ln = z3.If(n.t <= rem, n.t, rem)
    data = st.fresh(Bytes, "chunk")
    st.assume(z3.Length(data.t) == ln)
    fd.fields["pos"] = VInt(pos + ln)
    return VStr(data.t, True, tag=("file", pos, ln))


os_read.mods = ()


def os_close(ev, args, kwargs, node):
    out = ev.st.obj(ev.st.ghost["out"])
    out.fields["fd_closed"] = VInt(out.fields["fd_closed"].t + 1)
    return NONE


os_close.mods = ("out",)


def open_for_sendfile_stub(ev, args, kwargs, node):
    USED.update(("A-fs-1", "A-fs-2"))
    st = ev.st
    out = st.obj(st.ghost["out"])
    out.fields["opened"] = VInt(out.fields["opened"].t + 1)
    return st.alloc(Obj("FD", {"pos": VInt(0), "size": st.ghost["fsize"]}))


open_for_sendfile_stub.mods = ("out",)

from pyvc.stubs import GLOBAL_STUBS as _GS  # noqa

ASGI_STUBS = {"run_in_threadpool": _GS["baize.concurrency.run_in_threadpool"], "os.lseek": os_lseek, "os.read": os_read, "os.close": os_close, "open_for_sendfile": open_for_sendfile_stub}

for _n in ("send_http_start", "send_http_body"):
    pass

SEND_HTTP_START = Contract(id="send_http_start", file=H, qualname="send_http_start", inline=True, ghost_modifies=["tr"],
                           notes="3-line helper building the start event: executed inline at every call site")
SEND_HTTP_BODY = Contract(id="send_http_body", file=H, qualname="send_http_body", inline=True, ghost_modifies=["out"],
                          notes="1-line helper building the body event: executed inline at every call site")

SF_DEFS = dict(HDEFS)
SF_DEFS.update({
    "pos0()": "offset if not is_none(offset) else file_descriptor.pos",
    "nbytes()": "count if not is_none(count) else fsize - pos0()",
})
SF_REQ = ["self.chunk_size >= 1", "tr.n_start == 1", "not out.closed", "out.phase == 1", "file_descriptor.size == fsize",
          "0 <= pos0() and pos0() <= fsize", "pos0() == out.part_off", "out.cur_end <= fsize",
          "implies(not is_none(count), count >= 0 and pos0() + count <= out.cur_end)",
          "implies(is_none(count), out.cur_end == fsize)"]
SF_ENS = {
    "bytes": "out.out_len == old(out.out_len) + old(nbytes())",
    "slice": "out.part_off == old(pos0()) + old(nbytes())",
    "at_least_one_message": "out.n_body > old(out.n_body)",
    "final_flag": "out.closed == (not more_body)",
    "phase.kept": "out.phase == 1 and out.cur_end == old(out.cur_end) and out.n_parts == old(out.n_parts)",
    "start.untouched": "tr.n_start == 1",
    "counters.kept": "out.opened == old(out.opened) and out.fd_closed == old(out.fd_closed)",
}
SF_PARAMS = {"file_descriptor": FD_T, "offset": Opt(Int), "count": Opt(Int), "more_body": Bool,
             "self": self_t(AFR), "send": TFunc(send_stub, "send")}
SF_GHOSTS = {"tr": TR_T, "out": OUT_T, "fsize": Int}

FAKE_SENDFILE = Contract(
    id="asgi.fake_sendfile", file=A, qualname="FileResponse.create_send_or_zerocopy.<locals>.fake_sendfile",
    props=["C02", "C05"], params=SF_PARAMS, ghosts=SF_GHOSTS, requires=SF_REQ, defs=SF_DEFS, ufuncs=HUF,
    stubs=ASGI_STUBS, modifies=["file_descriptor.pos"], ghost_modifies=["out"], ensures=SF_ENS,
    invariants={
        1: ["fsize == file_descriptor.size", "file_descriptor.pos == out.part_off", "tr.n_start == 1", "out.phase == 1",
            "out.cur_end == old(out.cur_end)", "out.n_parts == old(out.n_parts)", "here == 0", "length == self.chunk_size",
            "out.n_body >= old(out.n_body)", "out.opened == old(out.opened) and out.fd_closed == old(out.fd_closed)",
            "out.out_len - old(out.out_len) == out.part_off - old(pos0())", "old(pos0()) <= out.part_off and out.part_off <= fsize",
            "implies(not should_stop, not out.closed)",
            "implies(should_stop, out.part_off == fsize and out.closed == (not more_body) and out.n_body > old(out.n_body))"],
        2: ["fsize == file_descriptor.size", "file_descriptor.pos == out.part_off", "tr.n_start == 1", "out.phase == 1",
            "out.cur_end == old(out.cur_end)", "out.n_parts == old(out.n_parts)", "0 <= here and here <= count",
            "out.n_body >= old(out.n_body)", "out.opened == old(out.opened) and out.fd_closed == old(out.fd_closed)",
            "out.part_off == old(pos0()) + here", "out.out_len == old(out.out_len) + here",
            "implies(not should_stop, not out.closed)",
            "implies(should_stop, here == count and out.closed == (not more_body) and out.n_body > old(out.n_body))"],
    },
    locals={"data": Bytes, "length": Int},
    canaries={"one_message_only": "out.n_body == old(out.n_body) + 1 and self.chunk_size < 3 and old(nbytes()) > 5"},
    assumptions=["A-fs-2", "A-conc-1", "A-server"],
)

ZC_SENDFILE = Contract(
    id="asgi.zerocopy_sendfile", file=A, qualname="FileResponse.create_send_or_zerocopy.<locals>.sendfile",
    props=["C02", "C05"], params=SF_PARAMS, ghosts=SF_GHOSTS, requires=SF_REQ, defs=SF_DEFS, ufuncs=HUF,
    stubs=ASGI_STUBS, modifies=["file_descriptor.pos"], ghost_modifies=["out"], ensures=SF_ENS,
    assumptions=["A-zc", "A-server"],
)

# the abstract Sendfile contract the handlers are verified against (both implementations above satisfy it)
SENDFILE = Contract(
    id="asgi.Sendfile", file=A, qualname="Sendfile.__call__", props=["C02", "C05"], bodyless=True,
    params={"file_descriptor": FD_T, "offset": Opt(Int), "count": Opt(Int), "more_body": Bool},
    requires=[r for r in SF_REQ if "self.chunk_size" not in r], defs=SF_DEFS, ufuncs=HUF,
    modifies=["file_descriptor.pos"], ghost_modifies=["out"], ensures=SF_ENS,
    defaults={"offset": NONE, "count": NONE, "more_body": VBool(False)},
    notes="Protocol class: the handlers only know this contract; fake_sendfile and the zero-copy sendfile are each "
          "verified against the same requires/ensures",
)


def create_sendfile_returns(ev, env):
    """create_send_or_zerocopy at a call site: a callable known only by the abstract Sendfile contract"""
    return VFunc("contract", (SENDFILE, None), "sendfile")


CREATE_SEND = Contract(
    id="asgi.create_send_or_zerocopy", file=A, qualname="FileResponse.create_send_or_zerocopy", props=["C02"],
    params={"self": self_t(AFR), "scope": Opaque("Scope"), "send": TFunc(send_stub, "send")},
    returns=create_sendfile_returns, bodyless=True,
    notes="selects one of the two verified Sendfile implementations by the presence of the zero-copy extension in "
          "the scope; the selection itself carries no obligation of C02 (both satisfy asgi.Sendfile)",
)

A_REQ = ["self.chunk_size >= 1", "file_size >= 0", "fsize == file_size",
         "tr.n_start == 0", "out.out_len == 0", "out.n_body == 0", "out.opened == 0", "out.fd_closed == 0", "not out.closed"]
A_DEFS = dict(HDEFS)
A_DEFS.update({"nothing_emitted()": "tr.n_start == 0 and out.n_body == 0 and out.opened == 0"})
A_PARAMS = {"self": self_t(AFR), "send_header_only": Bool, "file_size": Int, "scope": Opaque("Scope"),
            "send": TFunc(send_stub, "send")}
A_GHOSTS = {"tr": TR_T, "out": OUT_T, "fsize": Int}
A_COMMON = dict(defs=A_DEFS, ufuncs=HUF, stubs=ASGI_STUBS, modifies=["self.headers._dict"], ghost_modifies=["tr", "out"])

A_HANDLE_ALL = Contract(
    id="asgi.handle_all", file=A, qualname="FileResponse.handle_all", props=["C02", "C05"],
    params=A_PARAMS, ghosts=A_GHOSTS, requires=A_REQ,
    setup=lambda ev: ghost_init(ev, part_off=VInt(0), cur_end=ev.frame.env["file_size"], phase=VInt(1), n_parts=VInt(0)),
    raises={"ValueError": "unclean(self.content_type)"},
    raises_ensures={"ValueError": {"ensures": ["nothing_emitted()"]}},
    ensures={
        "start.once": "tr.n_start == 1",
        "status": "tr.code == 200",
        "content-length": "hdr_is('content-length', str(file_size))",
        "content-type": "hdr_is('content-type', self.content_type)",
        "headers.kept": "other_headers_kept('content-length', 'content-type', 'content-type')",
        "final": "out.closed and out.n_body >= 1",
        "fd.closed": "out.opened == out.fd_closed",
        "head": "implies(send_header_only, out.out_len == 0 and out.n_body == 1 and out.opened == 0)",
        "get": "implies(not send_header_only, out.out_len == file_size and out.part_off == file_size and out.opened == 1 and out.fd_closed == 1)",
    },
    canaries={"short": "implies(not send_header_only, out.out_len < file_size)"},
    assumptions=["A-fs-1", "A-fs-2", "A-server", "A-list-headers"], **A_COMMON)

A_HANDLE_SINGLE = Contract(
    id="asgi.handle_single_range", file=A, qualname="FileResponse.handle_single_range", props=["C02", "C05"],
    params=dict(A_PARAMS, start=Int, end=Int), ghosts=A_GHOSTS,
    requires=A_REQ + ["0 <= start and start < end and end <= file_size"],
    setup=lambda ev: ghost_init(ev, part_off=ev.frame.env["start"], cur_end=ev.frame.env["end"], phase=VInt(1), n_parts=VInt(0)),
    raises={"ValueError": "unclean(self.content_type)"},
    raises_ensures={"ValueError": {"ensures": ["nothing_emitted()"]}},
    ensures={
        "start.once": "tr.n_start == 1",
        "status": "tr.code == 206",
        "content-range": "hdr_is('content-range', 'bytes ' + str(start) + '-' + str(end - 1) + '/' + str(file_size))",
        "content-length": "hdr_is('content-length', str(end - start))",
        "content-type": "hdr_is('content-type', self.content_type)",
        "headers.kept": "other_headers_kept('content-length', 'content-type', 'content-range')",
        "final": "out.closed and out.n_body >= 1",
        "fd.closed": "out.opened == out.fd_closed",
        "head": "implies(send_header_only, out.out_len == 0 and out.n_body == 1 and out.opened == 0)",
        "get": "implies(not send_header_only, out.out_len == end - start and out.part_off == end and out.opened == 1 and out.fd_closed == 1)",
    },
    canaries={"short": "implies(not send_header_only, out.out_len < end - start)"},
    assumptions=["A-fs-1", "A-fs-2", "A-server", "A-list-headers"], **A_COMMON)

A_HANDLE_SEVERAL = Contract(
    id="asgi.handle_several_ranges", file=A, qualname="FileResponse.handle_several_ranges", props=["C02", "C05"],
    params=dict(A_PARAMS, ranges=List(Tup(Int, Int))), ghosts=A_GHOSTS,
    requires=A_REQ + ["forall(k, 0, len(ranges), 0 <= ranges[k][0] and ranges[k][0] < ranges[k][1] and ranges[k][1] <= file_size)"],
    setup=lambda ev: ghost_init(ev, part_off=VInt(0), cur_end=VInt(0), phase=VInt(0), n_parts=VInt(0)),
    defs=A_DEFS, ufuncs=HUF, stubs=dict(ASGI_STUBS, random_choices=random_choices_stub),
    modifies=["self.headers._dict"], ghost_modifies=["tr", "out"],
    raises={},
    ensures={
        "start.once": "tr.n_start == 1",
        "status": "tr.code == 206",
        "content-type": "hl_has(tr.hl, 'content-type') and hl_get(tr.hl, 'content-type').startswith('multipart/byteranges; boundary=') "
                        "and len(boundary_of(tr.hl)) == 13",
        "content-length": "hdr_is('content-length', str(sum((len(part_header(boundary_of(tr.hl), self.content_type, file_size, s, e))"
                          " + (e - s) + 1) for s, e in ranges) + len(closing(boundary_of(tr.hl)))))",
        "final": "out.closed and out.n_body >= 1",
        "fd.closed": "out.opened == out.fd_closed",
        "head": "implies(send_header_only, out.out_len == 0 and out.n_body == 1 and out.opened == 0 and out.phase == 3)",
        "get": "implies(not send_header_only, str(out.out_len) == hl_get(tr.hl, 'content-length') and "
               "out.phase == 2 and out.n_parts == len(ranges) and out.opened == 1 and out.fd_closed == 1)",
        "headers.kept": "other_headers_kept('content-length', 'content-type', 'content-type')",
    },
    invariants={1: ["file_descriptor.size == fsize", "tr.n_start == 1", "out.opened == 1", "out.fd_closed == 0",
                    "out.phase == 0", "out.n_parts == IDX", "not out.closed", "out.n_body >= 0",
                    "out.out_len == sum_upto(IDX, ((len(part_header(boundary, self.content_type, file_size, s, e)) + (e - s) + 1) for s, e in ranges))"]},
    assumptions=["A-fs-1", "A-fs-2", "A-server", "A-list-headers", "A-random", "A-fold-ext"],
    cuts={"boundary": ["len(boundary) == 13", "not unclean(boundary)"]},
)
A_HANDLE_SEVERAL.emit_mode = "multipart"

SCOPE_T = Dict(method=Str, headers=List(Tup(Bytes, Bytes)))

A_CALL_DEFS = dict(CALL_DEFS)
A_CALL_DEFS.update({
    "head()": "scope['method'] == 'HEAD'",
    # the value the dispatch loop ends with: the LAST header of that name, '' when there is none (ghosts hr / hir)
    "has_range()": "hr != ''",
    "if_range_ok()": "hir == '' or hir == '\"' + etag_of(self.stat_result.st_mtime, self.stat_result.st_size) + '\"' or "
                     "hir == httpdate(self.stat_result.st_mtime)",
    "is_last(name, v)": "(v == '' and forall(k, 0, len(scope['headers']), scope['headers'][k][0] != name)) or "
                        "exists(k, 0, len(scope['headers']), scope['headers'][k][0] == name and scope['headers'][k][1] == v.encode('latin-1') and "
                        "forall(j, k + 1, len(scope['headers']), scope['headers'][j][0] != name))",
})

A_CALL = Contract(
    id="asgi.FileResponse.__call__", file=A, qualname="FileResponse.__call__", props=["C02", "C05", "C12"],
    params={"self": self_t(AFR), "scope": SCOPE_T, "receive": Opaque("Receive"), "send": TFunc(send_stub, "send")},
    ghosts={"tr": TR_T, "out": OUT_T, "fsize": Int, "specs": List(Tup(Str, Str)), "x": Int, "hr": Str, "hir": Str},
    requires=["self.chunk_size >= 1", "self.stat_result.st_size >= 0", "fsize == self.stat_result.st_size",
              "tr.n_start == 0", "out.out_len == 0", "out.n_body == 0", "out.opened == 0", "out.fd_closed == 0", "not out.closed",
              _c03.PARSE_RANGE.requires[1],
              # hr / hir name the request's Range / If-Range value as the scan sees it (last header of that name, '' if none)
              "is_last(b'range', hr)", "is_last(b'if-range', hir)"],
    defs=A_CALL_DEFS, ufuncs=CALL_UF, consts={"range_raw_line": lambda ev: ev.st.ghost["hr"],
                                             "max_size": lambda ev: __import__("pyvc.contract", fromlist=["spec_value"]).spec_value(ev, "self.stat_result.st_size")},
    stubs=ASGI_STUBS,
    modifies=["self.headers._dict"], ghost_modifies=["tr", "out"],
    raises={"ValueError": "unclean(self.content_type)"},
    raises_ensures={"ValueError": {"ensures": ["out.n_body == 0 and out.opened == 0 and tr.n_start == 0"]}},
    ensures={
        "start.once": "tr.n_start == 1",
        "final": "out.closed and out.n_body >= 1",
        "fd.closed": "out.opened == out.fd_closed",
        "full.when_not_honoured": "implies(not honoured(), tr.code == 200 and "
                                  "hdr_is('content-length', str(size())) and out.out_len == (0 if head() else size()))",
        "partial.when_honoured": "implies(honoured() and acceptable(), tr.code == 206 and "
                                 "(head() or str(out.out_len) == hl_get(tr.hl, 'content-length')))",
        "reject.when_honoured": "implies(honoured() and not acceptable(), (tr.code == 400 or tr.code == 416) and "
                                "out.opened == 0 and out.n_body == 1)",
        "reject.416": "implies(honoured() and not acceptable() and tr.code == 416, hl_has(tr.hl, 'content-range') and "
                      "hl_get(tr.hl, 'content-range') == '*/' + str(size()))",
        # HEAD never has a body - also not on the 400 / 416 answers
        "head.empty": "implies(head(), out.out_len == 0 and out.opened == 0)",
        "fd.closed": "out.opened == out.fd_closed",
    },
    invariants={1: [
        "(http_range == '' and forall(k, 0, IDX, SEQ[k][0] != b'range')) or exists(k, 0, IDX, SEQ[k][0] == b'range' and "
        "SEQ[k][1] == http_range.encode('latin-1') and forall(j, k + 1, IDX, SEQ[j][0] != b'range'))",
        "(http_if_range == '' and forall(k, 0, IDX, SEQ[k][0] != b'if-range')) or exists(k, 0, IDX, SEQ[k][0] == b'if-range' and "
        "SEQ[k][1] == http_if_range.encode('latin-1') and forall(j, k + 1, IDX, SEQ[j][0] != b'if-range'))",
    ]},
    cuts={},
    assumptions=["A-server", "A-re-1", "A-int-1"],
    # (as on the WSGI side: the whole-file path needs no string search; a canary on the 206 path flips under load)
    canaries={"never_full": "tr.code != 200"},
)


def register_asgi(reg):
    for c in (CREATE_SEND, A_HANDLE_ALL, A_HANDLE_SINGLE, A_HANDLE_SEVERAL, A_CALL):
        reg.add(c)


# =========================================================================== replay of counter-models
def _mk_m2i(iface, kind, zerocopy=False):
    def m2i(m):
        size = int(m.get("file_size", m.get("self.stat_result.st_size", m.get("fsize", 0))))
        chunk = int(m.get("self.chunk_size", 1))
        if not (0 <= size <= 300000) or chunk < 1:
            raise ValueError("model outside the replayable domain (size %s, chunk %s)" % (size, chunk))
        head = bool(m.get("send_header_only", False))
        rng = None
        if kind == "single":
            rng = "bytes=%d-%d" % (int(m["start"]), int(m["end"]) - 1)
        elif kind == "several":
            n = min(int(m.get("ranges.len", 0)), 8)
            rng = "bytes=" + ",".join("%d-%d" % (int(m["ranges[%d][0]" % i]), int(m["ranges[%d][1]" % i]) - 1) for i in range(n))
        elif kind == "call":
            if iface == "wsgi":
                head = m.get("environ['REQUEST_METHOD']") == "HEAD"
                present = m.get("environ.has['HTTP_RANGE']")
            else:
                head = m.get("scope['method']") == "HEAD"
                present = m.get("hr", "") != ""
            if present:
                inp = _c03.model_to_inputs(dict(m, range_raw_line=m.get("environ['HTTP_RANGE']", m.get("hr", "")),
                                                max_size=size))
                rng = inp["header"]
        return {"iface": iface, "zerocopy": zerocopy, "size": size, "chunk": chunk, "range": rng, "if_range": "absent",
                "method": "HEAD" if head else "GET"}
    return m2i


def _watch_specs(ev):
    return _c03.watch_extra(ev) if "specs" in ev.st.ghost else {}


for _c, _args in ((W_HANDLE_ALL, ("wsgi", "all")), (W_HANDLE_SINGLE, ("wsgi", "single")), (W_HANDLE_SEVERAL, ("wsgi", "several")),
                  (W_CALL, ("wsgi", "call")), (A_HANDLE_ALL, ("asgi", "all")), (A_HANDLE_SINGLE, ("asgi", "single")),
                  (A_HANDLE_SEVERAL, ("asgi", "several")), (A_CALL, ("asgi", "call"))):
    _c.model_to_inputs = _mk_m2i(*_args)
    _c.native = ("c02", "replay")
    if _args[1] == "call":
        _c.watch_extra = _watch_specs


def _sf_m2i(zc):
    def m2i(m):
        size = int(m.get("fsize", 0))
        chunk = int(m.get("self.chunk_size", 1))
        if not (0 <= size <= 300000) or chunk < 1:
            raise ValueError("model outside the replayable domain")
        off = m.get("offset")
        cnt = m.get("count")
        pos0 = int(off) if off != "<None>" else int(m.get("file_descriptor.pos", 0))
        if cnt == "<None>":
            rng = None if pos0 == 0 else "bytes=%d-" % pos0
        else:
            rng = "bytes=%d-%d" % (pos0, pos0 + int(cnt) - 1)
        return {"iface": "asgi", "zerocopy": zc, "size": size, "chunk": chunk, "range": rng, "if_range": "absent", "method": "GET"}
    return m2i


FAKE_SENDFILE.model_to_inputs = _sf_m2i(False)
FAKE_SENDFILE.native = ("c02", "replay")
ZC_SENDFILE.model_to_inputs = _sf_m2i(True)
ZC_SENDFILE.native = ("c02", "replay")
