"""C12 -- exception-freedom contracts of the lenient header accessors (baize/requests.py)."""
import z3

from pyvc.contract import Contract
from pyvc.stubs import USED
from pyvc.values import *  # noqa
from pyvc.builtins import ufunc, S, I, Bz
from pyvc.engine import PyRaise, Unsupported

RQ = "baize/requests.py"


def headers_get_factory(ghost_prefix):
    def headers_get(ev, recv, args, kwargs, node):
        """self.headers.get(name, default): the header value or the default (the mapping is case-insensitive)"""
        from pyvc.builtins import const_str
        name = const_str(args[0]).lower()
        default = args[1] if len(args) > 1 else NONE
        g = ev.st.obj(ev.st.ghost["hdr"])
        present = g.fields["has_" + name.replace("-", "_")].t
        val = g.fields[name.replace("-", "_")]
        if ev.st.decide(present):
            return val
        return default
    headers_get.mods = ()
    headers_get.mutates_recv = False
    return headers_get


SELF_T = ObjT(RQ + ":MoreInfoFromHeaderMixin", headers=ObjT("HeadersView"))

CONTENT_LENGTH = Contract(
    id="request.content_length", file=RQ, qualname="MoreInfoFromHeaderMixin.content_length", props=["C12"],
    params={"self": SELF_T},
    ghosts={"hdr": ObjT("HdrGhost", has_transfer_encoding=Bool, transfer_encoding=Str, has_content_length=Bool, content_length=Str)},
    stub_methods={("HeadersView", "get"): headers_get_factory("hdr")},
    ufuncs={"int_ok": ([Str], Bool), "int_of": ([Str], Int)},
    raises={},    # whatever the client sends, the accessor returns a value
    ensures={
        "value": "is_none(result) == (hdr.has_transfer_encoding and hdr.transfer_encoding == 'chunked' or not hdr.has_content_length "
                 "or not int_ok(hdr.content_length))",
        "non_negative": "implies(not is_none(result), result >= 0 and (result == int_of(hdr.content_length) or result == 0))",
    },
    canaries={"always_none": "is_none(result)"},
    assumptions=["A-int-1"],
)


def parsedate_stub(ev, args, kwargs, node):
    """email.utils.parsedate_to_datetime: a datetime, or ValueError / TypeError for unparsable input, OverflowError for
    absurd field values such as a 20-digit hour (A-date-parse)"""
    USED.add("A-date-parse")
    k = ev.st.choose([z3.BoolVal(True)] * 4, force_record=True)
    if k == 1:
        raise PyRaise("ValueError", None, getattr(node, "lineno", 0))
    if k == 2:
        raise PyRaise("TypeError", None, getattr(node, "lineno", 0))
    if k == 3:
        raise PyRaise("OverflowError", None, getattr(node, "lineno", 0))
    return ev.st.alloc(Obj("datetime", {"tzinfo": ev.st.fresh(Opt(Opaque("TZ")), "tz")}))


def dt_replace(ev, recv, args, kwargs, node):
    return ev.st.alloc(Obj("datetime", {"tzinfo": kwargs.get("tzinfo", NONE)}))


dt_replace.mods = ()
dt_replace.mutates_recv = False

DATE = Contract(
    id="request.date", file=RQ, qualname="MoreInfoFromHeaderMixin.date", props=["C12"],
    params={"self": SELF_T},
    ghosts={"hdr": ObjT("HdrGhost", has_date=Bool, date=Str)},
    stub_methods={("HeadersView", "get"): headers_get_factory("hdr"), ("datetime", "replace"): dt_replace},
    stubs={"parsedate_to_datetime": parsedate_stub},
    consts={"timezone": VGlobal("datetime.timezone")},
    raises={},
    ensures={"none_without_header": "implies(not hdr.has_date, is_none(result))",
             "aware": "implies(not is_none(result), not is_none(result.tzinfo))"},
    canaries={"always_none": "is_none(result)"},
    assumptions=["A-date-parse"],
)


# --------------------------------------------------------------------------- body accessors: json / form / url
WRQ = "baize/wsgi/requests.py"
ARQ = "baize/asgi/requests.py"
CT_T = ObjT("ContentType", type=Str, options=ObjT("Options"))


def ct_compare(a, b, op):
    """ContentType.__eq__(str): compares the media type (baize/datastructures.py ContentType.__eq__, 3 lines; modelled)"""
    import ast as _ast
    if isinstance(a, VRef) and isinstance(b, VStr) and isinstance(op, (_ast.Eq, _ast.NotEq)):
        def cmp(ev, x, y):
            o = ev.st.obj(x)
            if isinstance(o, Obj) and o.cls == "ContentType":
                e = o.fields["type"].t == y.t
                return e if isinstance(op, _ast.Eq) else z3.Not(e)
            raise Unsupported("comparison of %r with a string" % (o,))
        return cmp
    return None


def options_get(ev, recv, args, kwargs, node):
    """options.get(name, default): whatever the client put into the Content-Type parameters (any Latin-1 string)"""
    st = ev.st
    if st.choose([z3.BoolVal(True)] * 2, force_record=True) == 0:
        return args[1] if len(args) > 1 else NONE
    v = st.fresh(Str, "option")
    st.assume(z3.InRe(v.t, z3.Star(z3.Range(chr(0), chr(255)))))
    return v


options_get.mods = ()
options_get.mutates_recv = False


def options_contains(ev, recv, args, kwargs, node):
    return VBool(z3.Bool(ev.st.run.fresh_name("options.has")))


options_contains.mods = ()
options_contains.mutates_recv = False


def options_getitem(ev, recv, args, kwargs, node):
    v = ev.st.fresh(Str, "option")
    ev.st.assume(z3.InRe(v.t, z3.Star(z3.Range(chr(0), chr(255)))))   # header text is Latin-1 (A-wsgi-1 / A-asgi-1)
    return v


options_getitem.mods = ()
options_getitem.mutates_recv = False


def decode_stub(ev, args, kwargs, node):
    """bytes.decode(charset) with a client-chosen charset: text, a ValueError (UnicodeDecodeError, but also the plain
    UnicodeError of punycode / idna and the plain ValueError for a NUL in the name) or LookupError (A-bytes, validated)"""
    USED.add("A-bytes")
    k = ev.st.choose([z3.BoolVal(True)] * 3, force_record=True)
    if k == 1:
        raise PyRaise("ValueError", None, getattr(node, "lineno", 0))
    if k == 2:
        raise PyRaise("LookupError", None, getattr(node, "lineno", 0))
    return ev.st.fresh(Str, "decoded")


def json_loads_stub(ev, args, kwargs, node):
    """json.loads(str): a value, JSONDecodeError, a plain ValueError (integer literal beyond the digit limit of int())
    or RecursionError (A-json)"""
    USED.add("A-json")
    k = ev.st.choose([z3.BoolVal(True)] * 4, force_record=True)
    if k == 1:
        raise PyRaise("JSONDecodeError", None, getattr(node, "lineno", 0))
    if k == 2:
        raise PyRaise("ValueError", None, getattr(node, "lineno", 0))
    if k == 3:
        raise PyRaise("RecursionError", None, getattr(node, "lineno", 0))
    return VOpaque(z3.Const(ev.st.run.fresh_name("json"), opaque_sort("JSON")), "JSON")


def str_of_exc(ev, args, kwargs, node):
    return ev.st.fresh(Str, "message")


def parse_multipart_stub(ev, recv, args, kwargs, node):
    """Request._parse_multipart -> multipart_helper.parse_stream / parse_async_stream: FormData, MalformedMultipart or
    RequestEntityTooLarge (the callee's own allowed set: contracts/c01.py parse_stream and the bounded decoder layer)"""
    k = ev.st.choose([z3.BoolVal(True)] * 3, force_record=True)
    if k == 1:
        raise PyRaise("MalformedMultipart", None, getattr(node, "lineno", 0))
    if k == 2:
        raise PyRaise("RequestEntityTooLarge", None, getattr(node, "lineno", 0))
    return ev.st.alloc(Obj("FormData", {}))


parse_multipart_stub.mods = ()
parse_multipart_stub.mutates_recv = False


def parse_qsl_stub(ev, args, kwargs, node):
    """urllib.parse.parse_qsl(str, keep_blank_values=True): a pair list, for every str (A-qsl)"""
    USED.add("A-qsl")
    return ev.st.alloc(Obj("Pairs", {}))


def formdata_stub(ev, args, kwargs, node):
    return ev.st.alloc(Obj("FormData", {}))


def url_ctor_stub(ev, args, kwargs, node):
    """URL(environ=...) / URL(scope=...): a URL, or ValueError from urlsplit (unbalanced IPv6 bracket in Host),
    UnicodeDecodeError from the UTF-8 decoding of path / query, KeyError from _build_url (unknown scheme: server's fault,
    excluded by A-wsgi-1 / A-asgi-1: the scheme is one of http/https/ws/wss)"""
    USED.add("A-url-1")
    k = ev.st.choose([z3.BoolVal(True)] * 3, force_record=True)
    if k == 1:
        raise PyRaise("ValueError", None, getattr(node, "lineno", 0))
    if k == 2:
        raise PyRaise("UnicodeDecodeError", None, getattr(node, "lineno", 0))
    return ev.st.alloc(Obj("URL", {}))


BODY_STUB_METHODS = {("Options", "get"): options_get, ("Options", "__contains__"): options_contains,
                     ("Options", "__getitem__"): options_getitem}
HTTP_ONLY = "only HTTP exceptions (4xx) escape: MalformedJSON / MalformedMultipart / UnsupportedMediaType / " \
            "RequestEntityTooLarge / HTTPException(400)"


def _body_contract(iface, name):
    rel = WRQ if iface == "wsgi" else ARQ
    self_t = ObjT(rel + ":Request", content_type=CT_T, body=Bytes)
    common = dict(
        file=rel, qualname="Request." + name, props=["C12"], params={"self": self_t},
        stub_methods={**BODY_STUB_METHODS, ("%s:Request" % rel, "_parse_multipart"): parse_multipart_stub},
        stubs={"self.body.decode": decode_stub, "data.decode": decode_stub, "(await self.body).decode": decode_stub,
               "json.loads": json_loads_stub, "str": str_of_exc, "parse_qsl": parse_qsl_stub, "FormData": formdata_stub},
        # (encode() of client-controlled text is checked: Latin-1 is total on header text, ASCII is not)
        check_encode=True,
        frame_check=False, assumptions=["A-bytes", "A-json", "A-qsl"], notes=HTTP_ONLY)
    if name == "json":
        return Contract(
            id="%s.Request.json" % iface, **common,
            raises={"MalformedJSON": "self.content_type.type == 'application/json'",
                    "UnsupportedMediaType": "self.content_type.type != 'application/json'"},
            ensures={"only_for_json": "self.content_type.type == 'application/json'"},
            canaries={"never_returns_a_value": "False"})
    return Contract(
        id="%s.Request.form" % iface, **common,
        raises={"MalformedMultipart": "self.content_type.type == 'multipart/form-data'",
                "RequestEntityTooLarge": "self.content_type.type == 'multipart/form-data'",
                "UnsupportedMediaType": "self.content_type.type != 'multipart/form-data' and "
                                        "self.content_type.type != 'application/x-www-form-urlencoded'",
                "HTTPException": "self.content_type.type == 'application/x-www-form-urlencoded'"},
        ensures={"only_for_forms": "self.content_type.type == 'multipart/form-data' or "
                                   "self.content_type.type == 'application/x-www-form-urlencoded'"},
        canaries={"never_returns_a_value": "False"})


def _url_contract(iface):
    rel = WRQ if iface == "wsgi" else ARQ
    fields = {"_environ": Opaque("Environ")} if iface == "wsgi" else {"_scope": Opaque("Scope")}
    return Contract(
        id="%s.HTTPConnection.url" % iface, file=rel, qualname="HTTPConnection.url", props=["C12"],
        params={"self": ObjT(rel + ":HTTPConnection", **fields)}, stubs={"URL": url_ctor_stub},
        frame_check=False, raises={"HTTPException": None}, ensures={}, assumptions=["A-url-1"],
        canaries={"never_returns_a_value": "False"},
        notes="a malformed Host header / non-UTF-8 URL is a 400, nothing else escapes")


BODY_CONTRACTS = [_body_contract(i, n) for i in ("wsgi", "asgi") for n in ("json", "form")] + [_url_contract("wsgi"), _url_contract("asgi")]


QP_INIT = Contract(
    id="QueryParams.__init__[bytes]", file="baize/datastructures.py", qualname="QueryParams.__init__", props=["C12"],
    params={"self": ObjT("baize/datastructures.py:QueryParams"), "raw": Bytes},
    stubs={"parse_qsl": parse_qsl_stub, "super().__init__": lambda ev, a, k, n: NONE},
    frame_check=False,
    # the ASGI request hands over the raw query bytes of the client: whatever they are, building the mapping cannot fail
    raises={}, ensures={"built": "True"},
    canaries={"never_returns": "False"},
    assumptions=["A-qsl"],
    notes="QueryParams(raw bytes) as used by the ASGI request.query_params: the bytes are read as Latin-1 (total), parse_qsl is a stub",
)


def register(reg):
    reg.add(QP_INIT)
    for c in (CONTENT_LENGTH, DATE):
        reg.add(c)
    for c in BODY_CONTRACTS:
        reg.add(c)
    reg._compare_models.append(ct_compare)
