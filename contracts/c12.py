"""C12 -- exception-freedom contracts of the lenient header accessors (baize/requests.py)."""
import z3

from pyvc.contract import Contract
from pyvc.stubs import USED
from pyvc.values import *  # noqa
from pyvc.builtins import ufunc, S, I, Bz
from pyvc.engine import PyRaise, Unsupported

RQ = "baize/requests.py"


def headers_get_factory(ghost_prefix):
    def headers_get(ev, recv, args, kwargs, node):
        """self.headers.get(name, default): the header value or the default (the mapping is case-insensitive)"""
        from pyvc.builtins import const_str
        name = const_str(args[0]).lower()
        default = args[1] if len(args) > 1 else NONE
        g = ev.st.obj(ev.st.ghost["hdr"])
        present = g.fields["has_" + name.replace("-", "_")].t
        val = g.fields[name.replace("-", "_")]
        if ev.st.decide(present):
            return val
        return default
    headers_get.mods = ()
    headers_get.mutates_recv = False
    return headers_get


SELF_T = ObjT(RQ + ":MoreInfoFromHeaderMixin", headers=ObjT("HeadersView"))

CONTENT_LENGTH = Contract(
    id="request.content_length", file=RQ, qualname="MoreInfoFromHeaderMixin.content_length", props=["C12"],
    params={"self": SELF_T},
    ghosts={"hdr": ObjT("HdrGhost", has_transfer_encoding=Bool, transfer_encoding=Str, has_content_length=Bool, content_length=Str)},
    stub_methods={("HeadersView", "get"): headers_get_factory("hdr")},
    ufuncs={"int_ok": ([Str], Bool), "int_of": ([Str], Int)},
    raises={},    # whatever the client sends, the accessor returns a value
    ensures={
        "value": "is_none(result) == (hdr.has_transfer_encoding and hdr.transfer_encoding == 'chunked' or not hdr.has_content_length "
                 "or not int_ok(hdr.content_length))",
        "non_negative": "implies(not is_none(result), result >= 0 and (result == int_of(hdr.content_length) or result == 0))",
    },
    canaries={"always_none": "is_none(result)"},
    assumptions=["A-int-1"],
)


def parsedate_stub(ev, args, kwargs, node):
    """email.utils.parsedate_to_datetime: a datetime, or ValueError / TypeError for unparsable input (A-date-parse)"""
    USED.add("A-date-parse")
    k = ev.st.choose([z3.BoolVal(True)] * 3, force_record=True)
    if k == 1:
        raise PyRaise("ValueError", None, getattr(node, "lineno", 0))
    if k == 2:
        raise PyRaise("TypeError", None, getattr(node, "lineno", 0))
    return ev.st.alloc(Obj("datetime", {"tzinfo": ev.st.fresh(Opt(Opaque("TZ")), "tz")}))


def dt_replace(ev, recv, args, kwargs, node):
    return ev.st.alloc(Obj("datetime", {"tzinfo": kwargs.get("tzinfo", NONE)}))


dt_replace.mods = ()
dt_replace.mutates_recv = False

DATE = Contract(
    id="request.date", file=RQ, qualname="MoreInfoFromHeaderMixin.date", props=["C12"],
    params={"self": SELF_T},
    ghosts={"hdr": ObjT("HdrGhost", has_date=Bool, date=Str)},
    stub_methods={("HeadersView", "get"): headers_get_factory("hdr"), ("datetime", "replace"): dt_replace},
    stubs={"parsedate_to_datetime": parsedate_stub},
    consts={"timezone": VGlobal("datetime.timezone")},
    raises={},
    ensures={"none_without_header": "implies(not hdr.has_date, is_none(result))",
             "aware": "implies(not is_none(result), not is_none(result.tzinfo))"},
    canaries={"always_none": "is_none(result)"},
    assumptions=["A-date-parse"],
)


def register(reg):
    for c in (CONTENT_LENGTH, DATE):
        reg.add(c)
