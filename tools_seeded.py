"""python3 tools_seeded.py <seed id> <PROP> <worktree> : ingest a seeded change produced by a sub-agent.
Copies patch.diff / demo.py / notes.md to /verif/seeded/<id>/, confirms in a scratch copy that (a) the demonstration
passes on the unchanged tree and fails with the change, (b) the pinned runnable tests still pass with the change, then
runs ./check <PROP> against the changed scratch copy and writes meta.json."""
import json, os, shutil, subprocess, sys, tempfile, time


def sh(cmd, **kw):
    return subprocess.run(cmd, capture_output=True, text=True, **kw)


def main():
    sid, prop, wt = sys.argv[1:4]
    extra_props = sys.argv[4:]
    src = os.path.join(wt, "seeded")
    dst = os.path.join("/verif/seeded", sid)
    os.makedirs(dst, exist_ok=True)
    for f in ("patch.diff", "demo.py", "notes.md"):
        if os.path.exists(os.path.join(src, f)):
            shutil.copy(os.path.join(src, f), os.path.join(dst, f))
    d = tempfile.mkdtemp(prefix="verif_seed_")
    meta = {"id": sid, "property": prop, "ingested_at": time.strftime("%Y-%m-%dT%H:%M:%SZ", time.gmtime())}
    try:
        sh(["git", "-C", "/repo", "worktree", "add", "--detach", os.path.join(d, "tree"), "HEAD"])
        tree = os.path.join(d, "tree")
        env = dict(os.environ, PYTHONPATH=tree)
        r0 = sh(["timeout", "120", "/venv/bin/python", os.path.join(dst, "demo.py")], env=env, cwd=d)
        meta["demo_on_unchanged_tree"] = {"exit": r0.returncode, "tail": (r0.stdout + r0.stderr)[-300:]}
        ap = sh(["git", "-C", tree, "apply", os.path.join(dst, "patch.diff")])
        meta["patch_applies"] = ap.returncode == 0
        if ap.returncode:
            meta["patch_error"] = ap.stderr[-500:]
        r1 = sh(["timeout", "120", "/venv/bin/python", os.path.join(dst, "demo.py")], env=env, cwd=d)
        meta["demo_with_change"] = {"exit": r1.returncode, "tail": (r1.stdout + r1.stderr)[-400:]}
        t = sh(["/venv/bin/python", "-m", "pytest", "-q", "-p", "no:cacheprovider", "--timeout=900",
                "--continue-on-collection-errors", "-x", "--deselect", "tests/test_asgi.py", "--deselect", "tests/test_wsgi.py",
                "tests"], cwd=tree)
        base = json.load(open("/root/.vp/BASELINE.json"))["stable_pass"]
        t2 = sh(["/venv/bin/python", "-m", "pytest", "-q", "-p", "no:cacheprovider", "--timeout=900", "--continue-on-collection-errors",
                 "-rA", "tests"], cwd=tree)
        passed = set()
        for line in t2.stdout.split("\n"):
            if line.startswith("PASSED "):
                raw = line[7:].strip()
                fpart, _, rest = raw.partition("::")
                passed.add(fpart.replace("/", ".")[:-3] + "::" + rest)
        missing = [b for b in base if b not in passed]
        meta["baseline_tests_with_change"] = {"passed_of_baseline": len(base) - len(missing), "baseline": len(base), "missing": missing[:5]}
        results = {}
        for p in [prop] + extra_props:
            c = sh(["./check", p, "--tier", "quick"], cwd="/verif", env=dict(os.environ, VERIF_REPO=tree))
            viol = [l for l in c.stdout.split("\n") if l.startswith("VIOLATION")]
            replay_src = None
            if viol:
                rp = viol[0].split("replay=")[1].split()[0]
                try:
                    doc = json.load(open(rp))
                    replay_src = doc.get("source")
                    json.dump(doc, open(os.path.join(dst, "detected_%s_replay.json" % p), "w"), indent=1, default=str)
                except Exception:
                    pass
            results[p] = {"exit": c.returncode, "violation_lines": viol[:4], "first_replay_source": replay_src,
                          "summary": c.stdout.strip().split("\n")[-1][:300]}
        meta["checks"] = results
        meta["detected"] = any(v["exit"] == 1 for v in results.values())
        meta["commands"] = ["PYTHONPATH=<tree> /venv/bin/python demo.py (unchanged / changed tree)",
                            "/venv/bin/python -m pytest tests (baseline subset)", "VERIF_REPO=<tree> ./check %s --tier quick" % prop]
    finally:
        sh(["git", "-C", "/repo", "worktree", "remove", "--force", os.path.join(d, "tree")])
        shutil.rmtree(d, ignore_errors=True)
    # what the change needs in order to manifest: first lines of the agent's notes
    try:
        notes = open(os.path.join(dst, "notes.md")).read()
        meta["needs_to_manifest_excerpt"] = notes[:1200]
    except Exception:
        pass
    json.dump(meta, open(os.path.join(dst, "meta.json"), "w"), indent=1)
    print(json.dumps({k: meta[k] for k in ("id", "property", "patch_applies", "demo_on_unchanged_tree", "demo_with_change",
                                            "baseline_tests_with_change", "detected") if k in meta}, indent=1)[:1500])
    for p, v in meta.get("checks", {}).items():
        print(p, v["exit"], v["summary"])


main()
