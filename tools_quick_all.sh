#!/bin/sh
# development helper: every quick check in sequence
cd "$(dirname "$0")"
for p in C01 C02 C03 C04 C05 C07 C08 C09 C10 C11 C12 C13 C14 C15 C16 C17 C18 C19 C20; do
  ./check $p --tier quick 2>&1 | grep -v "^KNOWN-FINDING" | tail -3
done
echo ALLDONE
