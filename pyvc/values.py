"""Type descriptors and symbolic values."""
from __future__ import annotations

import z3


# --------------------------------------------------------------------------- types
class T:
    def __repr__(self):
        return self.__class__.__name__[1:]


class TInt(T):
    pass


class TBool(T):
    pass


class TStr(T):
    def __init__(self, isbytes=False):
        self.isbytes = isbytes

    def __repr__(self):
        return "Bytes" if self.isbytes else "Str"


class TNone(T):
    pass


class TTup(T):
    def __init__(self, *items):
        self.items = items

    def __repr__(self):
        return "Tup(%s)" % ", ".join(map(repr, self.items))


class TList(T):
    def __init__(self, elem):
        self.elem = elem

    def __repr__(self):
        return "List(%r)" % (self.elem,)


class TMap(T):
    """symbolic-key mapping (z3 arrays has/val)"""

    def __init__(self, k, v):
        self.k, self.v = k, v

    def __repr__(self):
        return "Map(%r,%r)" % (self.k, self.v)


class TDict(T):
    """dict with concrete string keys (messages, scope, environ)"""

    def __init__(self, **fields):
        self.fields = fields


class TObj(T):
    def __init__(self, cls, **fields):
        self.cls = cls
        self.fields = fields

    def __repr__(self):
        return "Obj(%s)" % self.cls


class TOpaque(T):
    def __init__(self, name):
        self.name = name

    def __repr__(self):
        return "Opaque(%s)" % self.name


class TOpt(T):
    def __init__(self, t):
        self.t = t

    def __repr__(self):
        return "Opt(%r)" % (self.t,)


class TMaybe(T):
    """a dict entry that may be absent (not: present with value None)"""

    def __init__(self, t):
        self.t = t


class TFunc(T):
    """a callable parameter; `stub` is the python callable modelling it"""

    def __init__(self, stub, name="callable"):
        self.stub = stub
        self.name = name


Int = TInt()
Bool = TBool()
Str = TStr()
Bytes = TStr(True)
NoneT = TNone()


def Tup(*a):
    return TTup(*a)


def List(e):
    return TList(e)


def Map(k, v):
    return TMap(k, v)


def Dict(**f):
    return TDict(**f)


def ObjT(cls, **f):
    return TObj(cls, **f)


def Opaque(n):
    return TOpaque(n)


def Opt(t):
    return TOpt(t)


def Maybe_(t):
    return TMaybe(t)


_ESC = None


def py_string(zs):
    """the python str denoted by a z3 string VALUE (z3's as_string() keeps SMT-LIB escapes such as \\u{0} / \\u{2028})"""
    import re as _re
    global _ESC
    if _ESC is None:
        _ESC = _re.compile(r"\\u\{([0-9a-fA-F]{1,5})\}|\\u([0-9a-fA-F]{4})")
    return _ESC.sub(lambda m: chr(int(m.group(1) or m.group(2), 16)), zs.as_string())


_sorts = {}


def opaque_sort(name):
    if name not in _sorts:
        _sorts[name] = z3.DeclareSort(name)
    return _sorts[name]


def leaf_sorts(t):
    if isinstance(t, TInt):
        return [z3.IntSort()]
    if isinstance(t, TBool):
        return [z3.BoolSort()]
    if isinstance(t, TStr):
        return [z3.StringSort()]
    if isinstance(t, TOpaque):
        return [opaque_sort(t.name)]
    if isinstance(t, TTup):
        out = []
        for i in t.items:
            out += leaf_sorts(i)
        return out
    raise TypeError("type %r cannot be a list element / map component" % (t,))


# --------------------------------------------------------------------------- values
class V:
    __slots__ = ()


class VInt(V):
    __slots__ = ("t",)

    def __init__(self, t):
        if isinstance(t, int):
            t = z3.IntVal(t)
        self.t = t

    def __repr__(self):
        return "VInt(%s)" % self.t


class VBool(V):
    __slots__ = ("t",)

    def __init__(self, t):
        if isinstance(t, bool):
            t = z3.BoolVal(t)
        self.t = t

    def __repr__(self):
        return "VBool(%s)" % self.t


class VStr(V):
    __slots__ = ("t", "isbytes", "tag")

    def __init__(self, t, isbytes=False, tag=None):
        if isinstance(t, (str, bytes)):
            if isinstance(t, bytes):
                isbytes = True
                t = t.decode("latin-1")
            t = z3.StringVal(t)
        self.t = t
        self.isbytes = isbytes
        self.tag = tag

    def __repr__(self):
        return "V%s(%s)" % ("Bytes" if self.isbytes else "Str", self.t)


class VNone(V):
    __slots__ = ()

    def __repr__(self):
        return "VNone"


NONE = VNone()


class VTuple(V):
    __slots__ = ("items",)

    def __init__(self, items):
        self.items = tuple(items)

    def __repr__(self):
        return "VTuple%r" % (self.items,)


class VRef(V):
    """reference to a heap object"""
    __slots__ = ("oid",)

    def __init__(self, oid):
        self.oid = oid

    def __repr__(self):
        return "VRef(%d)" % self.oid


class VOpaque(V):
    __slots__ = ("t", "sort")

    def __init__(self, t, sort):
        self.t = t
        self.sort = sort

    def __repr__(self):
        return "VOpaque(%s:%s)" % (self.t, self.sort)


class VFunc(V):
    """kind: 'closure' (node, env, frame), 'lambda' (node, env), 'py' (python callable(ev,args,kwargs)),
    'bound' (recv V, method name), 'contract' (Contract, recv or None)"""
    __slots__ = ("kind", "data", "name")

    def __init__(self, kind, data, name="?"):
        self.kind = kind
        self.data = data
        self.name = name

    def __repr__(self):
        return "VFunc(%s:%s)" % (self.kind, self.name)


class VClass(V):
    __slots__ = ("name",)

    def __init__(self, name):
        self.name = name

    def __repr__(self):
        return "VClass(%s)" % self.name


class VOpt(V):
    """an Optional value with a symbolic None flag (contract option lazy_opt): `n` is a z3 Bool "is None", `val` the
    value when it is not None.  It flows through assignments, dict.pop/get defaults, conditional expressions and
    `is None` tests unresolved; any other use resolves it (Ev.resolve: by the path condition, else by forking)."""
    __slots__ = ("n", "val", "name")

    def __init__(self, n, val, name="opt"):
        self.n = n
        self.val = val
        self.name = name

    def __repr__(self):
        return "VOpt(%s)" % self.name


class VGlobal(V):
    """an unresolved module-level / dotted name (module objects, imported things)"""
    __slots__ = ("name",)

    def __init__(self, name):
        self.name = name

    def __repr__(self):
        return "VGlobal(%s)" % self.name


# --------------------------------------------------------------------------- heap objects
class ListObj:
    def __init__(self, length, cols, etype, immutable=False):
        self.length = length
        self.cols = list(cols)
        self.etype = etype
        self.immutable = immutable

    def copy(self):
        return ListObj(self.length, self.cols, self.etype, self.immutable)


class MapObj:
    def __init__(self, has, val, ktype, vtype):
        self.has = has
        self.val = list(val)
        self.ktype = ktype
        self.vtype = vtype

    def copy(self):
        return MapObj(self.has, self.val, self.ktype, self.vtype)


class DictObj:
    """concrete string keys"""

    def __init__(self, items=None, declared=None):
        self.items = dict(items or {})
        # for a dict that is a symbolic INPUT of a contract (scope, environ, message): the keys its parameter type declares.
        # Code that reads any other key of it cannot be analysed (the read is not silently "absent")
        self.declared = declared

    def copy(self):
        return DictObj(self.items, self.declared)


class Obj:
    def __init__(self, cls, fields=None):
        self.cls = cls
        self.fields = dict(fields or {})

    def copy(self):
        return Obj(self.cls, self.fields)


def pack(t, leaves):
    """build a V of type t from a list of z3 leaf terms (consumes from the front); returns (V, rest)"""
    if isinstance(t, TInt):
        return VInt(leaves[0]), leaves[1:]
    if isinstance(t, TBool):
        return VBool(leaves[0]), leaves[1:]
    if isinstance(t, TStr):
        return VStr(leaves[0], t.isbytes), leaves[1:]
    if isinstance(t, TOpaque):
        return VOpaque(leaves[0], t.name), leaves[1:]
    if isinstance(t, TTup):
        items = []
        for it in t.items:
            v, leaves = pack(it, leaves)
            items.append(v)
        return VTuple(items), leaves
    raise TypeError(t)


def unpack(v):
    if isinstance(v, (VInt, VBool, VStr, VOpaque)):
        return [v.t]
    if isinstance(v, VTuple):
        out = []
        for i in v.items:
            out += unpack(i)
        return out
    raise TypeError("cannot store %r in a list/map" % (v,))


def type_of_value(v):
    if isinstance(v, VInt):
        return Int
    if isinstance(v, VBool):
        return Bool
    if isinstance(v, VStr):
        return Bytes if v.isbytes else Str
    if isinstance(v, VOpaque):
        return TOpaque(v.sort)
    if isinstance(v, VTuple):
        return TTup(*[type_of_value(i) for i in v.items])
    if isinstance(v, VNone):
        return NoneT
    raise TypeError("no element type for %r" % (v,))


def same_type(a, b):
    return repr(a) == repr(b)


def undeclared_read(ev, o, k, node):
    """a read of a key the parameter type of an input dict does not declare"""
    if getattr(o, "declared", None) is not None and k not in o.items and not ev.pure:
        ev.unsupported(node, "read of key %r of an input dict whose contract type declares only %s" % (k, sorted(o.declared)))
