"""setup_cmd: verifies that the tooling the checks need is present (nothing is built or fetched)."""
import os
import shutil
import subprocess
import sys

_HERE = os.path.dirname(os.path.dirname(os.path.abspath(__file__)))


def main():
    import z3
    ok = True
    s = z3.Solver()
    x = z3.Int("x")
    s.add(x > 1, x < 3)
    assert str(s.check()) == "sat" and s.model()[x].as_long() == 2
    for b in ("/usr/bin/cvc5", "/usr/bin/z3", "/venv/bin/python"):
        if not os.path.exists(b):
            print("selfcheck: missing", b)
            ok = False
    r = subprocess.run(["/venv/bin/python", "-c", "import sys; sys.path.insert(0,'/repo'); import baize.asgi, baize.wsgi"],
                       capture_output=True, text=True)
    if r.returncode:
        print("selfcheck: /venv/bin/python cannot import baize:", r.stderr[-500:])
        ok = False
    os.makedirs(os.path.join(_HERE, "out", "replay"), exist_ok=True)
    os.makedirs(os.path.join(_HERE, "evidence"), exist_ok=True)
    print("selfcheck:", "ok" if ok else "FAILED", "z3", z3.get_version_string())
    return 0 if ok else 1


if __name__ == "__main__":
    sys.exit(main())
