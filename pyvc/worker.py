"""python3-vt -m pyvc.worker <modules,comma> <contract id> prove|refute:<bound>:<unroll> [timeout_ms]
prints one JSON document (the verification result of one contract) on stdout."""
import json
import os
import sys
import traceback

sys.path.insert(0, os.path.dirname(os.path.dirname(os.path.abspath(__file__))))


def main():
    mods, cid, mode = sys.argv[1].split(","), sys.argv[2], sys.argv[3]
    timeout_ms = int(sys.argv[4]) if len(sys.argv) > 4 else 30000
    only = None
    if len(sys.argv) > 5 and sys.argv[5] != "-":
        only = set(json.loads(sys.argv[5]))
    try:
        from pyvc.contract import Registry
        from pyvc.verify import verify_contract
        from pyvc import stubs
        import contracts
        reg = contracts.load(Registry(), mods)
        c = reg.by_id[cid]
        refute = None
        if mode.startswith("refute"):
            parts = mode.split(":")
            refute = {"bound": int(parts[1]), "unroll": int(parts[2]) if len(parts) > 2 else 4}
        out = verify_contract(c, reg, timeout_ms=timeout_ms, refute=refute, only=only)
        out["assumptions_used"] = sorted(set(stubs.USED) | set(c.assumptions))
        from .contract import AUTO_INLINED
        out["inlined"] = sorted(x.id for x in reg.by_id.values() if x.inline) + sorted(AUTO_INLINED)
        out["props"] = c.props
        out["notes"] = c.notes
    except Exception as e:  # a crash of the checker is a checker fault, never a verdict
        out = {"contract": cid, "crash": "%s: %s" % (type(e).__name__, e), "traceback": traceback.format_exc()[-3000:],
               "results": [], "undecided_paths": [], "paths": 0, "mode": mode}
    json.dump(out, sys.stdout)


if __name__ == "__main__":
    main()
