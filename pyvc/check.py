"""./check <ID> --tier quick|thorough [--replay file] [--update-baseline]

Decides one property: (A) proof obligations of every contract of the property, generated from /repo's
working tree and discharged by z3 / cvc5; (B) bounded refuter (same contracts, concrete small shapes, loops
unrolled) that yields real counter-models and decides the must-fail canaries; (C) native bounded stand-in
(oracle written from the property statement, real code, labelled bounded).  Exit codes: 0 held, 1 violation
(VIOLATION line), 2 undecided, 3 checker fault."""
from __future__ import annotations

import argparse
import concurrent.futures as cf
import hashlib
import json
import os
import subprocess
import sys
import time

VERIF = os.path.dirname(os.path.dirname(os.path.abspath(__file__)))   # the checkout this file lives in
sys.path.insert(0, VERIF)
PYVT = "python3-vt"
NATIVE_PY = "/venv/bin/python"


def run_worker(mods, cid, mode, timeout_ms, only=None, wall=3600):
    cmd = [PYVT, "-m", "pyvc.worker", ",".join(mods), cid, mode, str(timeout_ms), json.dumps(sorted(only)) if only is not None else "-"]
    t0 = time.time()
    env = dict(os.environ)
    env.pop("PYVC_DEBUG", None)
    try:
        p = subprocess.run(cmd, capture_output=True, text=True, cwd=VERIF, timeout=wall, env=env)
        out = json.loads(p.stdout)
    except subprocess.TimeoutExpired:
        out = {"contract": cid, "crash": "worker wall-clock limit", "results": [], "undecided_paths": [], "paths": 0}
    except Exception as e:
        out = {"contract": cid, "crash": "worker output unreadable: %s; stderr=%s" % (e, (p.stderr or "")[-1500:]),
               "results": [], "undecided_paths": [], "paths": 0}
    out["mode"] = mode
    out["worker_wall_s"] = time.time() - t0
    return out


def run_native(args, wall=None):
    if wall is None:
        wall = 240 if (len(args) > 2 and args[2] == "quick") or args[0] == "replay" else 4 * 3600
    env = dict(os.environ)
    env["PYTHONPATH"] = os.environ.get("VERIF_REPO", "/repo") + ":" + VERIF
    try:
        p = subprocess.run([NATIVE_PY, "-u", "-m", "native.run"] + args, capture_output=True, text=True, cwd=VERIF,
                           env=env, timeout=wall)
    except subprocess.TimeoutExpired:
        return {"hang": "native run exceeded %ds (a response or request loop did not terminate)" % wall}
    if p.returncode != 0:
        return {"crash": "native runner failed", "stderr": p.stderr[-3000:]}
    try:
        return json.loads(p.stdout)
    except Exception as e:
        return {"crash": "native runner output unreadable: %s" % e, "stdout": p.stdout[-1000:], "stderr": p.stderr[-2000:]}


def load_known():
    p = os.path.join(VERIF, "known_findings.json")
    if not os.path.exists(p):
        return []
    return json.load(open(p)).get("findings", [])


def _in_baseline(name, contract, baseline):
    """was this obligation discharged on the reference tree?  By name - or, for `noraise.<Class>`, by clause: the contract's
    allowed-exception set was discharged there (no path let that class escape), so a path that now does is the same clause
    failing, although the reference tree generated no obligation of that name."""
    names = baseline.get("prove", [])
    if name in names:
        return True
    if "/noraise." in name and any(n.startswith(contract + "/") for n in names):
        return True
    return False


def load_baseline():
    p = os.path.join(VERIF, "baseline", "obligations.json")
    if not os.path.exists(p):
        return {}
    return json.load(open(p))


def matches_known(known, prop, kind, name, inputs):
    """known finding entries: {property, status: open|fixed, match: {obligation: name} or {native: expr}}"""
    for k in known:
        if k.get("property") != prop or k.get("status") != "open":
            continue
        m = k.get("match", {})
        if kind == "obligation" and m.get("obligation") and m["obligation"] == name:
            return k
        if kind == "native" and m.get("native_region"):
            try:
                if eval(m["native_region"], {"__builtins__": {"len": len, "any": any, "all": all, "str": str, "int": int, "set": set, "sorted": sorted, "isinstance": isinstance}}, {"inputs": inputs, "violated": name}):
                    return k
            except Exception:
                continue
    return None


def main():
    ap = argparse.ArgumentParser()
    ap.add_argument("prop")
    ap.add_argument("--tier", default=os.environ.get("VERIF_TIER", "quick"))
    ap.add_argument("--replay")
    ap.add_argument("--update-baseline", action="store_true")
    ap.add_argument("--jobs", type=int, default=int(os.environ.get("VERIF_JOBS", "5")))
    a = ap.parse_args()
    from props import PROPS
    if a.prop not in PROPS:
        print("CHECKER-FAULT unknown property %s" % a.prop)
        return 3
    cfg = PROPS[a.prop]
    seed = int(os.environ.get("VERIF_SEED", "0") or 0)
    if a.replay:
        return do_replay(a.prop, cfg, a.replay)
    t0 = time.time()
    tier = a.tier if a.tier in ("quick", "thorough") else "quick"
    mods = cfg["modules"]
    tmo = cfg.get("timeout_ms", {}).get(tier, 12000 if tier == "quick" else 60000)
    results = []
    native = None
    from pyvc.contract import Registry as _R
    import contracts as _contracts
    _reg = _contracts.load(_R(), mods)
    # contracts that declare explicit canaries get a canary run of the bounded refuter on every check
    canary_contracts = set(cfg.get("canary_contracts", [c_ for c_ in cfg["contracts"] if _reg.by_id[c_].canaries]))
    cfg["_canary_contracts"] = sorted(canary_contracts)
    with cf.ThreadPoolExecutor(max_workers=a.jobs) as ex:
        nfut = None
        if cfg.get("native"):
            nfut = ex.submit(run_native, ["bounded", cfg["native"], tier, str(seed)])
        # stage 1: proof obligations of every contract
        futs = {ex.submit(run_worker, mods, cid, "prove", tmo): cid for cid in cfg["contracts"]}
        # the canaries do not depend on stage 1
        futs2 = {}
        bounds = cfg.get("refute", {}).get(tier, [2])
        for cid in canary_contracts:
            for b in bounds:
                futs2[ex.submit(run_worker, mods, cid, "refute:%d:%d" % (b, cfg.get("unroll", 4)), tmo, set())] = cid
        for f in cf.as_completed(list(futs)):
            r = f.result()
            results.append(r)
            # stage 2: bounded refuter on what stage 1 could not discharge (counter-models for the replay)
            failing = {o["name"] for o in r.get("results", []) if o["kind"] == "obligation" and o["status"] != "discharged"}
            if r.get("undecided_paths") or any("/inv" in n or "/cut." in n or "/pre[" in n for n in failing):
                # a proof-internal obligation (invariant, cut, callee precondition) failed or a path was not
                # analysable: the bounded refuter re-checks every clause of the contract without them
                failing = None if (failing or r.get("undecided_paths")) else failing
            if (failing is None or failing) and r["contract"] not in cfg.get("no_refute", ()) and not r.get("crash"):
                for b in bounds:
                    futs2[ex.submit(run_worker, mods, r["contract"], "refute:%d:%d" % (b, cfg.get("unroll", 4)), min(tmo, 10000), failing)] = r["contract"]
        for f in cf.as_completed(list(futs2)):
            results.append(f.result())
        if nfut is not None:
            native = nfut.result()
    # stage 3: second chance.  Solver budgets are wall-clock, and stages 1-2 keep all cores busy; an obligation or canary
    # that ran out of time there is tried once more, alone on the machine and with a longer budget, before it is
    # called undecided.  (Only `unknown` answers are retried - never a refutation.)
    # (not when a violation is already on the table - a refuted obligation or a failing native run: the retries could
    # only turn "undecided" into "discharged", which would not change the verdict)
    _known = load_known()
    already = any(o["kind"] == "obligation" and o["status"] == "refuted" and matches_known(_known, a.prop, "obligation", o["name"], None) is None
                  for r in results for o in r.get("results", [])) or bool(
        native and (native.get("hang") or any(matches_known(_known, a.prop, "native", f.get("violated"), f.get("inputs")) is None
                                              for f in native.get("failures", []))))
    for r in list(results):
        if already or r.get("crash") or r.get("mode") != "prove":
            continue
        names = {o["name"] for o in r.get("results", []) if o["kind"] == "obligation" and o["status"] == "undecided"}
        if not names:
            continue
        r2 = run_worker(mods, r["contract"], "prove", tmo * 5, names)
        if r2.get("crash"):
            continue
        by = {o["name"]: o for o in r2.get("results", []) if o["kind"] == "obligation"}
        r["results"] = [dict(by[o["name"]], retried=True) if o["name"] in by and o["kind"] == "obligation" and o["status"] == "undecided"
                        else o for o in r["results"]]
        r["solver_ms"] = r.get("solver_ms", 0) + r2.get("solver_ms", 0)
    seen_can = {}
    for r in results:
        for o in r.get("results", []):
            if o["kind"] == "canary" and not o["name"].endswith("/canary.normal_return_reachable"):
                seen_can[o["name"]] = seen_can.get(o["name"]) == "refuted" and "refuted" or o["status"]
    for cid in sorted(canary_contracts):
        if already:
            break
        if any(n.startswith(cid + "/canary.") and st_ != "refuted" for n, st_ in seen_can.items()):
            for b in bounds:
                results.append(run_worker(mods, cid, "refute:%d:%d" % (b, cfg.get("unroll", 4)), tmo * 3, set()))
    results.sort(key=lambda r: (r["contract"], r["mode"]))
    if os.environ.get("PYVC_DEBUG"):
        for r in results:
            print("  worker %-30s %-14s wall=%.1fs paths=%s" % (r["contract"], r["mode"], r.get("worker_wall_s", 0), r.get("paths")))
    return conclude(a, cfg, tier, seed, results, native, t0)


def conclude(a, cfg, tier, seed, results, native, t0):
    prop = a.prop
    known = load_known()
    baseline = load_baseline().get(prop, {})
    faults = []
    violations = []       # dicts: kind, name, inputs, native, model, solver
    undecided = []
    known_hits = []
    ob_rows = []
    n_obl = n_dis = 0
    canaries = {}
    reach = {}
    functions = []
    assumptions = set(cfg.get("trusted", []))
    solver_s = 0.0
    produced = {"prove": set(), "refute": set()}
    from pyvc.contract import Registry
    import contracts
    reg = contracts.load(Registry(), cfg["modules"])

    for r in results:
        mode = "prove" if r["mode"] == "prove" else "refute"
        if r.get("crash"):
            faults.append("%s [%s]: %s" % (r["contract"], r["mode"], r["crash"]))
            continue
        assumptions.update(r.get("assumptions_used", []))
        solver_s += r.get("solver_ms", 0) / 1000.0
        if mode == "prove":
            functions.append({"contract": r["contract"], "file": r["file"], "qualname": r["qualname"],
                              "sha256": r["sha256"], "paths": r["paths"]})
            oc = r.get("outcomes", {})
            if oc.get("normal", 0) > 0 and oc.get("dead_normal", 0) >= oc.get("normal", 0) and r["contract"] not in cfg.get("never_returns", ()):
                faults.append("%s: every normal-return path has an inconsistent path condition (vacuous proof)" % r["contract"])
            for u in r["undecided_paths"]:
                undecided.append({"contract": r["contract"], "obligation": r["contract"] + "/<path>", "reason": u})
        else:
            for u in r["undecided_paths"]:
                if "unroll bound" in u:
                    continue
        for o in r["results"]:
            if o["kind"] == "canary":
                cur = canaries.get(o["name"])
                if o["status"] == "refuted" or cur is None or (cur == "dead" and o["status"] == "not-refuted"):
                    if cur != "refuted":
                        canaries[o["name"]] = o["status"]
                continue
            if o["kind"] == "reach":
                cur = reach.get(o["name"])
                if o["status"] == "reachable" or cur is None or (cur == "reach-unknown" and o["status"] == "unreachable"):
                    if cur != "reachable":
                        reach[o["name"]] = o["status"]
                continue
            produced[mode].add(o["name"])
            row = dict(o)
            row["mode"] = r["mode"]
            ob_rows.append(row)
            if mode == "prove":
                n_obl += 1
                if o["status"] == "discharged":
                    n_dis += 1
            if o["status"] == "candidate":
                violations.append({"kind": "candidate", "name": o["name"], "mode": r["mode"], "model": o.get("model"),
                                   "contract": r["contract"], "note": o.get("note", ""), "line": o.get("line", 0),
                                   "solver": "%s: candidate model from the quantifier-free premises" % o["name"],
                                   "in_baseline": False, "candidate": True})
                continue
            if o["status"] == "refuted":
                kf = matches_known(known, prop, "obligation", o["name"], None)
                if kf is not None:
                    known_hits.append(kf)
                    if mode == "prove":
                        n_obl -= 1
                    continue
                violations.append({"kind": "obligation", "name": o["name"], "mode": r["mode"], "model": o.get("model"),
                                   "contract": r["contract"], "note": o.get("note", ""), "line": o.get("line", 0),
                                   "solver": "%s: sat (%s, %.0f ms)" % (o["name"], o.get("backend"), o.get("ms", 0)),
                                   "in_baseline": _in_baseline(o["name"], r["contract"], baseline)})
            elif o["status"] == "undecided" and mode == "prove":
                undecided.append({"contract": r["contract"], "obligation": o["name"],
                                  "reason": o.get("reason") or "solver: unknown"})

    # ---- replay of counter-models on the real code
    confirmed = []
    unconfirmed = []
    unobservable = []
    for v in violations:
        c = reg.by_id.get(v["contract"])
        v["replayed"] = None
        if c is not None and c.model_to_inputs is not None and c.native is not None and v.get("model"):
            try:
                inputs = c.model_to_inputs(v["model"])
                if inputs is None:
                    raise LookupError("this model has no concrete counterpart the replay driver can build")
                nmod, nfn = c.native
                sel = getattr(c, "replay_select", None)
                if sel is not None:
                    # some clauses of a contract are replayed by another driver (e.g. the conditional-request clauses of the
                    # static-file applications: a fixed family of validator forms on a real file, not the model's path)
                    alt = sel(v["name"], v["model"])
                    if alt is not None:
                        (nmod, nfn), inputs = alt
                v["native_fn"] = [nmod, nfn]
                nat = run_native(["replay", nmod, json.dumps(inputs), nfn])
                v["inputs"] = inputs
                v["native"] = nat
                v["replayed"] = bool(nat.get("violated"))
            except Exception as e:
                v["native"] = {"crash": str(e)}
        if (c is not None and (c.model_to_inputs is None or c.native is None) and v.get("model") and v["replayed"] is None
                and c.id in baseline.get("rt_safe", [])):
            # no hand-written replay driver: run-time contract checking of the real function on the model's arguments
            try:
                from pyvc import rtreplay
                case = rtreplay.build_case(c, v["model"])
                if case is not None:
                    nat = run_native(["replay", "rt", json.dumps(case), "replay"])
                    if nat.get("violated"):
                        # confirm-only: a clause that is false on the real code is a failing input; a replay that passes says
                        # nothing here (the model may rest on the abstract reading of an uninterpreted function)
                        v["inputs"] = {"runtime_contract_check": case["contract"], "args": nat.get("args"),
                                       "exact_model": nat.get("exact_model_replayed")}
                        v["native"] = nat
                        v["native_fn"] = ["rt", "replay"]
                        v["replayed"] = True
            except Exception as e:
                v["native"] = {"crash": str(e)}
        if v["replayed"]:
            confirmed.append(v)
        elif c is not None and getattr(c, "observable_only", False) and v["replayed"] is False:
            # the clause is stricter than what can be observed (e.g. a regex that differs from the reference only on
            # words another guard rejects anyway): the counterexample was replayed and the real code behaves as the
            # property demands -> recorded, not reported
            unobservable.append({"obligation": v["name"], "inputs": v.get("inputs"), "native": v.get("native")})
        elif not v.get("candidate"):
            unconfirmed.append(v)

    # ---- native bounded stand-in
    nat_fail = []
    if native is not None:
        if native.get("hang"):
            nat_fail.append({"inputs": {"note": native["hang"]}, "violated": [native["hang"]], "replay_fn": "replay"})
        elif native.get("crash"):
            # an exception the stand-in did not anticipate.  If it was RAISED INSIDE the code under test (innermost
            # traceback frame in the repository: NameError, TypeError, AttributeError ... of changed code) that is the
            # code's failure, not the checker's; anything raised in the harness itself stays a checker fault.
            tb = native.get("stderr", "")
            frames = [l.strip() for l in tb.split("\n") if l.strip().startswith('File "')]
            repo_dir = os.path.realpath(os.environ.get("VERIF_REPO", "/repo")) + "/baize/"
            inner = frames[-1] if frames else ""
            if inner.startswith('File "%s' % repo_dir) or inner.startswith('File "%s' % (os.environ.get("VERIF_REPO", "/repo") + "/baize/")):
                last = [l for l in tb.strip().split("\n") if l.strip()][-1] if tb.strip() else "exception"
                nat_fail.append({"inputs": {"note": "the code under test raised an exception no oracle of the stand-in expects",
                                            "traceback": tb[-1500:]},
                                 "violated": ["unexpected %s at %s" % (last[:200], inner[:200])], "replay_fn": "replay"})
            else:
                faults.append("native stand-in: %s %s" % (native["crash"], tb[-800:]))
        else:
            for f in native.get("failures", []):
                kf = matches_known(known, prop, "native", f.get("violated"), f.get("inputs"))
                if kf is not None:
                    known_hits.append(kf)
                    continue
                nat_fail.append(f)

    # ---- vacuity guards
    if not a.update_baseline:
        for mode in ("prove",):
            missing = sorted(set(baseline.get(mode, [])) - produced[mode])
            if missing and not faults:
                # an obligation of the reference tree was not generated: the function changed shape (e.g. a loop
                # disappeared).  Undecided, not a verdict.
                for m in missing[:10]:
                    undecided.append({"contract": m.split("/")[0], "obligation": m,
                                      "reason": "obligation of the reference tree was not generated (%s mode)" % mode})
    if n_obl == 0 and cfg["contracts"]:
        faults.append("zero proof obligations generated")
    # ---- the assumed contracts this run relied on, validated (bounded / exhaustive where finite) on the interpreter the
    # library runs on: a false assumption makes the proofs meaningless here - a fault of the verification, not a violation
    assumption_validation = run_native(["replay", "assume", json.dumps({"ids": sorted(assumptions), "tier": tier, "seed": seed}),
                                        "validate"], wall=600)
    if "crash" in assumption_validation or "hang" in assumption_validation:
        faults.append("assumption validators did not run: %s" % str(assumption_validation)[:300])
        assumption_validation = {}
    for aid, res in sorted(assumption_validation.items()):
        if res.get("validated") and res.get("failures"):
            faults.append("assumed contract %s does not hold on this interpreter: %s" % (aid, res["failures"][:2]))
    # contracts with a path the executor could not analyse (unsupported construct in changed code): their canaries may be
    # dead or missing for that reason alone - reported as undecided (above), not as a fault of the checker
    partial = {r_["contract"] for r_ in results if any("unroll bound" not in u for u in r_.get("undecided_paths", []))}
    for name, st in canaries.items():
        auto = name.endswith("/canary.normal_return_reachable")
        if name.split("/canary.")[0] in partial:
            continue
        if st == "dead" or (st != "refuted" and not auto):
            faults.append("canary %s was not refuted (%s): %s" % (name, st, "no concrete input reaches a normal return - vacuous contract"
                          if auto else "the refutation path of the checker is not working or the clause is vacuous"))
    for name, st in reach.items():
        if st == "unreachable":
            faults.append("%s: preconditions are not satisfiable (vacuous contract)" % name)
    for cid in cfg.get("_canary_contracts", []):
        if cid in cfg.get("no_canary", ()):
            continue
        if not any(k.startswith(cid + "/canary.") for k in canaries) and not any(
                r_["contract"] == cid and (r_.get("crash") or any("unroll bound" not in u for u in r_.get("undecided_paths", [])))
                for r_ in results):
            # (a contract with an unsupported construct on some path is reported as undecided, not as a fault)
            faults.append("contract %s produced no canary (the refuter did not reach a normal return)" % cid)

    # ---- verdict
    os.makedirs(os.path.join(VERIF, "out", "replay"), exist_ok=True)
    lines = []
    exit_code = 0
    replay_paths = []

    def write_replay(i, doc):
        path = os.path.join(VERIF, "out", "replay", "%s-%d.json" % (prop, i))
        json.dump(doc, open(path, "w"), indent=1, default=str)
        replay_paths.append(path)
        return path

    n = 0
    reported = set()
    for v in confirmed:
        key = json.dumps(v.get("inputs"), sort_keys=True)
        if key in reported:
            continue
        reported.add(key)
        n += 1
        path = write_replay(n, {"property": prop, "source": "solver counterexample (%s mode), replayed on the real code" % v["mode"],
                                "obligation": v["name"], "contract": v["contract"], "clause": v["note"],
                                "inputs": v["inputs"], "native_module": v.get("native_fn") or reg.by_id[v["contract"]].native,
                                "native_outcome": v["native"], "solver_output": v["solver"], "model": v["model"]})
        lines.append("VIOLATION property=%s replay=%s" % (prop, path))
        if n >= 3:
            break
    for f in nat_fail[:3]:
        n += 1
        path = write_replay(n, {"property": prop, "source": "bounded stand-in (native oracle on the real code)",
                                "obligation": None, "inputs": f.get("inputs"), "native_module": [cfg["native"], f.get("replay_fn", "replay")],
                                "native_outcome": {"violated": f.get("violated")}})
        lines.append("VIOLATION property=%s replay=%s" % (prop, path))
    if not lines:
        # refuted obligations whose model did not replay natively
        # a counterexample that WAS replayed and on which the real code behaves as the property demands is evidence that
        # the refutation is an artefact of the abstraction (a contract or stub weaker than the changed code needs): the
        # proof is broken, but no violation is shown -> undecided.  Only a refutation that could not be replayed at all
        # (no input mapping for that contract) is reported without a failing input.
        passed = [v for v in unconfirmed if v["in_baseline"] and v.get("replayed") is False
                  and not (isinstance(v.get("native"), dict) and (v["native"].get("crash") or v["native"].get("hang")))]
        for v in passed:
            undecided.append({"contract": v["contract"], "obligation": v["name"],
                              "reason": "refuted by the solver (%s) but its counterexample, replayed on the real code, satisfies the "
                                        "property: proof broken, no violation shown" % v["mode"]})
        base_unconf = [v for v in unconfirmed if v["in_baseline"] and v not in passed]
        for v in base_unconf[:3]:
            n += 1
            path = write_replay(n, {"property": prop, "source": "obligation discharged on the reference tree is now refuted; "
                                    "no failing input could be replayed on the real code", "obligation": v["name"],
                                    "contract": v["contract"], "clause": v["note"], "inputs": v.get("inputs"),
                                    "native_outcome": v.get("native"), "solver_output": v["solver"], "model": v["model"]})
            lines.append("VIOLATION property=%s replay=%s no-failing-input-found" % (prop, path))
        nonbase = [v for v in unconfirmed if not v["in_baseline"]]
        if nonbase and not base_unconf and not a.update_baseline:
            for v in nonbase[:5]:
                if os.environ.get("VERIF_REPO"):
                    # a changed tree: an obligation the reference tree did not have (a new call site, a new loop) is refuted
                    # and no input replays - neither a verdict nor a fault of the checker
                    undecided.append({"contract": v["contract"], "obligation": v["name"],
                                      "reason": "refuted (%s), but the reference tree has no such obligation and no input replays" % v["mode"]})
                else:
                    faults.append("obligation %s refuted (%s) but it is not in the baseline and the model does not replay: "
                                  "contract/encoding problem" % (v["name"], v["mode"]))
    if lines:
        exit_code = 1
    elif faults:
        exit_code = 3
    elif undecided:
        exit_code = 2

    for k in {json.dumps(k, sort_keys=True): k for k in known_hits}.values():
        print("KNOWN-FINDING: property=%s %s" % (prop, k.get("what", k.get("id", ""))))
    for l in lines:
        print(l)
    if exit_code == 3:
        for f in faults:
            print("CHECKER-FAULT property=%s %s" % (prop, f))
    if exit_code == 2:
        for u in undecided[:20]:
            print("UNDECIDED property=%s obligation=%s reason=%s" % (prop, u["obligation"], u["reason"][:300]))

    if a.update_baseline:
        allb = load_baseline()
        # contracts whose clauses can be checked at run time on generated inputs (ghost-free, plain data) AND hold there on the
        # reference tree: only these are used for run-time-contract replays (a contract whose `requires` is weaker than the
        # domain its stubs assume - e.g. "the directory is absolute and normalised" - fails this test and is left out)
        rt_safe = []
        from pyvc import rtreplay
        for cid in cfg["contracts"]:
            c_ = reg.by_id.get(cid)
            case = rtreplay.build_case(c_, None, family_only=True) if c_ is not None and c_.model_to_inputs is None else None
            if case is None:
                continue
            case["family"] = 300
            nat = run_native(["replay", "rt", json.dumps(case), "replay"], wall=300)
            if not nat.get("violated") and not nat.get("crash") and not nat.get("hang") and int(nat.get("family_inputs_tried") or 0) >= 20:
                rt_safe.append(cid)
        allb[prop] = {"prove": sorted(produced["prove"]), "rt_safe": sorted(rt_safe)}
        os.makedirs(os.path.join(VERIF, "baseline"), exist_ok=True)
        json.dump(allb, open(os.path.join(VERIF, "baseline", "obligations.json"), "w"), indent=1, sort_keys=True)
        print("baseline updated: %d proof obligations" % len(produced["prove"]))

    # ---- evidence
    wall = time.time() - t0
    samples = []
    for row in ob_rows:
        if row["mode"] == "prove" and len(samples) < 4 and row.get("smt_head"):
            samples.append({"obligation": row["name"], "clause": row.get("note", ""), "status": row["status"],
                            "backend": row.get("backend"), "ms": round(row.get("ms", 0), 1),
                            "smtlib_bytes": row.get("smt_size", 0), "smtlib_tail": row.get("smt_head", "")[:400]})
    nat = native or {}
    for s_ in (nat.get("samples") or [])[:4]:
        samples.append({"bounded_case": s_})
    coverage = {
        "obligations": n_obl, "discharged": n_dis,
        "checker_cmd": "./check %s --tier %s   (python3-vt pyvc: VCs from /repo's AST; z3 5.1 API, cvc5 1.0.3 and z3 4.8.12 binaries as portfolio)" % (prop, tier),
        "trusted_base": sorted(assumptions),
        "functions_under_contract": functions,
        "per_obligation": [{"name": r["name"], "mode": r["mode"], "status": r["status"], "backend": r.get("backend"),
                            "ms": round(r.get("ms", 0), 1), "path_instances": r.get("instances", 0)} for r in ob_rows if r["mode"] == "prove"],
        "solver_time_s": round(solver_s, 2),
        "refuter": {"modes": sorted({r["mode"] for r in results if r["mode"] != "prove"}),
                    "obligations_checked": sum(1 for r in ob_rows if r["mode"] != "prove"),
                    "note": "bounded symbolic refuter (concrete list lengths, loops unrolled, no invariants): a second, "
                            "independent check of the same clauses that returns concrete counter-models; bounded, not counted as proof"},
        "canaries_refuted": sorted(k for k, v in canaries.items() if v == "refuted"),
        "reachability_checks": reach,
        "undecided": undecided[:50],
        "known_findings_reported": [k.get("id") for k in {json.dumps(k, sort_keys=True): k for k in known_hits}.values()],
        "bounded_standins": [{"name": "native." + cfg["native"], "labelled": "bounded", "evaluations": nat.get("evaluations", 0),
                              "distinct_nontrivial": nat.get("distinct_nontrivial", 0), "rule": nat.get("rule", ""),
                              "failures": len(nat.get("failures", []))}] if cfg.get("native") else [],
        "evaluations": int(nat.get("evaluations", 0)) if cfg.get("native") else max(1, n_obl),
        "distinct_nontrivial": int(nat.get("distinct_nontrivial", 0)) if cfg.get("native") else max(2, n_dis),
        "rule": nat.get("rule", "one case per proof obligation"),
        "samples": samples or [{"note": "no sample"}],
        "exhaustive": bool(nat.get("exhaustive", False)),
        "explanation": cfg.get("explanation", ""),
        "inlined_callees": sorted({x for r in results for x in r.get("inlined", [])}),
        "faults": faults,
        "unobservable_deviations": unobservable,
        # every assumed contract used: validated on this interpreter (bounded / exhaustive, never part of a proof) or unchecked
        "assumption_validation": assumption_validation,
        "assumptions_unchecked": sorted(a for a, r_ in assumption_validation.items() if not r_.get("validated")),
    }
    ev = {"property_id": prop, "tier": tier, "seed": seed, "level": cfg["level"], "coverage": coverage,
          "assumptions": sorted(assumptions) + cfg.get("assumption_notes", []), "wall_s": round(wall, 2),
          "violations": len(lines)}
    # runs against a scratch copy (VERIF_REPO set: development / mutation runs) never touch the committed evidence
    evdir = os.path.join(VERIF, "evidence") if not os.environ.get("VERIF_REPO") else os.path.join(VERIF, "out", "evidence-scratch")
    os.makedirs(evdir, exist_ok=True)
    json.dump(ev, open(os.path.join(evdir, "%s.json" % prop), "w"), indent=1, default=str)
    print("%s tier=%s exit=%d obligations=%d discharged=%d refuter_checked=%d native_evals=%s wall=%.1fs" % (
        prop, tier, exit_code, n_obl, n_dis, coverage["refuter"]["obligations_checked"], nat.get("evaluations"), wall))
    return exit_code


def do_replay(prop, cfg, path):
    doc = json.load(open(path))
    nm = doc.get("native_module")
    if not nm or doc.get("inputs") is None:
        print("replay file names obligation %s; it carries no concrete input (no-failing-input-found). solver output: %s" % (
            doc.get("obligation"), doc.get("solver_output")))
        # re-run the check itself: the obligation is re-generated from the current tree
        return subprocess.call([os.path.join(VERIF, "check"), prop, "--tier", "quick"])
    nat = run_native(["replay", nm[0], json.dumps(doc["inputs"]), nm[1]])
    print(json.dumps(nat, indent=1, default=str))
    if nat.get("violated"):
        print("VIOLATION property=%s replay=%s" % (prop, path))
        return 1
    return 0


if __name__ == "__main__":
    sys.exit(main())
