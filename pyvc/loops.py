"""Loops are cut at their invariants (contract.invariants[n] for the n-th loop of the function, source order
of *execution entry*, which for the code base at hand equals source order)."""
from __future__ import annotations

import ast

import z3

from .engine import (Ev, Frame, PathEnd, PyRaise, Unsupported, _Break, _Continue, _Return, dotted,
                     MUTATING_LIST, PURE_METHODS)
from .values import *  # noqa


def _static_ordinal(ev, node):
    """ordinal of this loop among all loops of the enclosing function definition, in source order"""
    fn = ev.frame.fn
    if fn is None:
        return ev._loop_ordinal()
    n = 0
    for sub in ast.walk(fn):
        pass
    loops = [x for x in _walk_in_order(fn) if isinstance(x, (ast.For, ast.AsyncFor, ast.While))]
    for i, l in enumerate(loops):
        if l is node:
            return i + 1
    return ev._loop_ordinal()


def _walk_in_order(node):
    """pre-order walk that does not descend into nested function definitions (they have their own numbering)"""
    out = []

    def rec(n, top):
        if not top and isinstance(n, (ast.FunctionDef, ast.AsyncFunctionDef, ast.Lambda)):
            return
        out.append(n)
        for c in ast.iter_child_nodes(n):
            rec(c, False)

    rec(node, True)
    return out


def assigned_names(stmts):
    names = set()
    for s in stmts:
        for n in _walk_in_order_block(s):
            if isinstance(n, ast.Name) and isinstance(n.ctx, (ast.Store, ast.Del)):
                names.add(n.id)
            elif isinstance(n, ast.ExceptHandler) and n.name:
                names.add(n.name)
    return names


def _walk_in_order_block(s):
    out = []

    def rec(n):
        if isinstance(n, (ast.FunctionDef, ast.AsyncFunctionDef)):
            out.append(ast.Name(id=n.name, ctx=ast.Store()))
            return
        if isinstance(n, ast.Lambda):
            return
        out.append(n)
        for c in ast.iter_child_nodes(n):
            rec(c)

    rec(s)
    return out


def _closure_effects(ev, fnode, seen):
    """names assigned through `nonlocal` and nodes of a closure body (for effect scans)"""
    names = set()
    nl = set()
    for n in ast.walk(fnode):
        if isinstance(n, ast.Nonlocal):
            nl.update(n.names)
    for n in ast.walk(fnode):
        if isinstance(n, ast.Name) and isinstance(n.ctx, ast.Store) and n.id in nl:
            names.add(n.id)
    return names


def havoc_for_loop(ev: Ev, body_stmts, extra_names=(), loop_no=0):
    """havoc everything the loop body may change; returns nothing.  Sound over-approximation."""
    st = ev.st
    frame = ev.frame
    contract = frame.root().contract
    names = set(assigned_names(body_stmts)) | set(extra_names)
    mutated = {}  # oid -> VRef
    ghost_mods = set()
    havoc_all = False

    field_mods = []

    def note_obj(v):
        if isinstance(v, VRef):
            mutated[v.oid] = v
        elif isinstance(v, tuple) and v and v[0] == "field":
            field_mods.append((v[1], v[2]))

    def try_eval(node):
        sub = ev.sub(pure=True, spec=True)
        try:
            return sub.expr(node)
        except (Unsupported, PyRaise, PathEnd, KeyError):
            return None

    def scan(nodes, depth=0):
        nonlocal havoc_all
        for n in nodes:
            if isinstance(n, (ast.Yield, ast.YieldFrom)):
                if contract is not None:
                    ghost_mods.update(getattr(contract, "yield_mods", ()) or ())
            if isinstance(n, (ast.Subscript, ast.Attribute)) and isinstance(n.ctx, (ast.Store, ast.Del)):
                v = try_eval(n.value)
                if v is None:
                    havoc_all = True
                note_obj(v)
            if isinstance(n, ast.Call):
                d = dotted(n.func)
                stub = contract.find_stub(d) if (contract is not None and d) else None
                if stub is not None:
                    ghost_mods.update(getattr(stub, "mods", ()) or ())
                    for am in getattr(stub, "arg_mods", ()) or ():
                        if am < len(n.args):
                            note_obj(try_eval(n.args[am]))
                    continue
                if isinstance(n.func, ast.Attribute):
                    recv = try_eval(n.func.value)
                    meth = n.func.attr
                    if isinstance(recv, VRef):
                        o = st.obj(recv)
                        if isinstance(o, ListObj):
                            if meth in MUTATING_LIST:
                                note_obj(recv)
                        elif isinstance(o, Obj) and isinstance(o.fields.get(meth), VFunc):
                            fn_ = o.fields[meth]
                            if fn_.kind == "py":
                                ghost_mods.update(getattr(fn_.data, "mods", ()) or ())
                            else:
                                havoc_all = True
                        elif isinstance(o, Obj):
                            eff = ev.registry.method_effects(ev, recv, meth) if ev.registry else None
                            if eff is None:
                                if meth not in PURE_METHODS:
                                    havoc_all = True
                            else:
                                objs, gm = eff
                                for x in objs:
                                    note_obj(x)
                                ghost_mods.update(gm)
                        elif isinstance(o, (DictObj, MapObj)):
                            if meth not in PURE_METHODS:
                                note_obj(recv)
                    elif recv is None and meth not in PURE_METHODS:
                        # receiver not evaluable at the loop head (defined inside the body): it is a body-local
                        pass
                elif isinstance(n.func, ast.Name):
                    fv = frame.lookup(n.func.id)
                    if fv is None:
                        fv = try_eval(n.func)
                    if isinstance(fv, VFunc) and fv.kind == "repo" and ev.registry is not None:
                        cc0 = ev.registry.contract_for(fv.data[0], fv.data[1])
                        if cc0 is not None and cc0.inline and cc0.ghost_modifies:
                            ghost_mods.update(cc0.ghost_modifies)   # declared effect of an inlined helper
                            continue
                    # effects of callables passed as arguments (e.g. the server's `send` handed to a helper)
                    for a in n.args:
                        av = try_eval(a) if isinstance(a, (ast.Name, ast.Attribute)) else None
                        if isinstance(av, VFunc) and av.kind == "py":
                            ghost_mods.update(getattr(av.data, "mods", ()) or ())
                    if isinstance(fv, VFunc) and fv.kind == "contract":
                        cc = fv.data[0]
                        ghost_mods.update(cc.ghost_modifies)
                        fdef_params = list(cc.params)
                        for pth in cc.modifies:
                            root = pth.split(".")[0]
                            if root in fdef_params and fdef_params.index(root) < len(n.args):
                                note_obj(try_eval(n.args[fdef_params.index(root)]))
                    if isinstance(fv, VFunc) and fv.kind == "repo" and ev.registry is not None:
                        cc = ev.registry.contract_for(fv.data[0], fv.data[1])
                        if cc is not None and cc.inline and depth < 3:
                            from . import source as _src
                            fd_ = _src.find_def(fv.data[0], fv.data[1])
                            scan([x for s_ in fd_.body for x in _walk_in_order_block(s_)], depth + 1)
                            continue
                    if isinstance(fv, VFunc) and fv.kind == "closure" and depth < 3:
                        fnode = fv.data[0]
                        names.update(_closure_effects(ev, fnode, set()))
                        scan([x for s in fnode.body for x in _walk_in_order_block(s)], depth + 1)
                    elif isinstance(fv, VFunc) and fv.kind == "py":
                        ghost_mods.update(getattr(fv.data, "mods", ()) or ())
                    elif isinstance(fv, VFunc) and fv.kind == "repo":
                        eff = ev.registry.function_effects(ev, fv) if ev.registry else None
                        if eff:
                            ghost_mods.update(eff[1])

    scan([x for s in body_stmts for x in _walk_in_order_block(s)])

    override = (contract.loop_modifies or {}).get(loop_no) if contract is not None else None
    if override is not None:
        names = set(n for n in override if "." not in n and n not in st.ghost) | set(extra_names)
        mutated = {}
        ghost_mods = set(n for n in override if n in st.ghost)
        havoc_all = False
        for p in override:
            if "." in p:
                v = try_eval(ast.parse(p, mode="eval").body)
                if isinstance(v, VRef):
                    mutated[v.oid] = v

    if havoc_all:
        for oid in list(st.heap):
            st.havoc_obj(VRef(oid), "loop%d.h%d" % (loop_no, oid))
    else:
        for o, fname in field_mods:
            cur = (o.fields if isinstance(o, Obj) else o.items).get(fname)
            if isinstance(cur, V) and not isinstance(cur, (VRef, VNone, VFunc)):
                nv = st.havoc_value(cur, "loop%d.f.%s" % (loop_no, fname))
                if isinstance(o, Obj):
                    o.fields[fname] = nv
                else:
                    o.items[fname] = nv
        for oid, ref in mutated.items():
            st.havoc_obj(ref, "loop%d.h%d" % (loop_no, oid))
        for g in ghost_mods:
            if g in st.ghost:
                gv = st.ghost[g]
                if isinstance(gv, VRef):
                    st.havoc_obj(gv, "loop%d.%s" % (loop_no, g))
                else:
                    st.ghost[g] = st.havoc_value(gv, "loop%d.%s" % (loop_no, g))
    if contract is not None and not havoc_all:
        from .contract import havoc_path
        for pth in getattr(contract, "volatile", ()) or ():
            try:
                havoc_path(ev, frame.root().env, pth, "loop%d.volatile" % loop_no)
            except Unsupported:
                pass
    locals_t = (contract.locals or {}) if contract is not None else {}
    for nme in sorted(names):
        cur = frame.lookup(nme)
        if cur is None:
            continue
        if isinstance(cur, VRef) and cur.oid in mutated and nme not in assigned_names(body_stmts):
            continue
        declared = locals_t.get(nme)
        if isinstance(cur, VRef) and declared is None:
            # re-bound inside the body: give it a fresh object of the same shape
            o = st.obj(cur)
            if isinstance(o, ListObj):
                if o.etype is None:
                    raise Unsupported("loop %d: list %r is empty with unknown element type at the loop head; "
                                      "declare it in contract.locals" % (loop_no, nme))
                nv = st.alloc(st.fresh_listobj(o.etype, "loop%d.%s" % (loop_no, nme)))
            else:
                nv = cur
                st.havoc_obj(cur, "loop%d.%s" % (loop_no, nme))
            frame.assign(nme, nv)
            continue
        frame.assign(nme, st.havoc_value(cur, "loop%d.%s" % (loop_no, nme), declared))


def _spec_env(ev, extra):
    sub = ev.sub(pure=True, spec=True)
    sub.bound.update(extra)
    return sub


def check_invariants(ev, loop_no, phase, extra, line):
    c = ev.frame.root().contract
    invs = (c.invariants or {}).get(loop_no, []) if c is not None else []
    from .contract import spec_eval
    for k, text in enumerate(invs):
        f = spec_eval(ev, text, extra)
        ev.st.oblige("%s/inv%d.%s.%d" % (c.id, loop_no, phase, k + 1), f, note=text, line=line)


def assume_invariants(ev, loop_no, extra):
    c = ev.frame.root().contract
    invs = (c.invariants or {}).get(loop_no, []) if c is not None else []
    from .contract import spec_eval
    aux = (getattr(c, "aux_invariants", None) or {}).get(loop_no, ()) if c is not None else ()
    for k, text in enumerate(invs):
        ev.st.assume(spec_eval(ev, text, extra), aux="traces" if (k + 1) in aux else False)


def _iteration(ev, node, loop_no, body_runner, after_iter, extra_fn, line):
    """shared: body_runner() executes one iteration's body; after_iter() advances the hidden index."""
    try:
        body_runner()
    except _Continue:
        pass
    except _Break:
        return "break"
    after_iter()
    c = ev.frame.root().contract
    check_invariants(ev, loop_no, "keep", extra_fn(), line)
    var = (c.variants or {}).get(loop_no) if c is not None else None
    raise PathEnd("loop back edge")


def _unrolled_while(ev, node):
    st = ev.st
    for _ in range(st.run.unroll):
        if not st.decide(ev.cond(node.test)):
            ev.block(node.orelse)
            return
        try:
            ev.block(node.body)
        except _Continue:
            continue
        except _Break:
            return
    if st.decide(ev.cond(node.test)):
        raise PathEnd("unroll bound")
    ev.block(node.orelse)


def exec_while(ev: Ev, node):
    st = ev.st
    if st.run.refute:
        return _unrolled_while(ev, node)
    loop_no = _static_ordinal(ev, node)
    line = node.lineno
    c = ev.frame.root().contract
    if c is None or loop_no not in (c.invariants or {}):
        ev.unsupported(node, "loop %d has no invariant in the contract" % loop_no)
    check_invariants(ev, loop_no, "entry", {}, line)
    havoc_for_loop(ev, node.body + [ast.Expr(value=node.test)], loop_no=loop_no)
    assume_invariants(ev, loop_no, {})
    cond = ev.cond(node.test)
    if st.decide(cond):
        r = _iteration(ev, node, loop_no, lambda: ev.block(node.body), lambda: None, lambda: {}, line)
        if r == "break":
            return
    else:
        ev.block(node.orelse)


def exec_for(ev: Ev, node):
    st = ev.st
    line = node.lineno
    it = node.iter
    # ---- range loops
    if isinstance(it, ast.Call) and isinstance(it.func, ast.Name) and it.func.id == "range" and ev.frame.lookup("range") is None:
        args = [ev.expr(a) for a in it.args]
        if not all(isinstance(a, VInt) for a in args):
            ev.unsupported(node, "range over non-int")
        if len(args) == 1:
            start, stop, step = z3.IntVal(0), args[0].t, z3.IntVal(1)
        elif len(args) == 2:
            start, stop, step = args[0].t, args[1].t, z3.IntVal(1)
        else:
            start, stop, step = args[0].t, args[1].t, args[2].t
        ev.require(step != 0, "ValueError", node)
        if not st.decide(step > 0):
            ev.unsupported(node, "range with a possibly negative step")
        if st.run.refute:
            cur = start
            broke = False
            for _ in range(st.run.unroll):
                if not st.decide(cur < stop):
                    break
                ev.assign(node.target, VInt(cur))
                try:
                    ev.block(node.body)
                except _Continue:
                    pass
                except _Break:
                    broke = True
                    break
                cur = cur + step
            else:
                if st.decide(cur < stop):
                    raise PathEnd("unroll bound")
            if not broke:
                ev.block(node.orelse)
            return
        loop_no = _static_ordinal(ev, node)
        c = ev.frame.root().contract
        unit = z3.is_int_value(z3.simplify(step)) and z3.simplify(step).as_long() == 1
        if c is None or loop_no not in (c.invariants or {}):
            ev.unsupported(node, "loop %d has no invariant in the contract" % loop_no)
        idx_name = "IDX"
        check_invariants(ev, loop_no, "entry", {idx_name: VInt(start)}, line)
        havoc_for_loop(ev, node.body, extra_names=_target_names(node.target), loop_no=loop_no)
        idx = st.fresh_int("loop%d.IDX" % loop_no)
        st.assume(idx >= start)
        if unit:
            st.assume(idx <= z3.If(stop >= start, stop, start))
        assume_invariants(ev, loop_no, {idx_name: VInt(idx)})
        if st.decide(idx < stop):
            ev.assign(node.target, VInt(idx))
            ev.frame.root().loop_vars["IDX%d" % loop_no] = VInt(idx)
            r = _iteration(ev, node, loop_no, lambda: ev.block(node.body), lambda: None,
                           lambda: {idx_name: VInt(idx + step)}, line)
            if r == "break":
                return
        else:
            ev.block(node.orelse)
        return
    # ---- everything else
    seq = ev.expr(it)
    mode = "fwd"
    enum = False
    if isinstance(seq, VFunc) and seq.kind == "iterview":
        kind, inner = seq.data
        if kind == "reversed":
            mode = "rev"
        elif kind == "enumerate":
            enum = True
        seq = inner
    if isinstance(seq, VTuple) or (isinstance(seq, VRef) and isinstance(st.obj(seq), DictObj)):
        items = ev.iter_concrete(seq, node)
        if mode == "rev":
            items = items[::-1]
        broke = False
        for i, item in enumerate(items):
            ev.assign(node.target, VTuple([VInt(i), item]) if enum else item)
            try:
                ev.block(node.body)
            except _Continue:
                continue
            except _Break:
                broke = True
                break
        if not broke:
            ev.block(node.orelse)
        return
    if isinstance(seq, VRef) and isinstance(st.obj(seq), Obj):
        hook = ev.registry.iter_model(st.obj(seq).cls) if ev.registry else None
        if hook is None:
            return _protocol_loop(ev, node, seq, mode, enum)
        seq = hook(ev, seq)
    if not (isinstance(seq, VRef) and isinstance(st.obj(seq), ListObj)):
        ev.unsupported(node, "for over %r" % (seq,))
    lo = st.obj(seq)
    n_conc = z3.simplify(lo.length)
    loop_no = _static_ordinal(ev, node)
    c = ev.frame.root().contract
    has_inv = c is not None and loop_no in (c.invariants or {})
    if z3.is_int_value(n_conc) and (not has_inv or st.run.refute):
        # concrete length and no invariant: unroll
        items = ev.iter_concrete(seq, node)
        if mode == "rev":
            items = items[::-1]
        broke = False
        for i, item in enumerate(items):
            ev.assign(node.target, VTuple([VInt(i), item]) if enum else item)
            try:
                ev.block(node.body)
            except _Continue:
                continue
            except _Break:
                broke = True
                break
        if not broke:
            ev.block(node.orelse)
        return
    if not has_inv:
        ev.unsupported(node, "loop %d has no invariant in the contract" % loop_no)
    # snapshot of the iterated sequence (python iterates the live list; we require that the body does not
    # mutate it, which the havoc scan verifies: a mutated SEQ makes the snapshot differ -> unsupported)
    snap = ListObj(lo.length, lo.cols, lo.etype, immutable=True)
    snap_ref = st.alloc(snap)
    n = snap.length
    start_idx = z3.IntVal(0)
    check_invariants(ev, loop_no, "entry", {"IDX": VInt(start_idx), "SEQ": snap_ref}, line)
    havoc_for_loop(ev, node.body, extra_names=_target_names(node.target), loop_no=loop_no)
    lo_after = st.obj(seq)
    if lo_after.length is not snap.length or any(a is not b for a, b in zip(lo_after.cols, snap.cols)):
        ev.unsupported(node, "loop %d mutates the list it iterates over" % loop_no)
    idx = st.fresh_int("loop%d.IDX" % loop_no)
    st.assume(z3.And(idx >= 0, idx <= n))
    assume_invariants(ev, loop_no, {"IDX": VInt(idx), "SEQ": snap_ref})
    if st.decide(idx < n):
        pos = idx if mode == "fwd" else n - 1 - idx
        item = ev.list_get(snap, pos)
        ev.assign(node.target, VTuple([VInt(pos), item]) if enum else item)
        ev.frame.root().loop_vars["IDX%d" % loop_no] = VInt(idx)
        ev.frame.root().loop_vars["SEQ%d" % loop_no] = snap_ref
        r = _iteration(ev, node, loop_no, lambda: ev.block(node.body), lambda: None,
                       lambda: {"IDX": VInt(idx + 1), "SEQ": snap_ref}, line)
        if r == "break":
            return
    else:
        ev.block(node.orelse)


def _protocol_loop(ev, node, seq, mode, enum):
    """`for x in obj` / `async for x in obj` over an object that is its own iterator (its class derives from
    Iterator / AsyncIterator, whose __iter__ / __aiter__ return self): every iteration calls obj.__next__() /
    obj.__anext__() - through that method's contract or stub - and StopIteration / StopAsyncIteration ends the loop.
    Prove mode: the usual invariant rule; refute mode: unrolled."""
    from .builtins import call_method
    st = ev.st
    if mode != "fwd" or enum:
        ev.unsupported(node, "reversed()/enumerate() over an iterator object")
    is_async = isinstance(node, ast.AsyncFor)
    meth = "__anext__" if is_async else "__next__"
    stop = "StopAsyncIteration" if is_async else "StopIteration"
    line = node.lineno

    def advance():
        try:
            return call_method(ev, seq, meth, [], {}, node)
        except PyRaise as r:
            if r.cls == stop:
                return None
            raise

    if st.run.refute:
        broke = False
        for _ in range(st.run.unroll):
            item = advance()
            if item is None:
                break
            ev.assign(node.target, item)
            try:
                ev.block(node.body)
            except _Continue:
                continue
            except _Break:
                broke = True
                break
        else:
            if advance() is not None:
                raise PathEnd("unroll bound")
        if not broke:
            ev.block(node.orelse)
        return
    loop_no = _static_ordinal(ev, node)
    c = ev.frame.root().contract
    if c is None or loop_no not in (c.invariants or {}):
        ev.unsupported(node, "loop %d has no invariant in the contract" % loop_no)
    check_invariants(ev, loop_no, "entry", {}, line)
    nxt = ast.Expr(value=ast.Call(func=ast.Attribute(value=node.iter, attr=meth, ctx=ast.Load()), args=[], keywords=[]))
    ast.copy_location(nxt, node)
    ast.fix_missing_locations(nxt)
    havoc_for_loop(ev, node.body + [nxt], extra_names=_target_names(node.target), loop_no=loop_no)
    assume_invariants(ev, loop_no, {})
    item = advance()
    if item is None:
        ev.block(node.orelse)
        return
    ev.assign(node.target, item)
    r = _iteration(ev, node, loop_no, lambda: ev.block(node.body), lambda: None, lambda: {}, line)
    if r == "break":
        return


def _target_names(t):
    return [n.id for n in ast.walk(t) if isinstance(n, ast.Name)]
