"""Python `re` subset -> z3 regular expressions (full-match semantics of the *language*).

Supported: literals, escapes (\\d \\w \\s \\. etc.), classes [..] with ranges and negation, `.` (no DOTALL:
anything but \\n), groups (...), (?:...), (?P<name>...), alternation, * + ? {n} {m,n}.
Anything else raises Unsupported -> the obligation is undecided, never a verdict."""
from __future__ import annotations

import z3

from .engine import Unsupported

S = z3.StringSort()
MAXC = 0x2FFFF


def _range(a, b):
    return z3.Range(chr(a) if isinstance(a, int) else a, chr(b) if isinstance(b, int) else b)


def _chars(cs):
    rs = [z3.Re(c) for c in cs]
    return rs[0] if len(rs) == 1 else z3.Union(*rs)


ANYCHAR = z3.AllChar(z3.ReSort(S))
DOT = z3.Diff(ANYCHAR, z3.Re("\n"))
DIGIT_ASCII = z3.Range("0", "9")


class _P:
    def __init__(self, pat, unicode_digits=False):
        self.p = pat
        self.i = 0
        self.unicode_digits = unicode_digits
        self.groups = {}

    def peek(self):
        return self.p[self.i] if self.i < len(self.p) else None

    def eat(self):
        c = self.p[self.i]
        self.i += 1
        return c

    def alt(self):
        branches = [self.concat()]
        while self.peek() == "|":
            self.eat()
            branches.append(self.concat())
        return branches[0] if len(branches) == 1 else z3.Union(*branches)

    def concat(self):
        items = []
        while self.peek() is not None and self.peek() not in "|)":
            items.append(self.repeat())
        if not items:
            return z3.Re("")
        return items[0] if len(items) == 1 else z3.Concat(*items)

    def repeat(self):
        a = self.atom()
        while self.peek() is not None and self.peek() in "*+?{":
            c = self.peek()
            if c == "{":
                j = self.p.find("}", self.i)
                body = self.p[self.i + 1:j]
                if j < 0 or not body.replace(",", "").isdigit():
                    # literal brace
                    break
                self.i = j + 1
                if "," in body:
                    lo, hi = body.split(",")
                    lo = int(lo or 0)
                    a = z3.Loop(a, lo, int(hi)) if hi else z3.Concat(z3.Loop(a, lo, lo), z3.Star(a)) if lo else z3.Star(a)
                else:
                    a = z3.Loop(a, int(body), int(body))
            else:
                self.eat()
                a = {"*": z3.Star, "+": z3.Plus, "?": z3.Option}[c](a)
            if self.peek() == "?" or self.peek() == "+":
                # lazy / possessive quantifiers do not change the language
                if self.peek() == "?":
                    self.eat()
                else:
                    break
        return a

    def escape(self, in_class=False):
        c = self.eat()
        if c == "d":
            if self.unicode_digits:
                raise Unsupported("regex: unicode \\d")
            return DIGIT_ASCII
        if c == "w":
            return z3.Union(z3.Range("a", "z"), z3.Range("A", "Z"), DIGIT_ASCII, z3.Re("_"))
        if c == "s":
            return _chars(" \t\n\r\x0b\x0c")
        if c == "S":
            return z3.Diff(ANYCHAR, _chars(" \t\n\r\x0b\x0c"))
        if c == "D":
            return z3.Diff(ANYCHAR, DIGIT_ASCII)
        if c == "n":
            return z3.Re("\n")
        if c == "r":
            return z3.Re("\r")
        if c == "t":
            return z3.Re("\t")
        if c == "0":
            return z3.Re("\0")
        if c == "x":
            h = self.p[self.i:self.i + 2]
            self.i += 2
            return z3.Re(chr(int(h, 16)))
        if c.isalnum():
            raise Unsupported("regex escape \\%s" % c)
        return z3.Re(c)

    def cls(self):
        neg = False
        if self.peek() == "^":
            self.eat()
            neg = True
        parts = []
        first = True
        while True:
            c = self.peek()
            if c is None:
                raise Unsupported("regex: unterminated class")
            if c == "]" and not first:
                self.eat()
                break
            first = False
            if c == "\\":
                self.eat()
                nxt = self.peek()
                if nxt in "dwsSD":
                    parts.append(self.escape(True))
                    continue
                lo = self._esc_char()
            else:
                lo = self.eat()
            if self.peek() == "-" and self.i + 1 < len(self.p) and self.p[self.i + 1] != "]":
                self.eat()
                if self.peek() == "\\":
                    self.eat()
                    hi = self._esc_char()
                else:
                    hi = self.eat()
                parts.append(z3.Range(lo, hi))
            else:
                parts.append(z3.Re(lo))
        r = parts[0] if len(parts) == 1 else z3.Union(*parts)
        return z3.Diff(ANYCHAR, r) if neg else r

    def _esc_char(self):
        c = self.eat()
        m = {"n": "\n", "r": "\r", "t": "\t", "0": "\0", "f": "\f", "v": "\v"}
        if c in m:
            return m[c]
        if c == "x":
            h = self.p[self.i:self.i + 2]
            self.i += 2
            return chr(int(h, 16))
        if c.isalnum():
            raise Unsupported("regex class escape \\%s" % c)
        return c

    def atom(self):
        c = self.eat()
        if c == "(":
            if self.p.startswith("?:", self.i):
                self.i += 2
            elif self.p.startswith("?P<", self.i):
                j = self.p.index(">", self.i)
                name = self.p[self.i + 3:j]
                self.i = j + 1
                r = self.alt()
                if self.eat() != ")":
                    raise Unsupported("regex: group")
                self.groups[name] = r
                return r
            elif self.peek() == "?":
                raise Unsupported("regex: extension group")
            r = self.alt()
            if self.peek() != ")":
                raise Unsupported("regex: unbalanced group")
            self.eat()
            return r
        if c == "[":
            return self.cls()
        if c == ".":
            return DOT
        if c == "\\":
            return self.escape()
        if c in "^$":
            raise Unsupported("regex anchors")
        if c in "*+?":
            raise Unsupported("regex: nothing to repeat")
        return z3.Re(c)


def to_z3(pattern, want_groups=False):
    p = _P(pattern)
    r = p.alt()
    if p.i != len(pattern):
        raise Unsupported("regex: trailing %r" % pattern[p.i:])
    return (r, p.groups) if want_groups else r
