"""sum(<generator over a list>) as a fold function with on-demand ground unfolding.

S(0) == 0, S(k+1) == S(k) + elt(k).  Unfolding instances are added for every index term at which the
fold is mentioned (t-1 -> t and t -> t+1), so no quantified recurrence (matching loop) is needed.
Two folds over the same source whose elements are pointwise equal are equal (meta-lemma `fold-ext`,
proved on paper by induction; listed in the trusted base as A-fold-ext)."""
from __future__ import annotations

import z3

from .builtins import comp_source, elementwise, emit_sideconds, to_list, mk_quant, I
from .engine import Unsupported
from .values import *  # noqa


def sum_gen(ev, gv, upto, node):
    if not (isinstance(gv, VFunc) and gv.kind == "genexp"):
        raise Unsupported("sum() of %r" % (gv,))
    gnode, frame, bound = gv.data
    st = ev.st
    sub = ev.sub(frame=frame)
    sub.bound.update(bound)
    src, enum = comp_source(sub, gnode.generators[0].iter)
    src = to_list(sub, src, node)
    lo = st.obj(src)
    if lo.etype is None:
        return VInt(0)
    n = lo.length
    k = z3.Int(st.run.fresh_name("sk"))
    cond, elt, side = elementwise(sub, gnode, k, lo, enum)
    emit_sideconds(ev, side, k, n, "sum")
    if not isinstance(elt, VInt):
        raise Unsupported("sum of non-int")
    term = z3.If(cond, elt.t, 0) if gnode.generators[0].ifs else elt.t
    folds = st.run.counters.setdefault("folds", [])
    # hash-cons on (source identity, element term with canonical bound variable)
    canon = z3.Int("fold!k")
    cterm = z3.substitute(term, (k, canon))
    found = None
    for f in folds:
        if f["n"].eq(n) and all(a.eq(b) for a, b in zip(f["cols"], lo.cols)) and f["term"].eq(cterm):
            found = f
            break
    if found is None:
        S_ = z3.Function(st.run.fresh_name("fold"), I, I)
        found = {"S": S_, "n": n, "cols": list(lo.cols), "term": cterm, "inst": set()}
        st.assume(S_(0) == 0)
        # A-fold-ext against every other fold over the same source
        for g in folds:
            if g["n"].eq(n) and all(a.eq(b) for a, b in zip(g["cols"], lo.cols)):
                q = z3.Int(st.run.fresh_name("fk"))
                pointwise = mk_quant("forall", [q], z3.Implies(
                    z3.And(0 <= q, q < n), z3.substitute(cterm, (canon, q)) == z3.substitute(g["term"], (canon, q))))
                q2 = z3.Int(st.run.fresh_name("fk"))
                st.assume(z3.Implies(pointwise, mk_quant("forall", [q2], z3.Implies(
                    z3.And(0 <= q2, q2 <= n), S_(q2) == g["S"](q2)), patterns=[S_(q2)])))
        folds.append(found)
    S_ = found["S"]
    at = n if upto is None else upto

    def unfold(t):
        key = z3.simplify(t).sexpr()
        if key in found["inst"]:
            return
        found["inst"].add(key)
        st.assume(z3.Implies(z3.And(0 <= t, t < n), S_(t + 1) == S_(t) + z3.substitute(cterm, (canon, t))))

    unfold(at)
    unfold(at - 1)
    return VInt(S_(at))
