"""python3-vt -m pyvc.cli <contract id> ... : verify contracts and print a summary (development tool)."""
import json
import os
import sys
import time

sys.path.insert(0, os.path.dirname(os.path.dirname(os.path.abspath(__file__))))


def main():
    from pyvc.contract import Registry
    from pyvc.verify import verify_contract
    import contracts
    reg = contracts.load(Registry())
    args = sys.argv[1:]
    refute = None
    if args and args[0].startswith("--refute"):
        refute = {"bound": int(args[0].split("=")[1]) if "=" in args[0] else 2}
        args = args[1:]
    ids = args or list(reg.by_id)
    for cid in ids:
        c = reg.by_id[cid]
        t0 = time.time()
        out = verify_contract(c, reg, refute=refute)
        print("== %s  paths=%d  wall=%.1fs solver=%.1fs outcomes=%s" % (cid, out["paths"], time.time() - t0, out["solver_ms"] / 1000, out["outcomes"]))
        for r in out["results"]:
            print("   %-12s %-50s x%d %7.0fms %s" % (r["status"], r["name"], r["instances"], r["ms"], (json.dumps(r["model"])[:300] if r["status"] == "refuted" and r["kind"] == "obligation" else "")))
        for u in out["undecided_paths"]:
            print("   UNDECIDED-PATH", u)


if __name__ == "__main__":
    main()
