"""Assumed contracts of things outside the repository (stdlib, servers).  Every stub names its assumption id
(DESIGN.md section 8); the ids used by a check are listed in its evidence."""
from __future__ import annotations

import z3

from .builtins import ufunc, S, I, Bz, mk_quant, to_list, call_value, const_str
from .engine import PathEnd, PyRaise, Unsupported
from .values import *  # noqa

GLOBAL_STUBS = {}
STUB_METHODS = {}
USED = set()   # assumption ids touched in this process


def stub(name, assumption=None, mods=()):
    def deco(f):
        def wrapped(ev, args, kwargs, node):
            if assumption:
                USED.add(assumption)
            return f(ev, args, kwargs, node)
        wrapped.mods = mods
        wrapped.assumption = assumption
        wrapped.__name__ = f.__name__
        if name:
            GLOBAL_STUBS[name] = wrapped
        return wrapped
    return deco


def stub_method(cls, meth, assumption=None, mods=(), mutates_recv=True):
    def deco(f):
        def wrapped(ev, recv, args, kwargs, node):
            if assumption:
                USED.add(assumption)
            return f(ev, recv, args, kwargs, node)
        wrapped.mods = mods
        wrapped.mutates_recv = mutates_recv
        wrapped.assumption = assumption
        STUB_METHODS[(cls, meth)] = wrapped
        return wrapped
    return deco


# --------------------------------------------------------------------------- concurrency (A-conc-1)
@stub("baize.concurrency.run_in_threadpool", "A-conc-1")
def run_in_threadpool(ev, args, kwargs, node):
    return call_value(ev, args[0], list(args[1:]), kwargs, node)


@stub("typing.cast")
def typing_cast(ev, args, kwargs, node):
    return args[1]


GLOBAL_STUBS["cast"] = typing_cast


# --------------------------------------------------------------------------- sorted (A-sorted)
def sorted_stub(ev, args, kwargs, node):
    """sorted(xs) for a list of ints or tuples of ints (lexicographic): an ordered permutation of xs.
    perm / pinv are the index bijection; explicit triggers on the array-select terms."""
    USED.add("A-sorted")
    st = ev.st
    if kwargs:
        raise Unsupported("sorted with key/reverse")
    src = to_list(ev, args[0], node)
    lo = st.obj(src)
    if lo.etype is None:
        return ev.list_from_values([])
    n = lo.length
    nconc = z3.simplify(n)
    if z3.is_int_value(nconc) and nconc.as_long() <= 6:
        return _sorted_concrete(ev, lo, nconc.as_long())
    name = st.run.fresh_name("sorted")
    cols = [z3.Array("%s.c%d" % (name, i), I, c.sort().range()) for i, c in enumerate(lo.cols)]
    perm = z3.Function(name + ".perm", I, I)   # sorted index -> source index
    pinv = z3.Function(name + ".pinv", I, I)   # source index -> sorted index
    j = z3.Int(st.run.fresh_name("sj"))
    i = z3.Int(st.run.fresh_name("si"))
    st.assume(mk_quant("forall", [j], z3.Implies(z3.And(0 <= j, j < n), z3.And(
        [0 <= perm(j), perm(j) < n, pinv(perm(j)) == j] + [cols[c][j] == lo.cols[c][perm(j)] for c in range(len(cols))])),
        patterns=[cols[0][j]]))
    st.assume(mk_quant("forall", [i], z3.Implies(z3.And(0 <= i, i < n), z3.And(
        [0 <= pinv(i), pinv(i) < n, perm(pinv(i)) == i] + [cols[c][pinv(i)] == lo.cols[c][i] for c in range(len(cols))])),
        patterns=[lo.cols[0][i]]))
    # ordered (lexicographic on int columns)
    if not all(c.sort().range() == I for c in lo.cols):
        raise Unsupported("sorted() of non-int tuples")

    def lex_le(a, b):
        # a, b lists of z3 ints
        if len(a) == 1:
            return a[0] <= b[0]
        return z3.Or(a[0] < b[0], z3.And(a[0] == b[0], lex_le(a[1:], b[1:])))

    st.assume(mk_quant("forall", [j], z3.Implies(z3.And(0 <= j, j < n - 1),
                                               lex_le([c[j] for c in cols], [c[j + 1] for c in cols])),
                       patterns=[cols[0][j]]))
    return st.alloc(ListObj(n, cols, lo.etype))


def _sorted_concrete(ev, lo, n):
    """quantifier-free permutation + order constraints for a list of concrete length (bounded refuter)"""
    st = ev.st
    name = st.run.fresh_name("sortedc")
    ps = [z3.Int("%s.p%d" % (name, i)) for i in range(n)]
    for p in ps:
        st.assume(z3.And(0 <= p, p < n))
    if n > 1:
        st.assume(z3.Distinct(*ps))
    cols = []
    for ci, c in enumerate(lo.cols):
        nc = z3.K(z3.IntSort(), z3.IntVal(0))
        for i in range(n):
            nc = z3.Store(nc, i, c[ps[i]])
        cols.append(nc)

    def lex_le(a, b):
        if len(a) == 1:
            return a[0] <= b[0]
        return z3.Or(a[0] < b[0], z3.And(a[0] == b[0], lex_le(a[1:], b[1:])))

    for i in range(n - 1):
        st.assume(lex_le([c[i] for c in cols], [c[i + 1] for c in cols]))
    return st.alloc(ListObj(z3.IntVal(n), cols, lo.etype))


# --------------------------------------------------------------------------- str.split(sep) (A-split)
def split_all(ev, recv, sep, node):
    """s.split(sep): list of sep-free pieces (length >= 1); the join axiom is given through `joined`"""
    USED.add("A-split")
    st = ev.st
    name = st.run.fresh_name("split")
    n = z3.Int(name + ".len")
    col = z3.Array(name + ".c0", I, S)
    st.assume(n >= 1)
    j = z3.Int(st.run.fresh_name("spj"))
    st.assume(mk_quant("forall", [j], z3.Implies(z3.And(0 <= j, j < n), z3.And(
        z3.Not(z3.Contains(col[j], sep.t)), z3.Contains(recv.t, col[j]))), patterns=[col[j]]))
    st.assume(z3.Implies(z3.Not(z3.Contains(recv.t, sep.t)), z3.And(n == 1, col[0] == recv.t)))
    st.assume(z3.Implies(z3.Contains(recv.t, sep.t), n >= 2))
    # first piece is the prefix before the first separator
    st.assume(col[0] == z3.If(z3.Contains(recv.t, sep.t), z3.SubString(recv.t, 0, z3.IndexOf(recv.t, sep.t, 0)), recv.t))
    return st.alloc(ListObj(n, [col], TStr(recv.isbytes)))


def splitlines(ev, recv, node):
    USED.add("A-lines-1")
    st = ev.st
    name = st.run.fresh_name("lines")
    n = z3.Int(name + ".len")
    col = z3.Array(name + ".c0", I, S)
    st.assume(n >= 0)
    st.assume((n == 0) == (recv.t == z3.StringVal("")))
    return st.alloc(ListObj(n, [col], TStr(recv.isbytes)))
