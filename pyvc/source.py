"""Locate functions / classes in /repo's working tree by qualified name (re-read on every run)."""
from __future__ import annotations

import ast
import hashlib
import os

REPO = os.environ.get("VERIF_REPO", "/repo")

_cache = {}


class Module:
    def __init__(self, relpath):
        self.relpath = relpath
        self.path = os.path.join(REPO, relpath)
        with open(self.path, "rb") as f:
            self.src = f.read().decode("utf-8")
        self.tree = ast.parse(self.src, filename=self.path)
        self.modname = relpath[:-3].replace("/", ".")
        if self.modname.endswith(".__init__"):
            self.modname = self.modname[: -len(".__init__")]
        self.imports = {}  # local name -> (relpath or None, original name or None)
        self.classes = {}
        self.functions = {}
        self.consts = {}
        self._index(self.tree.body)

    def _resolve_module(self, node):
        pkg = self.modname.split(".")[:-1]
        if node.level:
            base = pkg[: len(pkg) - (node.level - 1)]
            parts = base + (node.module.split(".") if node.module else [])
        else:
            parts = node.module.split(".") if node.module else []
        rel = "/".join(parts)
        for cand in (rel + ".py", rel + "/__init__.py"):
            if os.path.exists(os.path.join(REPO, cand)):
                return cand
        return None

    def _index(self, body):
        for node in body:
            if isinstance(node, ast.ImportFrom):
                rel = self._resolve_module(node)
                for a in node.names:
                    self.imports[a.asname or a.name] = (rel, a.name, ".".join(filter(None, [node.module or "", a.name])))
            elif isinstance(node, ast.Import):
                for a in node.names:
                    self.imports[a.asname or a.name.split(".")[0]] = (None, None, a.name if a.asname else a.name.split(".")[0])
            elif isinstance(node, ast.ClassDef):
                self.classes[node.name] = node
            elif isinstance(node, (ast.FunctionDef, ast.AsyncFunctionDef)):
                self.functions[node.name] = node
            elif isinstance(node, (ast.Assign, ast.AnnAssign)):
                tgts = node.targets if isinstance(node, ast.Assign) else [node.target]
                if node.value is not None:
                    for t in tgts:
                        if isinstance(t, ast.Name):
                            self.consts[t.id] = node.value
            elif isinstance(node, (ast.If, ast.Try)):
                # module-level `if os.name == ...` / try-import fallbacks: index every branch, first definition wins
                for sub in ([node.body, node.orelse] if isinstance(node, ast.If)
                            else [node.body] + [h.body for h in node.handlers] + [node.orelse]):
                    saved_f, saved_c = dict(self.functions), dict(self.classes)
                    self._index(sub)
                    for k, v in saved_f.items():
                        self.functions[k] = v
                    for k, v in saved_c.items():
                        self.classes[k] = v


def module(relpath) -> Module:
    if relpath not in _cache:
        _cache[relpath] = Module(relpath)
    return _cache[relpath]


def clear_cache():
    _cache.clear()


def _children_defs(node):
    """direct definitions inside a def/class body, looking through if/try/with/for/while blocks"""
    out = []
    stack = list(node.body)
    while stack:
        n = stack.pop(0)
        if isinstance(n, (ast.FunctionDef, ast.AsyncFunctionDef, ast.ClassDef)):
            out.append(n)
        else:
            for field in ("body", "orelse", "finalbody"):
                stack[0:0] = getattr(n, field, []) or []
            for h in getattr(n, "handlers", []) or []:
                stack[0:0] = h.body
    return out


def find_def(relpath, qualname):
    """qualname like 'FileResponse.create_send_or_zerocopy.<locals>.fake_sendfile'"""
    m = module(relpath)
    parts = [p for p in qualname.split(".") if p != "<locals>"]
    cur = None
    first = parts[0]
    cur = m.classes.get(first) or m.functions.get(first)
    if cur is None:
        raise KeyError("%s: no top-level definition %s" % (relpath, first))
    for p in parts[1:]:
        nxt = None
        for d in _children_defs(cur):
            if d.name == p:
                nxt = d   # the last definition wins (typing.overload stubs come first)
        if nxt is None:
            raise KeyError("%s: %s has no definition %s" % (relpath, qualname, p))
        cur = nxt
    return cur


def source_sha(relpath, node):
    m = module(relpath)
    seg = ast.get_source_segment(m.src, node) or ""
    return hashlib.sha256(seg.encode()).hexdigest()


def class_key(relpath, name):
    return "%s:%s" % (relpath, name)


def resolve_class(relpath, name):
    """follow imports; returns (relpath, ClassDef) or None"""
    seen = set()
    while (relpath, name) not in seen:
        seen.add((relpath, name))
        m = module(relpath)
        if name in m.classes:
            return relpath, m.classes[name]
        if name in m.imports and m.imports[name][0]:
            relpath, name = m.imports[name][0], m.imports[name][1]
            continue
        return None
    return None


def resolve_function(relpath, name):
    seen = set()
    while (relpath, name) not in seen:
        seen.add((relpath, name))
        m = module(relpath)
        if name in m.functions:
            return relpath, m.functions[name]
        if name in m.imports and m.imports[name][0]:
            relpath, name = m.imports[name][0], m.imports[name][1]
            continue
        return None
    return None


def _base_names(relpath, cdef):
    out = []
    for b in cdef.bases:
        n = b
        if isinstance(n, ast.Subscript):  # Generic[...] / BaseRouter[ASGIApp]
            n = n.value
        if isinstance(n, ast.Name):
            out.append((relpath, n.id))
        elif isinstance(n, ast.Attribute) and isinstance(n.value, ast.Name):
            # e.g. staticfiles.BaseFiles
            m = module(relpath)
            imp = m.imports.get(n.value.id)
            if imp and imp[0] is None and False:
                pass
            if imp and imp[0]:
                # `from baize import staticfiles` resolves to baize/__init__ name; try as module
                cand = imp[0]
                sub = os.path.join(os.path.dirname(cand) if cand.endswith("__init__.py") else cand[:-3], n.value.id + ".py")
                if os.path.exists(os.path.join(REPO, sub)):
                    out.append((sub, n.attr))
            else:
                # from baize import staticfiles  -> module file baize/staticfiles.py
                for cand in ("baize/%s.py" % n.value.id,):
                    if os.path.exists(os.path.join(REPO, cand)):
                        out.append((cand, n.attr))
    return out


def mro(relpath, name):
    """simple left-to-right depth-first linearisation without duplicates (good enough for this code base:
    no diamonds except object/Generic).  Returns list of (relpath, ClassDef)."""
    out = []
    seen = set()

    def visit(rp, nm):
        r = resolve_class(rp, nm)
        if r is None:
            return
        rp2, cdef = r
        key = (rp2, cdef.name)
        if key in seen:
            return
        seen.add(key)
        out.append((rp2, cdef))
        for brp, bnm in _base_names(rp2, cdef):
            visit(brp, bnm)

    visit(relpath, name)
    return out


def find_method(relpath, clsname, meth, after=None):
    """resolve a method through the MRO.  `after=(relpath, clsname)` starts after that class (super())."""
    chain = mro(relpath, clsname)
    started = after is None
    for rp, cdef in chain:
        if not started:
            if (rp, cdef.name) == after:
                started = True
            continue
        hit = None
        for d in cdef.body:
            if isinstance(d, (ast.FunctionDef, ast.AsyncFunctionDef)) and d.name == meth:
                hit = d
        if hit is not None:
            return rp, cdef.name + "." + meth, hit
    return None


def class_attr(relpath, clsname, attr):
    """class-level constant (e.g. Convertor.regex, SmallResponse.media_type) through the MRO"""
    for rp, cdef in mro(relpath, clsname):
        for d in cdef.body:
            if isinstance(d, ast.Assign):
                for t in d.targets:
                    if isinstance(t, ast.Name) and t.id == attr:
                        return rp, d.value
            elif isinstance(d, ast.AnnAssign) and isinstance(d.target, ast.Name) and d.target.id == attr and d.value is not None:
                return rp, d.value
    return None
