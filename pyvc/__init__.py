"""pyvc -- a small contract-based deductive verifier for the Python subset used by baize.

The verified text is the AST of the real functions in /repo (re-read on every run).
See /verif/DESIGN.md sections 2-5 and 14.
"""
