"""development helper: run contracts against a scratch copy of /repo with one textual replacement."""
import os, shutil, subprocess, sys, tempfile

def main():
    rel, old, new = sys.argv[1], sys.argv[2], sys.argv[3]
    ids = sys.argv[4:]
    extra = []
    if ids and ids[0].startswith("--refute"):
        extra, ids = [ids[0]], ids[1:]
    d = tempfile.mkdtemp(prefix="pyvc_mut_")
    try:
        shutil.copytree("/repo/baize", os.path.join(d, "baize"))
        p = os.path.join(d, rel)
        s = open(p).read()
        assert s.count(old) >= 1, "pattern not found"
        open(p, "w").write(s.replace(old, new, 1))
        env = dict(os.environ, VERIF_REPO=d)
        r = subprocess.run(["python3-vt", "-m", "pyvc.cli"] + extra + ids, env=env, capture_output=True, text=True, cwd="/verif")
        for line in r.stdout.split("\n"):
            if any(k in line for k in ("==", "refuted", "undecided", "UNDEC", "not-refuted", "unreachable")) and "canary" not in line:
                print(line)
        if r.returncode:
            print(r.stderr[-2000:])
    finally:
        shutil.rmtree(d)

main()
