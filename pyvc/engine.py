"""Path-wise symbolic executor over the real AST + contract application.

Forking is done by *re-execution*: a run follows a script of decisions; when the script is exhausted the
run takes the first feasible alternative and queues the others (scripts are prefixes + one decision).
That keeps the interpreter in direct style (python exceptions for raise/return/break).
"""
from __future__ import annotations

import ast
import itertools
import os

import z3

from . import source
from .values import *  # noqa


# --------------------------------------------------------------------------- signals
class Unsupported(Exception):
    pass


class PathEnd(Exception):
    pass


class PyRaise(Exception):
    def __init__(self, cls, payload=None, where=None):
        Exception.__init__(self, cls)
        self.cls = cls
        self.payload = payload
        self.where = where


class _Return(Exception):
    def __init__(self, value):
        self.value = value


class _Break(Exception):
    pass


class _Continue(Exception):
    pass


BUILTIN_EXC = {
    "BaseException": None, "Exception": "BaseException", "ValueError": "Exception", "TypeError": "Exception",
    "KeyError": "LookupError", "IndexError": "LookupError", "LookupError": "Exception",
    "AssertionError": "Exception", "RuntimeError": "Exception", "NotImplementedError": "RuntimeError",
    "StopIteration": "Exception", "StopAsyncIteration": "Exception", "OSError": "Exception",
    "FileNotFoundError": "OSError", "NotADirectoryError": "OSError", "IsADirectoryError": "OSError",
    "PermissionError": "OSError", "UnicodeError": "ValueError", "UnicodeDecodeError": "UnicodeError",
    "UnicodeEncodeError": "UnicodeError", "ZeroDivisionError": "ArithmeticError", "ArithmeticError": "Exception", "OverflowError": "ArithmeticError",
    "AttributeError": "Exception", "JSONDecodeError": "ValueError", "InvalidOperation": "ArithmeticError",
    "TimeoutError": "OSError", "CancelledError": "BaseException", "RecursionError": "RuntimeError",
    "GeneratorExit": "BaseException",
}

_repo_exc_parent = {}


def exc_parent(name):
    if name in BUILTIN_EXC:
        return BUILTIN_EXC[name]
    if name in _repo_exc_parent:
        return _repo_exc_parent[name]
    # look the class up in the repo's exception-defining modules
    for rel in ("baize/exceptions.py", "baize/asgi/requests.py", "baize/asgi/websocket.py"):
        try:
            m = source.module(rel)
        except FileNotFoundError:
            continue
        if name in m.classes:
            for b in m.classes[name].bases:
                n = b.value if isinstance(b, ast.Subscript) else b
                if isinstance(n, ast.Name) and (n.id in BUILTIN_EXC or n.id in m.classes or n.id in m.imports):
                    _repo_exc_parent[name] = n.id
                    return n.id
    _repo_exc_parent[name] = "Exception"
    return "Exception"


def is_subclass(name, ancestor):
    seen = 0
    while name is not None and seen < 20:
        if name == ancestor:
            return True
        name = exc_parent(name)
        seen += 1
    return False


# --------------------------------------------------------------------------- obligations
class Obligation:
    __slots__ = ("name", "pc", "goal", "key", "expect", "note", "line")

    def __init__(self, name, pc, goal, key, expect="unsat", note="", line=0):
        self.name = name
        self.pc = pc
        self.goal = goal
        self.key = key
        self.expect = expect  # 'unsat' for real obligations, 'sat' for canaries / reachability
        self.note = note
        self.line = line


# --------------------------------------------------------------------------- quantifier helper
def _collect_patterns(bvars, body):
    ids = {v.get_id() for v in bvars}
    found = []
    seen = set()

    def walk(e):
        if e.get_id() in seen:
            return
        seen.add(e.get_id())
        if z3.is_quantifier(e):
            return
        if z3.is_app(e):
            k = e.decl().kind()
            if (k == z3.Z3_OP_SELECT or k == z3.Z3_OP_UNINTERPRETED) and e.num_args() > 0:
                args = e.children()
                direct = [a for a in args if a.get_id() in ids]
                if direct and k == z3.Z3_OP_SELECT and args[1].get_id() in ids:
                    found.append(e)
                elif direct and k == z3.Z3_OP_UNINTERPRETED and all(
                        a.get_id() in ids or not _mentions(a, ids) for a in args):
                    found.append(e)
            for c in e.children():
                walk(c)

    walk(body)
    return found


def _mentions(e, ids):
    stack = [e]
    seen = set()
    while stack:
        x = stack.pop()
        if x.get_id() in seen:
            continue
        seen.add(x.get_id())
        if x.get_id() in ids:
            return True
        stack.extend(x.children())
    return False


def mk_quant(kind, bvars, body, patterns=None):
    if not bvars:
        return body
    if patterns is None:
        cands = _collect_patterns(bvars, body)
        ids = {v.get_id() for v in bvars}
        full = [c for c in cands if all(_mentions(c, {i}) for i in ids)]
        patterns = []
        seenp = set()
        for c in full:
            if c.get_id() not in seenp:
                seenp.add(c.get_id())
                patterns.append(c)
        patterns = patterns[:6]
    f = z3.ForAll if kind == "forall" else z3.Exists
    try:
        if patterns:
            return f(bvars, body, patterns=patterns)
    except z3.Z3Exception:
        pass
    return f(bvars, body)


_q_cache = {}


def _has_quantifier(f):
    k = f.get_id()
    if k in _q_cache and _q_cache[k][0].eq(f):
        return _q_cache[k][1]
    stack = [f]
    seen = set()
    r = False
    while stack:
        e = stack.pop()
        if e.get_id() in seen:
            continue
        seen.add(e.get_id())
        if z3.is_quantifier(e):
            r = True
            break
        stack.extend(e.children())
    _q_cache[k] = (f, r)
    return r


_seq_cache = {}


def _has_sequence_term(f):
    k = f.get_id()
    if k in _seq_cache and _seq_cache[k][0].eq(f):
        return _seq_cache[k][1]
    stack = [f]
    seen = set()
    r = False
    while stack:
        e = stack.pop()
        if e.get_id() in seen:
            continue
        seen.add(e.get_id())
        if z3.is_quantifier(e):
            stack.append(e.body())
            continue
        try:
            if e.sort().kind() in (z3.Z3_SEQ_SORT, z3.Z3_RE_SORT):
                r = True
                break
        except Exception:
            pass
        stack.extend(e.children())
    _seq_cache[k] = (f, r)
    return r


# --------------------------------------------------------------------------- run / state
class Run:
    def __init__(self, script, verifier):
        self.script = list(script)
        self.pos = 0
        self.alternatives = []
        self.obligations = []
        self.counters = {}
        self.verifier = verifier
        self.n_decisions = 0
        self.notes = []
        self.refute = False     # bounded refutation mode: concrete list lengths, loops unrolled, no invariants
        self.bound = 2          # list length used for fresh lists in refute mode
        self.unroll = 4         # loop unrolling bound in refute mode

    def fresh_name(self, prefix):
        n = self.counters.get(prefix, 0)
        self.counters[prefix] = n + 1
        return "%s!%d" % (prefix, n)

    def prefix_key(self):
        return tuple(self.script[: self.pos])


AUX_IDS = {}     # id of an auxiliary premise -> its group


class State:
    def __init__(self, run, timeout_ms=2000):
        self.run = run
        self.pc = []
        self.heap = {}
        self.ghost = {}
        self.next_oid = 1
        self.solver = z3.Solver()
        self.solver.set("timeout", int(os.environ.get("PYVC_FEAS_MS", "800")))
        self.light = z3.Solver()      # string-free, quantifier-free facts only (State.settled)
        self.light.set("timeout", 200)
        self.old_heap = None
        self.assumed_notes = []

    # --- pc
    def assume(self, f, aux=False):
        if isinstance(f, bool):
            f = z3.BoolVal(f)
        if z3.is_true(f):
            return
        self.pc.append(f)
        if aux:
            # an auxiliary fact (Contract.aux_ensures / aux_invariants): every obligation is first tried without these
            # (dropping premises is sound for a proof), then with everything
            AUX_IDS[f.get_id()] = aux if isinstance(aux, str) else "aux"
        # the feasibility solver only sees quantifier-free facts (dropping premises is sound for pruning:
        # it can only keep more branches alive) -- quantified axioms made every check time out
        if not _has_quantifier(f):
            self.solver.add(f)
            if not _has_sequence_term(f):
                self.light.add(f)

    def settled(self, cond, guards=()):
        """True / False if the string-free, quantifier-free part of the path condition decides a string-free condition
        (e.g. presence flags of optional dict entries decided earlier on the path); None otherwise.  Cheap by design."""
        if _has_sequence_term(cond):
            return None
        cs = z3.simplify(cond)
        if z3.is_true(cs):
            return True
        if z3.is_false(cs):
            return False
        s = self.light
        s.push()
        try:
            for f in guards:
                if not _has_quantifier(f) and not _has_sequence_term(f):
                    s.add(f)
            s.push()
            s.add(cond)
            r1 = s.check()
            s.pop()
            if r1 == z3.unsat:
                return False
            s.add(z3.Not(cond))
            if s.check() == z3.unsat:
                return True
            return None
        finally:
            s.pop()

    def feasible(self, cond):
        c = z3.simplify(cond)
        if z3.is_false(c):
            return "unsat"
        self.solver.push()
        self.solver.add(c)
        r = self.solver.check()
        self.solver.pop()
        return str(r)

    def choose(self, conds, force_record=False):
        run = self.run
        conds = [z3.BoolVal(c) if isinstance(c, bool) else c for c in conds]
        simp = [z3.simplify(c) for c in conds]
        live = [i for i, c in enumerate(simp) if not z3.is_false(c)]
        if len(live) == 1 and z3.is_true(simp[live[0]]) and not force_record:
            return live[0]
        if run.pos < len(run.script):
            i = run.script[run.pos]
            run.pos += 1
            self.assume(conds[i])
            return i
        feas = [i for i in live if self.feasible(conds[i]) != "unsat"]
        if os.environ.get("PYVC_DEBUG3") and len(feas) < len(live):
            print("      prune: %s infeasible of %s" % ([str(conds[i])[:100] for i in live if i not in feas], len(live)))
        if not feas:
            raise PathEnd("infeasible")
        i = feas[0]
        for j in feas[1:]:
            run.alternatives.append(run.script[: run.pos] + [j])
        run.script.append(i)
        run.pos += 1
        self.assume(conds[i])
        return i

    def decide(self, cond):
        if isinstance(cond, bool):
            return cond
        c = z3.simplify(cond)
        if z3.is_true(c):
            return True
        if z3.is_false(c):
            return False
        return self.choose([cond, z3.Not(cond)]) == 0

    # --- obligations
    def oblige(self, name, goal, expect="unsat", note="", line=0):
        if isinstance(goal, bool):
            goal = z3.BoolVal(goal)
        run = self.run
        key = (name, run.prefix_key(), sum(1 for o in run.obligations if o.name == name))
        run.obligations.append(Obligation(name, list(self.pc), goal, key, expect, note, line))

    # --- heap
    def alloc(self, obj):
        oid = self.next_oid
        self.next_oid += 1
        self.heap[oid] = obj
        return VRef(oid)

    def obj(self, ref):
        return self.heap[ref.oid]

    def snapshot_heap(self):
        return {k: v.copy() for k, v in self.heap.items()}

    # --- fresh values
    def fresh_int(self, prefix="i"):
        return z3.Int(self.run.fresh_name(prefix))

    def fresh(self, t, prefix="v"):
        run = self.run
        if isinstance(t, TInt):
            return VInt(z3.Int(run.fresh_name(prefix)))
        if isinstance(t, TBool):
            return VBool(z3.Bool(run.fresh_name(prefix)))
        if isinstance(t, TStr):
            return VStr(z3.String(run.fresh_name(prefix)), t.isbytes)
        if isinstance(t, TNone):
            return NONE
        if isinstance(t, TOpaque):
            return VOpaque(z3.Const(run.fresh_name(prefix), opaque_sort(t.name)), t.name)
        if isinstance(t, TTup):
            return VTuple([self.fresh(it, "%s.%d" % (prefix, i)) for i, it in enumerate(t.items)])
        if isinstance(t, TList):
            return self.alloc(self.fresh_listobj(t.elem, prefix))
        if isinstance(t, TMap):
            return self.alloc(self.fresh_mapobj(t.k, t.v, prefix))
        if isinstance(t, TDict):
            from .builtins import Maybe
            items = {}
            for k, ft in t.fields.items():
                if isinstance(ft, TMaybe):
                    items[k] = Maybe(z3.Bool(run.fresh_name("%s.has[%s]" % (prefix, k))), self.fresh(ft.t, "%s[%s]" % (prefix, k)))
                else:
                    items[k] = self.fresh(ft, "%s[%s]" % (prefix, k))
            return self.alloc(DictObj(items, declared=set(t.fields)))
        if isinstance(t, TObj):
            return self.alloc(Obj(t.cls, {k: self.fresh(ft, "%s.%s" % (prefix, k)) for k, ft in t.fields.items()}))
        if isinstance(t, TOpt):
            if getattr(self.run, "lazy_opt", False):
                return VOpt(z3.Bool(run.fresh_name(prefix + ".is_none")), self.fresh(t.t, prefix), prefix)
            if self.choose([z3.BoolVal(True), z3.BoolVal(True)], force_record=True) == 0:
                return NONE
            return self.fresh(t.t, prefix)
        if isinstance(t, TFunc):
            return VFunc("py", t.stub, t.name)
        raise Unsupported("fresh: type %r" % (t,))

    def fresh_listobj(self, etype, prefix):
        if self.run.refute:
            n = z3.IntVal(self.run.bound)
            self.run.fresh_name(prefix + ".len")
        else:
            n = z3.Int(self.run.fresh_name(prefix + ".len"))
            self.assume(n >= 0)
        cols = [z3.Array(self.run.fresh_name("%s.c%d" % (prefix, i)), z3.IntSort(), s)
                for i, s in enumerate(leaf_sorts(etype))]
        return ListObj(n, cols, etype)

    def fresh_mapobj(self, kt, vt, prefix):
        ks = leaf_sorts(kt)
        if len(ks) != 1:
            raise Unsupported("map key must be a single leaf")
        has = z3.Array(self.run.fresh_name(prefix + ".has"), ks[0], z3.BoolSort())
        val = [z3.Array(self.run.fresh_name("%s.v%d" % (prefix, i)), ks[0], s) for i, s in enumerate(leaf_sorts(vt))]
        return MapObj(has, val, kt, vt)

    def havoc_value(self, v, prefix="h", declared=None):
        """a fresh value of the same shape as v (heap objects are havocked IN PLACE, keeping aliasing)"""
        if declared is not None:
            return self.fresh(declared, prefix)
        if isinstance(v, VInt):
            return self.fresh(Int, prefix)
        if isinstance(v, VBool):
            return self.fresh(Bool, prefix)
        if isinstance(v, VStr):
            return self.fresh(TStr(v.isbytes), prefix)
        if isinstance(v, VOpaque):
            return self.fresh(TOpaque(v.sort), prefix)
        if isinstance(v, VTuple):
            return VTuple([self.havoc_value(i, prefix) for i in v.items])
        if isinstance(v, VRef):
            self.havoc_obj(v, prefix)
            return v
        if isinstance(v, (VFunc, VClass, VGlobal)):
            return v
        if isinstance(v, VNone):
            raise Unsupported("cannot havoc a variable that is None without a declared local type (%s)" % prefix)
        raise Unsupported("havoc %r" % (v,))

    def havoc_obj(self, ref, prefix="h", deep=False):
        o = self.heap[ref.oid]
        if isinstance(o, ListObj):
            if o.immutable:
                return
            f = self.fresh_listobj(o.etype, prefix)
            o.length, o.cols = f.length, f.cols
        elif isinstance(o, MapObj):
            f = self.fresh_mapobj(o.ktype, o.vtype, prefix)
            o.has, o.val = f.has, f.val
        elif isinstance(o, DictObj):
            for k, v in list(o.items.items()):
                if not isinstance(v, V):
                    continue
                if not isinstance(v, VRef) or deep:
                    o.items[k] = self.havoc_value(v, "%s[%s]" % (prefix, k)) if not isinstance(v, VNone) else v
        elif isinstance(o, Obj):
            for k, v in list(o.fields.items()):
                if isinstance(v, VNone):
                    continue
                if not isinstance(v, VRef) or deep:
                    o.fields[k] = self.havoc_value(v, "%s.%s" % (prefix, k))


class Frame:
    def __init__(self, contract, relpath, clsname, env=None, parent=None, fn=None):
        self.contract = contract
        self.relpath = relpath
        self.clsname = clsname
        self.env = env if env is not None else {}
        self.parent = parent
        self.fn = fn
        self.nonlocals = set()
        self.loop_no = 0
        self.cur_exc = None
        self.old_env = None
        self.top = parent is None
        self.caller = None     # for inlined callees: the root frame of the function being verified
        self.loop_vars = {}    # IDX<n> / SEQ<n> of the enclosing loops (readable in invariants of inner loops)

    def lookup(self, name):
        f = self
        while f is not None:
            if name in f.env:
                return f.env[name]
            f = f.parent
        return None

    def assign(self, name, v):
        if name in self.nonlocals:
            f = self.parent
            while f is not None:
                if name in f.env:
                    f.env[name] = v
                    return
                f = f.parent
        self.env[name] = v

    def root(self):
        f = self
        while f.parent is not None:
            f = f.parent
        return f

    def outermost(self):
        """root frame of the function under verification (looks through inlined callees)"""
        f = self.root()
        while f.caller is not None:
            f = f.caller.root()
        return f


def dotted(node):
    if isinstance(node, ast.Name):
        return node.id
    if isinstance(node, ast.Attribute):
        b = dotted(node.value)
        return None if b is None else b + "." + node.attr
    if isinstance(node, ast.Call) and isinstance(node.func, ast.Name) and node.func.id == "super" and not node.args:
        return "super()"
    return None


MUTATING_LIST = {"append", "insert", "extend", "clear", "pop", "remove", "sort", "reverse"}
PURE_METHODS = {"startswith", "endswith", "lower", "upper", "strip", "lstrip", "rstrip", "split", "rsplit", "partition",
                "rpartition", "encode", "decode", "get", "items", "keys", "values", "find", "rindex", "index", "count",
                "done", "empty", "is_nan", "is_infinite", "isoformat", "hexdigest", "format", "join", "replace",
                "copy", "getlist", "multi_items", "fullmatch", "group", "groups", "groupdict", "start", "end", "search",
                "match", "translate", "splitlines", "timestamp", "strftime", "format_map", "__iter__", "__aiter__"}


# --------------------------------------------------------------------------- evaluator
class Ev:
    def __init__(self, st: State, frame: Frame, registry, pure=False):
        self.st = st
        self.frame = frame
        self.registry = registry
        self.pure = pure
        self.spec = False          # spec mode: pure + quantifiers + no side conditions
        self.guards = []           # pure mode guard stack (z3 bools)
        self.sideconds = []        # (z3 bool, exc class, line)
        self.bound = {}            # bound (quantified) variables: name -> V

    # ------------------------------------------------------------------ helpers
    def sub(self, pure=None, spec=None, frame=None):
        e = Ev(self.st, frame or self.frame, self.registry, self.pure if pure is None else pure)
        e.spec = self.spec if spec is None else spec
        if e.spec:
            e.pure = True
        e.bound = dict(self.bound)
        e.guards = list(self.guards)
        e.sideconds = self.sideconds
        return e

    def unsupported(self, node, msg):
        line = getattr(node, "lineno", 0)
        raise Unsupported("%s (line %s): %s" % (self.frame.relpath, line, msg))

    def require(self, cond, exc, node=None, payload=None):
        """partial operation: `cond` must hold, else `exc` is raised"""
        if isinstance(cond, bool):
            cond = z3.BoolVal(cond)
        if self.spec:
            return
        if self.pure:
            g = z3.And(*self.guards) if self.guards else z3.BoolVal(True)
            self.sideconds.append((z3.Implies(g, cond), exc, getattr(node, "lineno", 0)))
            return
        if not self.st.decide(cond):
            raise PyRaise(exc, payload, getattr(node, "lineno", 0))

    def truth(self, v):
        if isinstance(v, VBool):
            return v.t
        if isinstance(v, VInt):
            return v.t != 0
        if isinstance(v, VStr):
            return v.t != z3.StringVal("")
        if isinstance(v, VNone):
            return z3.BoolVal(False)
        if isinstance(v, VTuple):
            return z3.BoolVal(len(v.items) > 0)
        if isinstance(v, VRef):
            o = self.st.obj(v)
            if isinstance(o, ListObj):
                return o.length > 0
            if isinstance(o, DictObj):
                return z3.BoolVal(len(o.items) > 0)
            if isinstance(o, Obj):
                tm = self.registry.truth_model(o.cls) if self.registry else None
                if tm:
                    return tm(self, v)
                return z3.BoolVal(True)
            if isinstance(o, MapObj):
                raise Unsupported("truthiness of a symbolic map")
        if isinstance(v, (VFunc, VClass, VGlobal)):
            return z3.BoolVal(True)
        if isinstance(v, VOpaque):
            tm = self.registry.opaque_truth.get(v.sort) if self.registry else None
            if tm:
                return tm(self, v)
            raise Unsupported("truthiness of opaque %s" % v.sort)
        raise Unsupported("truthiness of %r" % (v,))

    def eq(self, a, b):
        """z3 Bool for python `a == b`"""
        if isinstance(a, VInt) and isinstance(b, VInt):
            return a.t == b.t
        if isinstance(a, VBool) and isinstance(b, VBool):
            return a.t == b.t
        if isinstance(a, VInt) and isinstance(b, VBool):
            return a.t == z3.If(b.t, 1, 0)
        if isinstance(a, VBool) and isinstance(b, VInt):
            return self.eq(b, a)
        if isinstance(a, VStr) and isinstance(b, VStr):
            if a.isbytes != b.isbytes:
                return z3.BoolVal(False)
            return a.t == b.t
        if isinstance(a, VNone) or isinstance(b, VNone):
            return z3.BoolVal(isinstance(a, VNone) and isinstance(b, VNone))
        if isinstance(a, VOpaque) and isinstance(b, VOpaque):
            if a.sort != b.sort:
                return z3.BoolVal(False)
            return a.t == b.t
        if isinstance(a, VTuple) and isinstance(b, VTuple):
            if len(a.items) != len(b.items):
                return z3.BoolVal(False)
            return z3.And([self.eq(x, y) for x, y in zip(a.items, b.items)] + [z3.BoolVal(True)])
        if isinstance(a, VRef) and isinstance(b, VRef):
            oa, ob = self.st.obj(a), self.st.obj(b)
            if isinstance(oa, ListObj) and isinstance(ob, ListObj):
                if not same_type(oa.etype, ob.etype):
                    return z3.BoolVal(False)
                k = z3.Int(self.st.run.fresh_name("eqk"))
                body = z3.And([ca[k] == cb[k] for ca, cb in zip(oa.cols, ob.cols)] + [z3.BoolVal(True)])
                return z3.And(oa.length == ob.length,
                              mk_quant("forall", [k], z3.Implies(z3.And(0 <= k, k < oa.length), body)))
            if isinstance(oa, DictObj) and isinstance(ob, DictObj):
                if set(oa.items) != set(ob.items):
                    return z3.BoolVal(False)
                return z3.And([self.eq(oa.items[k], ob.items[k]) for k in oa.items] + [z3.BoolVal(True)])
            if isinstance(oa, MapObj) and isinstance(ob, MapObj):
                ks = leaf_sorts(oa.ktype)[0]
                k = z3.Const(self.st.run.fresh_name("eqk"), ks)
                body = z3.And(oa.has[k] == ob.has[k],
                              z3.Implies(oa.has[k], z3.And([x[k] == y[k] for x, y in zip(oa.val, ob.val)] + [z3.BoolVal(True)])))
                return mk_quant("forall", [k], body)
            if isinstance(oa, Obj) and isinstance(ob, Obj):
                return z3.BoolVal(a.oid == b.oid) if a.oid == b.oid else self._obj_eq(a, b)
            return z3.BoolVal(False)
        if isinstance(a, VTuple) and isinstance(b, VRef) or isinstance(a, VRef) and isinstance(b, VTuple):
            return z3.BoolVal(False) if not self._is_list(a, b) else self._tuple_list_eq(a, b)
        if isinstance(a, (VClass, VGlobal)) and isinstance(b, (VClass, VGlobal)):
            return z3.BoolVal(a.name == b.name)
        if type(a) is not type(b):
            return z3.BoolVal(False)
        raise Unsupported("== on %r / %r" % (a, b))

    def _is_list(self, a, b):
        r = a if isinstance(a, VRef) else b
        return isinstance(self.st.obj(r), ListObj)

    def _tuple_list_eq(self, a, b):
        # python: (..) == [..] is False; a tuple never equals a list
        return z3.BoolVal(False)

    def _obj_eq(self, a, b):
        raise Unsupported("== between two distinct heap objects")

    # ------------------------------------------------------------------ list helpers
    def list_get(self, lo: ListObj, idx):
        leaves = [c[idx] for c in lo.cols]
        v, _ = pack(lo.etype, leaves)
        return v

    def new_list(self, etype, length, cols, immutable=False):
        return self.st.alloc(ListObj(length, cols, etype, immutable))

    def list_from_values(self, vals, etype=None):
        if etype is None:
            if not vals:
                etype = Int  # empty list literal: element type fixed on first append
                lo = ListObj(z3.IntVal(0), [], None)
                return self.st.alloc(lo)
            etype = type_of_value(vals[0])
        cols = [z3.K(z3.IntSort(), _default(s)) for s in leaf_sorts(etype)]
        for i, v in enumerate(vals):
            for ci, leaf in enumerate(unpack(v)):
                cols[ci] = z3.Store(cols[ci], i, leaf)
        return self.st.alloc(ListObj(z3.IntVal(len(vals)), cols, etype))

    def _ensure_etype(self, lo, v):
        if lo.etype is None:
            lo.etype = type_of_value(v)
            lo.cols = [z3.K(z3.IntSort(), _default(s)) for s in leaf_sorts(lo.etype)]

    def _update_cols(self, lo, p, v, tag):
        """new array versions for `xs[p] = v` (also append).  No store terms: quantified goals over the
        updated list get select-patterns on plain array constants, with two-way frame triggers."""
        st = self.st
        leaves = unpack(v)
        concrete = all(_is_ground_array(c) for c in lo.cols)
        newcols = []
        j = z3.Int(st.run.fresh_name("upj"))
        for ci, c in enumerate(lo.cols):
            if concrete:
                newcols.append(z3.Store(c, p, leaves[ci]))
                continue
            nc = z3.Array(st.run.fresh_name("%s.c%d" % (tag, ci)), z3.IntSort(), c.sort().range())
            st.assume(nc[p] == leaves[ci])
            st.assume(mk_quant("forall", [j], z3.Implies(j != p, nc[j] == c[j]), patterns=[nc[j], c[j]]))
            newcols.append(nc)
        lo.cols = newcols

    def list_append(self, lo, v):
        self._ensure_etype(lo, v)
        self._update_cols(lo, lo.length, v, "app")
        lo.length = lo.length + 1

    def list_set(self, lo, idx, v):
        self._update_cols(lo, idx, v, "set")

    def list_insert(self, lo, p, v):
        self._ensure_etype(lo, v)
        st = self.st
        leaves = unpack(v)
        newcols = []
        j = z3.Int(st.run.fresh_name("insj"))
        for ci, c in enumerate(lo.cols):
            nc = z3.Array(st.run.fresh_name("ins.c%d" % ci), z3.IntSort(), c.sort().range())
            st.assume(mk_quant("forall", [j], z3.And(
                z3.Implies(j < p, nc[j] == c[j]),
                z3.Implies(j > p, nc[j] == c[j - 1])), patterns=[nc[j]]))
            st.assume(nc[p] == leaves[ci])
            newcols.append(nc)
        lo.cols = newcols
        lo.length = lo.length + 1

    def list_delete(self, lo, p):
        st = self.st
        newcols = []
        j = z3.Int(st.run.fresh_name("delj"))
        for ci, c in enumerate(lo.cols):
            nc = z3.Array(st.run.fresh_name("del.c%d" % ci), z3.IntSort(), c.sort().range())
            st.assume(mk_quant("forall", [j], z3.And(
                z3.Implies(j < p, nc[j] == c[j]),
                z3.Implies(j >= p, nc[j] == c[j + 1])), patterns=[nc[j]]))
            newcols.append(nc)
        lo.cols = newcols
        lo.length = lo.length - 1

    def norm_index(self, idx_t, length):
        """python negative indexing for a z3 int index"""
        s = z3.simplify(idx_t)
        if z3.is_int_value(s):
            if s.as_long() < 0:
                return length + s
            return s
        if self.spec:
            return idx_t   # spec expressions index with non-negative terms (keeps select-patterns usable)
        if self.pure or self.st.feasible(idx_t < 0) == "unsat":
            return idx_t if not self.pure else z3.If(idx_t < 0, length + idx_t, idx_t)
        return z3.If(idx_t < 0, length + idx_t, idx_t)

    # ------------------------------------------------------------------ names
    def lookup(self, name, node=None):
        if name in self.bound:
            return self.bound[name]
        v = self.frame.lookup(name)
        if v is not None:
            return v
        if name in self.st.ghost:
            return self.st.ghost[name]
        c = self.frame.root().contract
        if c is not None and name in c.consts:
            cv = c.consts[name]
            return cv(self) if callable(cv) else cv
        from . import builtins as B
        r = self.module_name(self.frame.relpath, name)
        if r is not None:
            return r
        if name in B.BUILTINS:
            return VFunc("py", B.BUILTINS[name], name)
        if name in BUILTIN_EXC:
            return VClass(name)
        self.unsupported(node, "unknown name %r" % name)

    def module_name(self, relpath, name):
        m = source.module(relpath)
        if name in m.functions:
            return VFunc("repo", (relpath, name), name)
        if name in m.classes:
            return VClass(source.class_key(relpath, name))
        if name in m.imports:
            rel, orig, full = m.imports[name]
            if rel:
                r = source.resolve_class(rel, orig)
                if r:
                    return VClass(source.class_key(r[0], r[1].name))
                r = source.resolve_function(rel, orig)
                if r:
                    return VFunc("repo", (r[0], r[1].name), orig)
                m2 = source.module(rel)
                if orig in m2.consts:
                    return self.module_const(rel, orig)
                return VGlobal("%s.%s" % (m2.modname, orig))
            return VGlobal(full)
        if name in m.consts:
            return self.module_const(relpath, name)
        return None

    def module_const(self, relpath, name):
        m = source.module(relpath)
        node = m.consts[name]
        fr = Frame(self.frame.root().contract, relpath, None, {})
        ev = Ev(self.st, fr, self.registry, pure=True)
        ev.spec = True
        try:
            return ev.expr(node)
        except Unsupported:
            return VGlobal("%s.%s" % (m.modname, name))

    # ------------------------------------------------------------------ expressions
    def expr(self, node):
        m = getattr(self, "e_" + node.__class__.__name__, None)
        if m is None:
            self.unsupported(node, "expression %s" % node.__class__.__name__)
        v = m(node)
        if isinstance(v, VOpt):
            v = self.resolve(v, node)
        return v

    def expr_keep(self, node):
        """like expr, but an Optional with a symbolic None flag (VOpt) is passed on unresolved"""
        m = getattr(self, "e_" + node.__class__.__name__, None)
        if m is None:
            self.unsupported(node, "expression %s" % node.__class__.__name__)
        return m(node)

    def resolve(self, v, node=None):
        """None or the value of a VOpt: decided by the path condition (and the guards of a pure context) where it can
        be, otherwise by forking on the flag"""
        while isinstance(v, VOpt):
            s = self.st.settled(v.n, self.guards if self.pure else ())
            if s is None:
                if self.pure and self.guards:
                    raise Unsupported("optional value %s used under a condition that does not settle whether it is None" % v.name)
                s = self.st.decide(v.n)
            v = NONE if s else v.val
        return v

    def e_Constant(self, node):
        v = node.value
        if v is None:
            return NONE
        if isinstance(v, bool):
            return VBool(v)
        if isinstance(v, int):
            return VInt(v)
        if isinstance(v, str):
            return VStr(v)
        if isinstance(v, bytes):
            return VStr(v)
        if v is Ellipsis:
            return NONE
        self.unsupported(node, "constant %r" % (v,))

    def e_Name(self, node):
        return self.lookup(node.id, node)

    def e_Tuple(self, node):
        items = []
        for e in node.elts:
            if isinstance(e, ast.Starred):
                v = self.expr(e.value)
                items.extend(self.iter_concrete(v, e))
            else:
                items.append(self.expr(e))
        return VTuple(items)

    def e_List(self, node):
        # [*gen1, *gen2] and plain literals
        parts = []
        for e in node.elts:
            if isinstance(e, ast.Starred):
                parts.append(("star", self.expr(e.value)))
            else:
                parts.append(("one", self.expr(e)))
        if all(k == "one" for k, _ in parts):
            return self.list_from_values([v for _, v in parts])
        from . import builtins as B
        acc = None
        for k, v in parts:
            if k == "one":
                v = self.list_from_values([v])
            else:
                v = B.to_list(self, v, node)
            acc = v if acc is None else B.list_concat(self, acc, v)
        return acc

    def e_Set(self, node):
        return VTuple([self.expr(e) for e in node.elts])

    def e_Dict(self, node):
        items = {}
        for k, v in zip(node.keys, node.values):
            if k is None:
                src = self.expr(v)
                if isinstance(src, VNone):
                    self.unsupported(node, "** of None")
                o = self.st.obj(src)
                if not isinstance(o, DictObj):
                    self.unsupported(node, "** of non-concrete dict")
                items.update(o.items)
                continue
            kv = self.expr(k)
            ks = z3.simplify(kv.t) if isinstance(kv, VStr) else None
            if ks is None or not z3.is_string_value(ks):
                self.unsupported(node, "dict literal with a non-constant key")
            items[py_string(ks)] = self.expr(v)
        return self.st.alloc(DictObj(items))

    def e_JoinedStr(self, node):
        from . import builtins as B
        parts = []
        for v in node.values:
            if isinstance(v, ast.Constant):
                parts.append(z3.StringVal(v.value))
            else:
                if v.format_spec is not None:
                    self.unsupported(node, "format spec in f-string")
                val = self.expr(v.value)
                if v.conversion == 114:  # !r
                    parts.append(B.repr_of(self, val, node).t)
                else:
                    parts.append(B.str_of(self, val, node).t)
        if not parts:
            return VStr("")
        if len(parts) == 1:
            return VStr(parts[0])
        r = z3.Concat(*parts)
        c = self.frame.root().contract
        for ch in (getattr(c, "char_hints", None) or ()):
            # a theorem about single characters, stated as a ground fact so that the solver need not derive it inside a
            # quantified context: ch occurs in a concatenation iff it occurs in one of the pieces
            cv = z3.StringVal(ch)
            self.st.assume(z3.Contains(r, cv) == z3.Or(*[
                z3.BoolVal(ch in py_string(p)) if z3.is_string_value(p) else z3.Contains(p, cv) for p in parts]))
        return VStr(r)

    def e_FormattedValue(self, node):
        from . import builtins as B
        return B.str_of(self, self.expr(node.value), node)

    def cond(self, node):
        """truth value of an expression used only as a condition (avoids materialising and/or values)"""
        if isinstance(node, ast.BoolOp):
            is_and = isinstance(node.op, ast.And)
            if self.pure:
                ts = []
                saved = len(self.guards)
                try:
                    for e in node.values:
                        t = self.cond(e)
                        ts.append(t)
                        ts_s = z3.simplify(t)
                        if (is_and and z3.is_false(ts_s)) or (not is_and and z3.is_true(ts_s)):
                            break   # short-circuit on a constant: the remaining operands are never evaluated
                        self.guards.append(t if is_and else z3.Not(t))
                finally:
                    del self.guards[saved:]
                return (z3.And if is_and else z3.Or)(ts)
            for i, e in enumerate(node.values):
                t = self.cond(e)
                if i == len(node.values) - 1:
                    return t
                if is_and:
                    if not self.st.decide(t):
                        return z3.BoolVal(False)
                else:
                    if self.st.decide(t):
                        return z3.BoolVal(True)
        if isinstance(node, ast.UnaryOp) and isinstance(node.op, ast.Not):
            return z3.Not(self.cond(node.operand))
        return self.truth(self.expr(node))

    def e_UnaryOp(self, node):
        if isinstance(node.op, ast.Not):
            return VBool(self.cond(node))
        v = self.expr(node.operand)
        if isinstance(node.op, ast.USub) and isinstance(v, VInt):
            return VInt(-v.t)
        if isinstance(node.op, ast.UAdd) and isinstance(v, VInt):
            return v
        self.unsupported(node, "unary op")

    def e_BoolOp(self, node):
        is_and = isinstance(node.op, ast.And)
        if self.pure:
            vals = []
            saved = len(self.guards)
            try:
                for e in node.values:
                    v = self.expr(e)
                    vals.append(v)
                    t = self.truth(v)
                    ts_ = z3.simplify(t)
                    if (is_and and z3.is_false(ts_)) or (not is_and and z3.is_true(ts_)):
                        break   # constant short-circuit: later operands are never evaluated
                    self.guards.append(t if is_and else z3.Not(t))
            finally:
                del self.guards[saved:]
            if all(isinstance(v, VBool) for v in vals):
                return VBool((z3.And if is_and else z3.Or)([v.t for v in vals]))
            # value-returning and/or
            res = vals[-1]
            for v in reversed(vals[:-1]):
                t = self.truth(v)
                res = self.ite(t, res, v) if is_and else self.ite(t, v, res)
            return res
        v = None
        for i, e in enumerate(node.values):
            v = self.expr(e)
            if i == len(node.values) - 1:
                return v
            t = self.truth(v)
            if is_and:
                if not self.st.decide(t):
                    return v
            else:
                if self.st.decide(t):
                    return v
        return v

    def ite(self, c, a, b):
        if z3.is_true(z3.simplify(c)):
            return a
        if z3.is_false(z3.simplify(c)):
            return b
        if isinstance(a, VInt) and isinstance(b, VInt):
            return VInt(z3.If(c, a.t, b.t))
        if isinstance(a, VBool) and isinstance(b, VBool):
            return VBool(z3.If(c, a.t, b.t))
        if isinstance(a, VStr) and isinstance(b, VStr) and a.isbytes == b.isbytes:
            return VStr(z3.If(c, a.t, b.t), a.isbytes)
        if isinstance(a, VOpaque) and isinstance(b, VOpaque) and a.sort == b.sort:
            return VOpaque(z3.If(c, a.t, b.t), a.sort)
        if isinstance(a, VTuple) and isinstance(b, VTuple) and len(a.items) == len(b.items):
            return VTuple([self.ite(c, x, y) for x, y in zip(a.items, b.items)])
        if isinstance(a, VNone) and isinstance(b, VNone):
            return a
        if isinstance(a, (VOpt, VNone)) or isinstance(b, (VOpt, VNone)):
            # Optional values merge into an Optional with a symbolic None flag
            an, av = (a.n, a.val) if isinstance(a, VOpt) else ((z3.BoolVal(True), None) if isinstance(a, VNone) else (z3.BoolVal(False), a))
            bn, bv = (b.n, b.val) if isinstance(b, VOpt) else ((z3.BoolVal(True), None) if isinstance(b, VNone) else (z3.BoolVal(False), b))
            val = bv if av is None else (av if bv is None else self.ite(c, av, bv))
            return VOpt(z3.If(c, an, bn), val, "merged")
        if isinstance(a, VBool) and isinstance(b, VInt):
            return VInt(z3.If(c, z3.If(a.t, 1, 0), b.t))
        if isinstance(a, VInt) and isinstance(b, VBool):
            return VInt(z3.If(c, a.t, z3.If(b.t, 1, 0)))
        raise Unsupported("cannot merge %r / %r under a symbolic condition in pure mode" % (a, b))

    def e_IfExp(self, node):
        c = self.cond(node.test)
        cs = z3.simplify(c)
        if z3.is_true(cs):
            return self.expr_keep(node.body)
        if z3.is_false(cs):
            return self.expr_keep(node.orelse)
        if self.spec:
            # a condition the (quantifier-free part of the) path condition already settles: only that branch is
            # evaluated (the other one may not even be well-typed on this path, e.g. None + str)
            settled = self.st.settled(c, self.guards)
            if settled is False:
                return self.expr_keep(node.orelse)
            if settled is True:
                return self.expr_keep(node.body)
        if self.pure:
            self.guards.append(c)
            try:
                a = self.expr_keep(node.body)
            finally:
                self.guards.pop()
            self.guards.append(z3.Not(c))
            try:
                b = self.expr_keep(node.orelse)
            finally:
                self.guards.pop()
            return self.ite(c, a, b)
        if self.st.decide(c):
            return self.expr_keep(node.body)
        return self.expr_keep(node.orelse)

    def e_BinOp(self, node):
        a = self.expr(node.left)
        b = self.expr(node.right)
        return self.binop(node.op, a, b, node)

    def binop(self, op, a, b, node=None):
        from . import builtins as B
        if isinstance(a, VBool) and isinstance(b, (VInt, VBool)):
            a = VInt(z3.If(a.t, 1, 0))
        if isinstance(b, VBool) and isinstance(a, VInt):
            b = VInt(z3.If(b.t, 1, 0))
        if isinstance(a, VInt) and isinstance(b, VInt):
            if isinstance(op, ast.Add):
                return VInt(a.t + b.t)
            if isinstance(op, ast.Sub):
                return VInt(a.t - b.t)
            if isinstance(op, ast.Mult):
                return VInt(a.t * b.t)
            if isinstance(op, (ast.FloorDiv, ast.Mod)):
                self.require(b.t != 0, "ZeroDivisionError", node)
                q = z3.If(b.t > 0, a.t / b.t, (-a.t) / (-b.t))
                if isinstance(op, ast.FloorDiv):
                    return VInt(q)
                return VInt(a.t - b.t * q)
            self.unsupported(node, "int operator %s" % op.__class__.__name__)
        if isinstance(a, VStr) and isinstance(b, VStr) and isinstance(op, ast.Add):
            if a.isbytes != b.isbytes:
                self.require(False, "TypeError", node)
            return VStr(z3.Concat(a.t, b.t), a.isbytes)
        if isinstance(a, VStr) and isinstance(op, ast.Mod):
            return B.percent_format(self, a, b, node)
        if isinstance(a, VTuple) and isinstance(b, VTuple) and isinstance(op, ast.Add):
            return VTuple(a.items + b.items)
        if isinstance(a, VOpaque) and a.sort == "Float" and isinstance(b, VInt) and isinstance(op, ast.Add):
            from .builtins import ufunc, I as _I
            return VOpaque(ufunc("float_plus_int", opaque_sort("Float"), _I, opaque_sort("Float"))(a.t, b.t), "Float")
        if isinstance(a, VRef) and isinstance(b, VRef) and isinstance(op, ast.Add):
            return B.list_concat(self, a, b)
        self.unsupported(node, "binary op %s on %r, %r" % (op.__class__.__name__, a, b))

    def e_Compare(self, node):
        keep = all(isinstance(op, (ast.Is, ast.IsNot)) for op in node.ops)
        left = self.expr_keep(node.left) if keep else self.expr(node.left)
        conj = []
        for op, rnode in zip(node.ops, node.comparators):
            right = self.expr_keep(rnode) if keep else self.expr(rnode)
            conj.append(self.compare(op, left, right, node))
            left = right
        if len(conj) == 1:
            return VBool(conj[0])
        return VBool(z3.And(conj))

    def compare(self, op, a, b, node):
        from . import builtins as B
        if isinstance(op, (ast.Eq, ast.NotEq)) and self.registry and (
                (isinstance(a, VRef) and isinstance(self.st.obj(a), Obj)) or (isinstance(b, VRef) and isinstance(self.st.obj(b), Obj))):
            cm = self.registry.compare_model(a, b, op)     # a modelled __eq__ of a repository class
            if cm is not None:
                return cm(self, a, b)
        if isinstance(op, ast.Eq):
            return self.eq(a, b)
        if isinstance(op, ast.NotEq):
            return z3.Not(self.eq(a, b))
        if isinstance(op, ast.Is):
            return self.is_(a, b)
        if isinstance(op, ast.IsNot):
            return z3.Not(self.is_(a, b))
        if isinstance(op, (ast.In, ast.NotIn)):
            r = B.contains(self, b, a, node)
            return r if isinstance(op, ast.In) else z3.Not(r)
        if isinstance(a, VBool):
            a = VInt(z3.If(a.t, 1, 0))
        if isinstance(b, VBool):
            b = VInt(z3.If(b.t, 1, 0))
        if isinstance(a, VInt) and isinstance(b, VInt):
            if isinstance(op, ast.Lt):
                return a.t < b.t
            if isinstance(op, ast.LtE):
                return a.t <= b.t
            if isinstance(op, ast.Gt):
                return a.t > b.t
            if isinstance(op, ast.GtE):
                return a.t >= b.t
        if isinstance(a, VStr) and isinstance(b, VStr):
            if isinstance(op, ast.Lt):
                return a.t < b.t
            if isinstance(op, ast.LtE):
                return a.t <= b.t
            if isinstance(op, ast.Gt):
                return b.t < a.t
            if isinstance(op, ast.GtE):
                return b.t <= a.t
        cm = self.registry.compare_model(a, b, op) if self.registry else None
        if cm is not None:
            return cm(self, a, b)
        self.unsupported(node, "comparison %s on %r, %r" % (op.__class__.__name__, a, b))

    def is_(self, a, b):
        if isinstance(a, VOpt) and isinstance(b, VNone):
            return a.n
        if isinstance(b, VOpt) and isinstance(a, VNone):
            return b.n
        if isinstance(a, VOpt) or isinstance(b, VOpt):
            a, b = self.resolve(a), self.resolve(b)
        if isinstance(a, VNone) or isinstance(b, VNone):
            return z3.BoolVal(isinstance(a, VNone) and isinstance(b, VNone))
        if isinstance(a, VRef) and isinstance(b, VRef):
            return z3.BoolVal(a.oid == b.oid)
        if isinstance(a, VBool) and isinstance(b, VBool):
            return a.t == b.t
        if isinstance(a, VOpaque) and isinstance(b, VOpaque) and a.sort == b.sort:
            return a.t == b.t
        if isinstance(a, (VClass, VGlobal)) and isinstance(b, (VClass, VGlobal)):
            return z3.BoolVal(a.name == b.name)
        if type(a) is not type(b):
            return z3.BoolVal(False)
        raise Unsupported("`is` on %r / %r" % (a, b))

    def e_Attribute(self, node):
        from . import builtins as B
        base = self.expr(node.value)
        return B.getattr_(self, base, node.attr, node)

    def e_Subscript(self, node):
        from . import builtins as B
        base = self.expr(node.value)
        if isinstance(base, VGlobal) and base.name.split(".")[0] in ("typing", "t"):
            return VGlobal(base.name + "[...]")      # a type expression (typing.cast argument): no run-time meaning
        if isinstance(node.slice, ast.Slice):
            lo = self.expr(node.slice.lower) if node.slice.lower is not None else None
            hi = self.expr(node.slice.upper) if node.slice.upper is not None else None
            if node.slice.step is not None:
                self.unsupported(node, "slice step")
            return B.slice_(self, base, lo, hi, node)
        idx = self.expr(node.slice)
        return B.index(self, base, idx, node)

    def e_Lambda(self, node):
        return VFunc("lambda", (node, self.frame, dict(self.bound)), "<lambda>")

    def e_Await(self, node):
        v = self.expr(node.value)
        if isinstance(v, VRef) and self.registry is not None:
            o = self.st.obj(v)
            if isinstance(o, Obj):
                am = self.registry._await_models.get(o.cls)
                if am is not None:
                    return am(self, v, node)
        return v

    def e_Call(self, node):
        from . import builtins as B
        return B.call_node(self, node)

    def e_ListComp(self, node):
        from . import builtins as B
        return B.comprehension(self, node, "list")

    def e_GeneratorExp(self, node):
        # a bare generator expression is kept lazy; consumers (any/all/sum/tuple/list/extend) interpret it
        return VFunc("genexp", (node, self.frame, dict(self.bound)), "<genexpr>")

    def e_DictComp(self, node):
        from . import builtins as B
        return B.dict_comprehension(self, node)

    def e_Starred(self, node):
        self.unsupported(node, "starred expression")

    def e_Yield(self, node):
        v = self.expr(node.value) if node.value is not None else NONE
        c = self.frame.root().contract
        if c is None or c.on_yield is None:
            self.unsupported(node, "yield without an on_yield hook in the contract")
        c.on_yield(self, v, node)
        return NONE

    def e_YieldFrom(self, node):
        c = self.frame.root().contract
        inner = node.value
        if isinstance(inner, ast.Call):
            # generator function under contract: its contract summarises its emissions; a callee that
            # returns a concrete iterable (e.g. `(b"",)`) has each item yielded here
            v = self.expr(inner)
            if isinstance(v, VTuple):
                for item in v.items:
                    if c is None or c.on_yield is None:
                        self.unsupported(node, "yield from a tuple without an on_yield hook")
                    c.on_yield(self, item, node)
                return NONE
            return v
        v = self.expr(inner)
        if c is None or c.on_yield_from is None:
            self.unsupported(node, "yield from <iterable> without an on_yield_from hook")
        c.on_yield_from(self, v, node)
        return NONE

    def e_NamedExpr(self, node):
        v = self.expr(node.value)
        self.frame.assign(node.target.id, v)
        return v

    # ------------------------------------------------------------------ iteration helpers
    def iter_concrete(self, v, node):
        """python-level list of Vs for a value whose length is concrete"""
        if isinstance(v, VTuple):
            return list(v.items)
        if isinstance(v, VStr):
            sv = z3.simplify(v.t)
            if z3.is_string_value(sv):       # a literal: its characters (bytes iterate as ints - not modelled)
                if v.isbytes:
                    self.unsupported(node, "iteration over a bytes literal")
                return [VStr(ch) for ch in py_string(sv)]
        if isinstance(v, VRef):
            o = self.st.obj(v)
            if isinstance(o, ListObj):
                n = z3.simplify(o.length)
                if z3.is_int_value(n):
                    return [self.list_get(o, z3.IntVal(i)) for i in range(n.as_long())]
            if isinstance(o, DictObj):
                return [VStr(k) for k in o.items]
        self.unsupported(node, "iteration over a value of symbolic length here: %r" % (v,))

    # ------------------------------------------------------------------ statements
    def block(self, stmts):
        for s in stmts:
            self.stmt(s)

    def stmt(self, node):
        m = getattr(self, "s_" + node.__class__.__name__, None)
        if m is None:
            self.unsupported(node, "statement %s" % node.__class__.__name__)
        r = m(node)
        c = self.frame.root().contract
        hooks = getattr(c, "stmt_hooks", None) if c is not None else None
        if hooks and not self.pure:
            # ghost code: a contract may attach ghost updates to statements of the real function (executed right after
            # the statement; they touch ghost state only)
            for pred, fn in hooks:
                if pred(node):
                    fn(self, node)
        return r

    def s_Pass(self, node):
        pass

    def s_Expr(self, node):
        if isinstance(node.value, ast.Constant):
            return
        self.expr(node.value)

    def _typed_empty(self, tgt, v):
        """`x = []` where the contract declares the local's type: fix the element type of the empty list"""
        c = self.frame.root().contract
        if isinstance(tgt, ast.Name) and isinstance(v, VRef) and c is not None:
            o = self.st.obj(v)
            t = (c.locals or {}).get(tgt.id)
            if isinstance(o, ListObj) and o.etype is None and isinstance(t, TList):
                o.etype = t.elem
                o.cols = [z3.K(z3.IntSort(), _default(s)) for s in leaf_sorts(t.elem)]
            if isinstance(o, DictObj) and not o.items and isinstance(t, TMap):
                # `x = {}` declared as a symbolic-key map: the empty map
                ks = leaf_sorts(t.k)[0]
                self.st.heap[v.oid] = MapObj(z3.K(ks, z3.BoolVal(False)),
                                             [z3.K(ks, _default(s_)) for s_ in leaf_sorts(t.v)], t.k, t.v)

    def _cut(self, tgt, node):
        """ghost assertion attached to `name = ...` by the contract (`cuts`): proved here, assumed afterwards.
        Used as an instantiation hint / lemma; never an assumption (it is an obligation first)."""
        c = self.frame.contract
        name = dotted(tgt)
        if name is None or c is None or self.pure or self.st.run.refute:
            return
        cuts = getattr(c, "cuts", None) or {}
        if name not in cuts or not self.frame.top:
            return
        from .contract import spec_eval
        for k, text in enumerate(cuts[name]):
            f = spec_eval(self, text)
            self.st.oblige("%s/cut.%s.%d" % (c.id, name, k + 1), f, note=text, line=node.lineno)
            self.st.assume(f)

    def s_Assign(self, node):
        v = self.expr_keep(node.value) if all(isinstance(t, ast.Name) for t in node.targets) else self.expr(node.value)
        for t in node.targets:
            self._typed_empty(t, v)
            self.assign(t, v)
            self._cut(t, node)

    def s_AnnAssign(self, node):
        if node.value is None:
            return
        v = self.expr(node.value)
        self._typed_empty(node.target, v)
        self.assign(node.target, v)
        self._cut(node.target, node)

    def s_AugAssign(self, node):
        tgt = node.target
        if isinstance(tgt, ast.Name):
            cur = self.lookup(tgt.id, node)
        elif isinstance(tgt, ast.Subscript) or isinstance(tgt, ast.Attribute):
            load = ast.copy_location(type(tgt)(**{**{f: getattr(tgt, f) for f in tgt._fields}, "ctx": ast.Load()}), tgt)
            cur = self.expr(load)
        else:
            self.unsupported(node, "augassign target")
        if isinstance(cur, VOpt):
            cur = self.resolve(cur, node)
        v = self.binop(node.op, cur, self.expr(node.value), node)
        self.assign(tgt, v)

    def assign(self, tgt, v):
        from . import builtins as B
        if isinstance(tgt, ast.Name):
            self.frame.assign(tgt.id, v)
        elif isinstance(tgt, (ast.Tuple, ast.List)):
            if any(isinstance(e, ast.Starred) for e in tgt.elts):
                self.unsupported(tgt, "starred unpacking")
            items = self.unpack(v, len(tgt.elts), tgt)
            for e, it in zip(tgt.elts, items):
                self.assign(e, it)
        elif isinstance(tgt, ast.Subscript):
            base = self.expr(tgt.value)
            if isinstance(tgt.slice, ast.Slice):
                self.unsupported(tgt, "slice assignment")
            idx = self.expr(tgt.slice)
            B.setitem(self, base, idx, v, tgt)
        elif isinstance(tgt, ast.Attribute):
            base = self.expr(tgt.value)
            B.setattr_(self, base, tgt.attr, v, tgt)
        else:
            self.unsupported(tgt, "assignment target")

    def unpack(self, v, n, node):
        if isinstance(v, VTuple):
            if len(v.items) != n:
                self.require(False, "ValueError", node)
                raise Unsupported("unconditional failure in a pure context: unpack arity")
            return list(v.items)
        if isinstance(v, VRef):
            o = self.st.obj(v)
            if isinstance(o, ListObj):
                self.require(o.length == n, "ValueError", node)
                return [self.list_get(o, z3.IntVal(i)) for i in range(n)]
        self.unsupported(node, "unpacking %r" % (v,))

    def s_Delete(self, node):
        from . import builtins as B
        for t in node.targets:
            if isinstance(t, ast.Subscript):
                base = self.expr(t.value)
                if isinstance(t.slice, ast.Slice):
                    lo = self.expr(t.slice.lower) if t.slice.lower is not None else None
                    hi = self.expr(t.slice.upper) if t.slice.upper is not None else None
                    if isinstance(base, VStr) and base.isbytes and isinstance(t.value, (ast.Attribute, ast.Name)) and t.slice.step is None:
                        # a bytearray modelled as a byte string: `del buf[a:b]` re-binds the variable / field to
                        # buf[:a] + buf[b:]
                        n = z3.Length(base.t)
                        left = B.slice_(self, base, None, lo, t) if lo is not None else VStr(b"")
                        right = B.slice_(self, base, hi, None, t) if hi is not None else VStr(b"")
                        self.assign(t.value, VStr(z3.Concat(left.t, right.t), True))
                        continue
                    B.delslice(self, base, lo, hi, t)
                else:
                    B.delitem(self, base, self.expr(t.slice), t)
            else:
                self.unsupported(node, "del target")

    def s_If(self, node):
        c = self.cond(node.test)
        if self.st.decide(c):
            self.block(node.body)
        else:
            self.block(node.orelse)

    def s_Return(self, node):
        raise _Return(self.expr_keep(node.value) if node.value is not None else NONE)

    def s_Break(self, node):
        raise _Break()

    def s_Continue(self, node):
        raise _Continue()

    def s_Nonlocal(self, node):
        self.frame.nonlocals.update(node.names)

    def s_Global(self, node):
        self.unsupported(node, "global")

    def s_Assert(self, node):
        c = self.cond(node.test)
        self.require(c, "AssertionError", node)

    def s_Raise(self, node):
        if node.exc is None:
            if self.frame.cur_exc is None:
                self.unsupported(node, "bare raise outside handler")
            raise self.frame.cur_exc
        v = self.expr(node.exc)
        raise self.make_raise(v, node)

    def make_raise(self, v, node):
        from . import builtins as B
        if isinstance(v, VClass):
            v = B.construct(self, v, [], {}, node)
        if isinstance(v, VRef):
            o = self.st.obj(v)
            if isinstance(o, Obj):
                return PyRaise(o.cls.split(":")[-1], v, getattr(node, "lineno", 0))
        self.unsupported(node, "raise of %r" % (v,))

    def s_FunctionDef(self, node):
        self.frame.env[node.name] = VFunc("closure", (node, self.frame), node.name)

    s_AsyncFunctionDef = s_FunctionDef

    def s_With(self, node):
        for item in node.items:
            v = self.expr(item.context_expr)
            if item.optional_vars is not None:
                self.assign(item.optional_vars, v)
        self.block(node.body)

    s_AsyncWith = s_With

    def s_Try(self, node):
        def run_finally():
            if node.finalbody:
                self.block(node.finalbody)

        try:
            try:
                self.block(node.body)
            except PyRaise as r:
                for h in node.handlers:
                    if self.handler_matches(h, r):
                        if h.name:
                            self.frame.env[h.name] = r.payload if r.payload is not None else NONE
                        saved = self.frame.cur_exc
                        self.frame.cur_exc = r
                        try:
                            self.block(h.body)
                        finally:
                            self.frame.cur_exc = saved
                        break
                else:
                    raise
            else:
                self.block(node.orelse)
        except (PyRaise, _Return, _Break, _Continue):
            run_finally()
            raise
        else:
            run_finally()

    def handler_matches(self, h, r):
        if h.type is None:
            return True
        names = []
        t = h.type
        elts = t.elts if isinstance(t, ast.Tuple) else [t]
        for e in elts:
            d = dotted(e)
            if d is None:
                self.unsupported(h, "except clause expression")
            names.append(d.split(".")[-1])
        return any(is_subclass(r.cls, n) for n in names)

    # ------------------------------------------------------------------ loops
    def _loop_ordinal(self):
        root = self.frame
        root.loop_no += 1
        return root.loop_no

    def s_While(self, node):
        from .loops import exec_while
        exec_while(self, node)

    def s_For(self, node):
        from .loops import exec_for
        exec_for(self, node)

    s_AsyncFor = s_For


def _is_ground_array(a):
    """K(...) possibly under stores: a literal list"""
    while z3.is_store(a):
        a = a.arg(0)
    return z3.is_K(a)


def _default(sort):
    if sort == z3.IntSort():
        return z3.IntVal(0)
    if sort == z3.BoolSort():
        return z3.BoolVal(False)
    if sort == z3.StringSort():
        return z3.StringVal("")
    return z3.Const("default!" + sort.name(), sort)
