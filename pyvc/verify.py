"""Verify one contract against the real function body: explore paths, emit obligations, discharge with z3
(cvc5 / old z3 as fall-back on `unknown`)."""
from __future__ import annotations

import ast
import os
import subprocess
import tempfile
import time
import traceback

import z3

from . import source
from .contract import Contract, Registry, spec_eval, spec_value, resolve_path
from .engine import (Ev, Frame, PathEnd, PyRaise, Run, State, Unsupported, _Return, is_subclass, _Break, _Continue)
from .values import *  # noqa

MAX_PATHS = int(os.environ.get("PYVC_MAX_PATHS", "1500"))


class ObResult:
    def __init__(self, name, kind):
        self.name = name
        self.kind = kind           # 'obligation' | 'canary' | 'reach'
        self.status = None         # discharged | refuted | undecided
        self.instances = 0
        self.ms = 0.0
        self.backend = "z3-5.1(api)"
        self.model = None
        self.note = ""
        self.line = 0
        self.reason = ""
        self.smt_size = 0
        self.smt_head = ""

    def to_json(self):
        return {k: getattr(self, k) for k in ("name", "kind", "status", "instances", "ms", "backend", "model",
                                               "note", "line", "reason", "smt_size", "smt_head")}


def split_goal(goal, depth=0):
    """VC splitting: conjunctions, boolean equalities and implications with conjunctive consequents become
    separate queries (each must be unsat).  Purely propositional, hence sound and complete."""
    if depth > 6:
        return [goal]
    if z3.is_and(goal):
        out = []
        for c in goal.children():
            out += split_goal(c, depth + 1)
        return out
    if z3.is_eq(goal) and goal.num_args() == 2 and z3.is_bool(goal.arg(0)) and not (
            z3.is_const(goal.arg(0)) and z3.is_const(goal.arg(1))):
        a, b = goal.arg(0), goal.arg(1)
        return split_goal(z3.Implies(a, b), depth + 1) + split_goal(z3.Implies(b, a), depth + 1)
    if z3.is_implies(goal):
        a, b = goal.arg(0), goal.arg(1)
        subs = split_goal(b, depth + 1)
        if len(subs) > 1:
            return [z3.Implies(a, x) for x in subs]
    return [goal]


def _mk_solver(pc, extra, timeout_ms):
    s = z3.Solver()
    s.set("timeout", timeout_ms)
    seed = int(os.environ.get("VERIF_SEED", "0") or 0) % (2 ** 30)
    if seed:
        s.set("random_seed", seed)
    for f in pc:
        s.add(f)
    s.add(extra)
    return s


QUICK_MS = int(os.environ.get("PYVC_QUICK_MS", "4000"))
NOAUX_MS = int(os.environ.get("PYVC_NOAUX_MS", "8000"))

from .engine import _has_quantifier as _has_q

_str_cache = {}
_sym_cache = {}


def _symbols(f):
    """names of the uninterpreted constants / functions occurring in a formula"""
    k = f.get_id()
    if k in _sym_cache:
        return _sym_cache[k]
    out = set()
    stack = [f]
    seen = set()
    while stack:
        e = stack.pop()
        if e.get_id() in seen:
            continue
        seen.add(e.get_id())
        if z3.is_quantifier(e):
            stack.append(e.body())
            continue
        if z3.is_app(e) and e.decl().kind() == z3.Z3_OP_UNINTERPRETED:
            out.add(e.decl().name())
        stack.extend(e.children())
    _sym_cache[k] = out
    return out


def _slices(pc, sub):
    """premise slices tried before the full query (dropping premises is sound for `unsat`)"""
    from .engine import AUX_IDS
    gs = _symbols(sub)
    a = [f for f in pc if _symbols(f) <= gs]
    if len(a) < len(pc):
        yield "goal-symbols", a
    b = [f for f in pc if _symbols(f) & gs]
    if len(a) < len(b) < len(pc):
        yield "one-step", b
    if not _mentions_strings(sub):
        c = [f for f in pc if not _mentions_strings(f)]
        if len(c) < len(pc):
            yield "string-free", c
    d = [f for f in pc if f.get_id() not in AUX_IDS]
    if len(d) < len(pc):
        yield "no-aux", d
        groups = sorted({AUX_IDS[f.get_id()] for f in pc if f.get_id() in AUX_IDS})
        if len(groups) > 1:
            for g in groups:
                yield "no-aux+" + g, [f for f in pc if AUX_IDS.get(f.get_id(), g) == g]


def _mentions_strings(f):
    """does the formula contain a term of a sequence sort? (premise slicing: z3's sequence solver stalls on
    queries whose goal does not need the string facts at all)"""
    k = f.get_id()
    if k in _str_cache:
        return _str_cache[k]
    stack = [f]
    seen = set()
    r = False
    while stack:
        e = stack.pop()
        if e.get_id() in seen:
            continue
        seen.add(e.get_id())
        try:
            if z3.is_quantifier(e):
                stack.append(e.body())
                continue
            if e.sort().kind() in (z3.Z3_SEQ_SORT, z3.Z3_RE_SORT):
                r = True
                break
            if e.sort().kind() == z3.Z3_ARRAY_SORT and e.sort().range().kind() == z3.Z3_SEQ_SORT:
                r = True
                break
        except Exception:
            pass
        stack.extend(e.children())
    _str_cache[k] = r
    return r


def _solve(pc, goal, timeout_ms, expect):
    """portfolio: z3 API (short budget) -> cvc5 binary -> z3 4.8 binary -> z3 API (full budget).
    Returns (last solver, result, ms, backend)."""
    t0 = time.time()
    if expect != "unsat":
        s = _mk_solver(pc, goal, timeout_ms)
        proc = path = None
        if any(_mentions_strings(f) for f in pc) or _mentions_strings(goal):
            # satisfiability of a string query (canary / reachability; no model needed): cvc5 runs beside z3 - it answers
            # most of them in 0.1 s where z3's sequence solver needs seconds (and z3 wins on the quantified ones)
            try:
                fd, path = tempfile.mkstemp(suffix=".smt2", prefix="pyvc_")
                os.write(fd, ("(set-logic ALL)\n" + s.to_smt2()).encode())
                os.close(fd)
                proc = subprocess.Popen(["/usr/bin/cvc5", "--strings-exp", "--tlimit=%d" % max(3000, timeout_ms), path],
                                        stdout=subprocess.PIPE, stderr=subprocess.DEVNULL, text=True)
            except Exception:
                proc = None
        try:
            r, be = "unknown", "z3-5.1(api)"
            if proc is not None:
                # give cvc5 a head start of a few hundred ms before z3 occupies this thread
                try:
                    out = proc.communicate(timeout=0.4)[0].strip().split("\n")[0]
                    if out in ("sat", "unsat"):
                        return s, out, (time.time() - t0) * 1000, "cvc5-1.0.3"
                    proc = None
                except subprocess.TimeoutExpired:
                    pass
            r = str(s.check())
            if r == "unknown" and proc is not None:
                try:
                    out = proc.communicate(timeout=max(3, timeout_ms // 1000))[0].strip().split("\n")[0]
                    if out in ("sat", "unsat"):
                        r, be = out, "cvc5-1.0.3"
                except subprocess.TimeoutExpired:
                    pass
            return s, r, (time.time() - t0) * 1000, be
        finally:
            if proc is not None and proc.poll() is None:
                proc.kill()
                try:
                    proc.communicate(timeout=2)
                except Exception:
                    pass
            if path:
                try:
                    os.unlink(path)
                except OSError:
                    pass
    backend = "z3-5.1(api)"
    last = None
    for sub in split_goal(goal):
        done = False
        for sname, sliced in _slices(pc, sub):
            ts = time.time()
            s = _mk_solver(sliced, z3.Not(sub), min(1500 if not sname.startswith("no-aux") else NOAUX_MS, timeout_ms))
            rs = str(s.check())
            if os.environ.get("PYVC_DEBUG2"):
                print("         slice %-12s %d/%d premises -> %s %.0fms   goal=%s" % (
                    sname, len(sliced), len(pc), rs, (time.time() - ts) * 1000, str(sub)[:80].replace("\n", " ")))
            if rs == "unsat":
                last = s
                done = True
                break
        if done:
            continue
        s = _mk_solver(pc, z3.Not(sub), min(QUICK_MS, timeout_ms))
        last = s
        r = str(s.check())
        if os.environ.get("PYVC_DUMP") and r == "unknown":
            os.makedirs(os.environ["PYVC_DUMP"], exist_ok=True)
            with open(os.path.join(os.environ["PYVC_DUMP"], "sub_%d.smt2" % int(time.time() * 1000 % 10**8)), "w") as fh:
                fh.write(s.to_smt2())
        if r == "unknown":
            fr, be = _fallback(s, max(5, timeout_ms // 3000))
            if fr is not None:
                r, backend = fr, backend + "+" + be if be not in backend else backend
            elif timeout_ms > QUICK_MS:
                s = _mk_solver(pc, z3.Not(sub), timeout_ms)
                last = s
                r = str(s.check())
        if r != "unsat":
            return s, r, (time.time() - t0) * 1000, backend
    return last, "unsat", (time.time() - t0) * 1000, backend


def _fallback(solver, timeout_s):
    """SMT-LIB dump -> other solver binaries; returns (result, backend) or (None, None)"""
    try:
        text = "(set-logic ALL)\n" + solver.to_smt2()
    except Exception:
        return None, None
    fd, path = tempfile.mkstemp(suffix=".smt2", prefix="pyvc_")
    os.write(fd, text.encode())
    os.close(fd)
    try:
        for cmd, name in ((["/usr/bin/cvc5", "--strings-exp", "--tlimit=%d" % (timeout_s * 1000), path], "cvc5-1.0.3"),
                          (["/usr/bin/z3", "-T:%d" % timeout_s, path], "z3-4.8.12")):
            try:
                out = subprocess.run(cmd, capture_output=True, text=True, timeout=timeout_s + 5).stdout.strip().split("\n")[0]
            except Exception:
                continue
            if out in ("sat", "unsat"):
                return out, name
        return None, None
    finally:
        os.unlink(path)


def _smt2(pc, extra):
    s = z3.Solver()
    for f in pc:
        s.add(f)
    s.add(extra)
    return "(set-logic ALL)\n" + s.to_smt2()


def prepare_queries(ob):
    """all query texts of one obligation instance, generated in the main thread (z3 objects are not shared
    between threads): [ [ (label, smt2) ... in portfolio order ] per sub-goal ]"""
    plans = []
    for sub in split_goal(ob.goal):
        neg = z3.Not(sub)
        variants = [(sname, _smt2(sliced, neg)) for sname, sliced in _slices(ob.pc, sub)]
        variants.append(("full", _smt2(ob.pc, neg)))
        plans.append(variants)
    return plans


def _run_cli(cmd, text, wall):
    fd, path = tempfile.mkstemp(suffix=".smt2", prefix="pyvc_")
    os.write(fd, text.encode())
    os.close(fd)
    try:
        out = subprocess.run(cmd + [path], capture_output=True, text=True, timeout=wall).stdout.strip().split("\n")[0]
    except Exception:
        out = "unknown"
    finally:
        os.unlink(path)
    return out if out in ("sat", "unsat") else "unknown"


def _race(cmds, text, stagger=0.3):
    """run several solver binaries on the same query; the first sat/unsat wins, the others are killed.
    cmds: [(argv, backend name, wall seconds)] in order of preference: the k-th one is only started when the earlier
    ones have not answered after k * stagger seconds (most queries are answered by the first solver in milliseconds, so
    the second process is rarely started at all).  Returns (result, backend)."""
    fd, path = tempfile.mkstemp(suffix=".smt2", prefix="pyvc_")
    os.write(fd, text.encode())
    os.close(fd)
    procs = []
    try:
        t0 = time.time()
        todo = list(enumerate(cmds))
        live = []
        while todo or live:
            now = time.time() - t0
            while todo and now >= todo[0][0] * stagger:
                k, (argv, name, wall) = todo.pop(0)
                try:
                    pr = subprocess.Popen(argv + [path], stdout=subprocess.PIPE, stderr=subprocess.DEVNULL, text=True)
                    procs.append(pr)
                    live.append((pr, name, wall, time.time()))
                except Exception:
                    pass
            for item in list(live):
                pr, name, wall, started = item
                rc = pr.poll()
                if rc is not None:
                    live.remove(item)
                    try:
                        out = (pr.stdout.read() or "").strip().split("\n")[0]
                    except Exception:
                        out = ""
                    if out in ("sat", "unsat"):
                        return out, name
                elif time.time() - started > wall:
                    pr.kill()
                    live.remove(item)
            if not live and todo:
                # everything started so far has given up: start the next one now
                k, c = todo.pop(0)
                todo.insert(0, (0, c))
                t0 = time.time()
                continue
            if live or todo:
                time.sleep(0.005)
        return "unknown", cmds[-1][1]
    finally:
        for pr in procs:
            if pr.poll() is None:
                try:
                    pr.kill()
                except Exception:
                    pass
            try:
                pr.wait(timeout=2)
                pr.stdout.close()
            except Exception:
                pass
        os.unlink(path)


def solve_plans(plans, timeout_ms):
    """portfolio over solver binaries (runs in a worker thread; only strings are touched).
    Returns (result, backend, ms)."""
    t0 = time.time()
    backends = set()
    tsec = max(3, timeout_ms // 3000)
    for variants in plans:
        done = False
        for label, text in variants[:-1]:
            ms = 1500 if not label.startswith("no-aux") else min(NOAUX_MS, timeout_ms)
            ms5 = max(ms, 3000)     # cvc5 decides several quantified string slices in 1.6 .. 2.5 s that z3 never does
            r, be = _race([(["z3-new", "-t:%d" % ms], "z3-5.1", 10 + ms // 1000),
                           (["/usr/bin/cvc5", "--strings-exp", "--tlimit=%d" % ms5], "cvc5-1.0.3", 10 + ms5 // 1000)], text)
            if r == "unsat":
                backends.add(be)
                done = True
                break
        if done:
            continue
        full = variants[-1][1]
        r, be = _race([(["z3-new", "-t:%d" % min(QUICK_MS, timeout_ms)], "z3-5.1", 10 + QUICK_MS // 1000),
                       (["/usr/bin/cvc5", "--strings-exp", "--tlimit=%d" % (tsec * 1000)], "cvc5-1.0.3", tsec + 5)], full)
        if r == "unknown":
            r = _run_cli(["/usr/bin/z3", "-T:%d" % tsec], full, tsec + 5)
            be = "z3-4.8.12"
        if r == "unknown" and timeout_ms > QUICK_MS:
            r = _run_cli(["z3-new", "-t:%d" % timeout_ms], full, timeout_ms // 1000 + 10)
            be = "z3-5.1"
        backends.add(be)
        if r != "unsat":
            return r, "+".join(sorted(backends)), (time.time() - t0) * 1000
    return "unsat", "+".join(sorted(backends)) or "z3-5.1", (time.time() - t0) * 1000


def _model_values(model, watch):
    out = {}
    for name, term in watch.items():
        try:
            v = model.eval(term, model_completion=True)
            if z3.is_int_value(v):
                out[name] = v.as_long()
            elif z3.is_string_value(v):
                out[name] = py_string(v)
            elif z3.is_true(v) or z3.is_false(v):
                out[name] = z3.is_true(v)
            else:
                out[name] = str(v)
        except Exception:
            pass
    return out


def watch_terms(ev, env, ghosts, maxlist=8):
    """terms whose model values describe the inputs (for replay)"""
    st = ev.st
    watch = {}

    def add(prefix, v, depth=0):
        if isinstance(v, (VInt, VBool, VStr)):
            watch[prefix] = v.t
        elif isinstance(v, VTuple):
            for i, it in enumerate(v.items):
                add("%s[%d]" % (prefix, i), it, depth)
        elif isinstance(v, VNone):
            watch[prefix] = z3.StringVal("<None>")
        elif isinstance(v, VOpt):
            watch[prefix + "?none"] = v.n
            add(prefix, v.val, depth)
        elif isinstance(v, VRef) and depth < 3:
            o = st.old_heap.get(v.oid) if st.old_heap else st.obj(v)
            if o is None:
                return
            if isinstance(o, ListObj) and o.etype is not None:
                watch[prefix + ".len"] = o.length
                for i in range(maxlist):
                    add("%s[%d]" % (prefix, i), ev.list_get(o, z3.IntVal(i)), depth + 1)
            elif isinstance(o, Obj):
                for k, f in o.fields.items():
                    add("%s.%s" % (prefix, k), f, depth + 1)
            elif isinstance(o, DictObj):
                for k, f in o.items.items():
                    if isinstance(f, V):
                        add("%s[%r]" % (prefix, k), f, depth + 1)
                    elif hasattr(f, "present"):
                        watch["%s.has[%r]" % (prefix, k)] = f.present
                        add("%s[%r]" % (prefix, k), f.value, depth + 1)

    for k, v in env.items():
        add(k, v)
    for k, v in ghosts.items():
        add(k, v)
    return watch


def verify_contract(contract: Contract, registry: Registry, timeout_ms=30000, log=None, refute=None, only=None):
    """returns dict(results=[ObResult...], paths=int, undecided_paths=[reasons], sha=...)"""
    t_start = time.time()
    if contract.lemmas:
        return verify_lemmas(contract, registry, timeout_ms)
    fdef = source.find_def(contract.file, contract.qualname)
    sha = source.source_sha(contract.file, fdef)
    results = {}
    seen_keys = set()
    undecided_paths = []
    worklist = [[]]
    n_paths = 0
    solver_ms = 0.0
    reach_done = False
    tmo = contract.timeout_ms or timeout_ms
    outcomes = {"normal": 0, "raise": {}}
    parallel = refute is None and not os.environ.get("PYVC_SERIAL") and not os.environ.get("PYVC_DUMP")
    pending = []

    def record(ob, watch):
        nonlocal solver_ms
        kind = "obligation" if ob.expect == "unsat" else ("reach" if "/reach." in ob.name else "canary")
        if only is not None and kind == "obligation" and ob.name not in only:
            return
        res = results.get(ob.name)
        if res is None:
            res = results[ob.name] = ObResult(ob.name, kind)
            res.note, res.line = ob.note, ob.line
        res.instances += 1
        if res.status in ("refuted", "undecided", "candidate") and kind == "obligation":
            return   # one failing path instance decides the status; do not burn more solver budget
        if kind != "obligation" and res.status in ("refuted", "reachable"):
            return
        if kind == "canary" and res.instances > 24:
            return   # a few path instances are enough to exercise the refutation path
        solver, r, ms, be = _solve(ob.pc, ob.goal, tmo if kind == "obligation" else min(tmo, 3000), ob.expect)
        candidate = False
        if refute is not None and r == "unknown":
            # bounded refuter: look for a candidate counter-model with the quantifier-free premises only.  Such a
            # model may be spurious (premises were dropped); it only supplies inputs for the native replay, which
            # decides.  It is never counted as a refutation by itself.
            qf = [f for f in ob.pc if not _has_q(f)]
            s2 = _mk_solver(qf, z3.Not(ob.goal) if ob.expect == "unsat" else ob.goal, min(tmo, 5000))
            if str(s2.check()) == "sat":
                solver, r, candidate = s2, "sat", True
        if be != "z3-5.1(api)":
            res.backend = be
        if os.environ.get("PYVC_DEBUG"):
            print("      %-45s #%d %-8s %7.0fms %s" % (ob.name, res.instances, r, ms, be))
        if os.environ.get("PYVC_DUMP"):
            os.makedirs(os.environ["PYVC_DUMP"], exist_ok=True)
            fn = os.path.join(os.environ["PYVC_DUMP"], "%s.%d.%s.smt2" % (ob.name.replace("/", "_"), res.instances, r))
            with open(fn, "w") as fh:
                fh.write(solver.to_smt2())
        solver_ms += ms
        res.ms += ms
        if not res.smt_head:
            try:
                txt = solver.to_smt2()
                res.smt_size = len(txt)
                res.smt_head = "\n".join(txt.split("\n")[-6:])[:600]
            except Exception:
                pass
        if kind == "obligation":
            if r == "unsat":
                if res.status is None:
                    res.status = "discharged"
            elif r == "sat":
                res.status = "candidate" if candidate else "refuted"
                try:
                    res.model = _model_values(solver.model(), watch)
                except Exception:
                    res.model = None
            else:
                if res.status in (None, "discharged"):
                    res.status = "undecided"
                    res.reason = "solver: unknown/timeout"
        else:
            # canary: a deliberately false clause; it must be refuted (sat for pc & not goal) on some path
            if r == "sat":
                res.status = "refuted" if kind == "canary" else "reachable"
                try:
                    res.model = _model_values(solver.model(), watch)
                except Exception:
                    res.model = None
            elif kind == "canary":
                if r == "unsat" and res.status in (None, "dead"):
                    res.status = "dead"
                else:
                    res.status = "not-refuted"
            elif res.status is None:
                res.status = "unreachable" if r == "unsat" else "reach-unknown"

    while worklist:
        script = worklist.pop()
        n_paths += 1
        if n_paths > MAX_PATHS:
            undecided_paths.append("path limit %d reached" % MAX_PATHS)
            break
        run = Run(script, None)
        run.lazy_opt = bool(getattr(contract, "lazy_opt", False))
        if refute is not None:
            run.refute = True
            run.bound = refute.get("bound", 2)
            run.unroll = refute.get("unroll", 4)
        st = State(run)
        st.old_ghost = {}
        frame = Frame(contract, contract.file, contract.cls, {}, fn=fdef)
        ev = Ev(st, frame, registry)
        watch = {}
        outcome = None
        try:
            # parameters and ghosts
            for name, t in contract.params.items():
                frame.env[name] = st.fresh(t, name)
            for name, t in contract.ghosts.items():
                st.ghost[name] = st.fresh(t, name)
            # default values for parameters not declared: evaluate the default expression
            declared = set(frame.env)
            allargs = fdef.args.posonlyargs + fdef.args.args + fdef.args.kwonlyargs
            for a in allargs:
                if a.arg not in declared:
                    raise Unsupported("parameter %s of %s has no declared type in the contract" % (a.arg, contract.id))
            if contract.setup is not None:
                contract.setup(ev)
            for ax in contract.axioms:
                st.assume(spec_eval(ev, ax))
            for r in contract.requires:
                st.assume(spec_eval(ev, r))
            st.old_heap = st.snapshot_heap()
            st.old_ghost = dict(st.ghost)
            frame.old_env = dict(frame.env)
            watch = watch_terms(ev, frame.old_env, st.old_ghost)
            if contract.watch_extra is not None:
                watch.update(contract.watch_extra(ev))
            if not reach_done:
                reach_done = True
                st.oblige(contract.id + "/reach.requires", z3.BoolVal(True), expect="sat",
                          note="the preconditions (requires, axioms, stubs' assumptions at entry) are satisfiable")
            try:
                ev.block(fdef.body)
                outcome = ("normal", NONE)
            except _Return as r:
                outcome = ("normal", r.value)
            except PyRaise as r:
                outcome = ("raise", r)
            except (_Break, _Continue):
                raise Unsupported("break/continue outside loop")
            if outcome[0] == "normal":
                outcomes["normal"] += 1
                if refute is None:
                    # vacuity guard: a normal-return path whose path condition is provably inconsistent is dead
                    sq = _mk_solver(st.pc, z3.BoolVal(True), 800)
                    if str(sq.check()) == "unsat":
                        outcomes["dead_normal"] = outcomes.get("dead_normal", 0) + 1
                result = outcome[1]
                extra = {"result": result}
                eframe = Frame(contract, contract.file, contract.cls, dict(frame.old_env), fn=fdef)
                if getattr(contract, "post_vars", ()):
                    # variables of an enclosing function that the (nested) function under contract re-binds with
                    # `nonlocal`: in a postcondition their name denotes the FINAL value, old(name) the entry value
                    eframe.old_env = dict(frame.old_env)
                    for pv in contract.post_vars:
                        if pv in frame.env:
                            eframe.env[pv] = frame.env[pv]
                for name, text in contract.ensures.items():
                    f = spec_eval(ev, text, extra, frame=eframe)
                    st.oblige("%s/ens.%s" % (contract.id, name), f, note=text)
                if refute is not None and contract.ensures:
                    st.oblige("%s/canary.normal_return_reachable" % contract.id, z3.BoolVal(True), expect="sat",
                              note="automatic vacuity guard: some concrete input reaches a normal return")
                if refute is not None:
                    # canaries (deliberately false clauses) are decided by the bounded refuter only: a model
                    # of a quantified query is not something the unbounded provers return reliably
                    for name, text in contract.canaries.items():
                        f = spec_eval(ev, text, extra, frame=eframe)
                        st.oblige("%s/canary.%s" % (contract.id, name), z3.Not(f), expect="sat", note=text)
                if contract.frame_check:
                    frame_obligations(ev, contract, frame.old_env)
            else:
                r = outcome[1]
                outcomes["raise"][r.cls] = outcomes["raise"].get(r.cls, 0) + 1
                allowed = [e for e in contract.raises if is_subclass(r.cls, e)]
                eframe = Frame(contract, contract.file, contract.cls, dict(frame.old_env), fn=fdef)
                if not allowed:
                    st.oblige("%s/noraise.%s" % (contract.id, r.cls), z3.BoolVal(False), line=r.where or 0,
                              note="%s must not escape (raised at line %s)" % (r.cls, r.where))
                else:
                    e = allowed[0]
                    cond = contract.raises[e]
                    if cond not in (None, True):
                        saved = (st.heap, st.ghost)
                        st.heap, st.ghost = st.old_heap, st.old_ghost
                        try:
                            f = spec_eval(ev, cond, frame=eframe)
                        finally:
                            st.heap, st.ghost = saved
                        st.oblige("%s/raises.%s.cond" % (contract.id, e), f, note=cond, line=r.where or 0)
                    xt = contract.raises_ensures.get(e) or {}
                    for k, text in enumerate(xt.get("ensures", [])):
                        payload = r.payload if r.payload is not None else NONE
                        f = spec_eval(ev, text, {"exc": payload}, frame=eframe)
                        st.oblige("%s/raises.%s.ens%d" % (contract.id, e, k + 1), f, note=text, line=r.where or 0)
                    if contract.frame_check:
                        frame_obligations(ev, contract, frame.old_env)
        except PathEnd as pe:
            if os.environ.get("PYVC_DEBUG"):
                print("   [path %d] ends: %s script=%s" % (n_paths, pe, run.script))
        except Unsupported as u:
            undecided_paths.append(str(u))
        except z3.Z3Exception as ze:
            if os.environ.get("PYVC_DEBUG"):
                traceback.print_exc()
            undecided_paths.append("z3 exception: %s" % ze)
        worklist.extend(run.alternatives)
        if refute is not None and only is not None and not only:
            # canary-only run: stop as soon as every canary is decided (refuted) or has had enough attempts
            cans = [r_ for r_ in results.values() if r_.kind == "canary"]
            want = set(contract.canaries) | ({"normal_return_reachable"} if contract.ensures else set())
            have = {r_.name.split("/canary.")[-1] for r_ in cans}
            if cans and want <= have and all(r_.status == "refuted" or r_.instances > 24 for r_ in cans):
                for ob in run.obligations:
                    if ob.key not in seen_keys:
                        seen_keys.add(ob.key)
                        record(ob, watch)
                cans = [r_ for r_ in results.values() if r_.kind == "canary"]
                if all(r_.status == "refuted" or r_.instances > 24 for r_ in cans):
                    worklist = []
        if os.environ.get("PYVC_DEBUG"):
            print("   [path %d] outcome=%s script=%s obligations=%d t=%.1fs" % (
                n_paths, outcome and outcome[0], run.script, len(run.obligations), time.time() - t_start))
        for ob in run.obligations:
            if ob.key in seen_keys:
                continue
            seen_keys.add(ob.key)
            if parallel and ob.expect == "unsat":
                if only is not None and ob.name not in only:
                    continue
                try:
                    pending.append((ob, watch, prepare_queries(ob)))
                except z3.Z3Exception as ze:
                    undecided_paths.append("z3 exception while dumping %s: %s" % (ob.name, ze))
            else:
                record(ob, watch)

    if pending:
        import concurrent.futures as _cf
        with _cf.ThreadPoolExecutor(max_workers=int(os.environ.get("PYVC_SOLVER_JOBS", "6"))) as ex:
            refuted_names = set()

            def _task(name, plans):
                # one counterexample decides an obligation: further instances of a name that is already refuted are
                # not solved (a changed tree otherwise spends the whole portfolio on every path)
                if name in refuted_names:
                    return "skipped", "-", 0.0
                out = solve_plans(plans, tmo)
                if out[0] == "sat":
                    refuted_names.add(name)
                return out
            futs = [ex.submit(_task, ob.name, plans) for ob, _, plans in pending]
            outs = [f.result() for f in futs]
        for (ob, watch, plans), (r, be, ms) in zip(pending, outs):
            if r == "skipped":
                continue
            res = results.get(ob.name)
            if res is None:
                res = results[ob.name] = ObResult(ob.name, "obligation")
                res.note, res.line = ob.note, ob.line
            res.instances += 1
            res.ms += ms
            solver_ms += ms
            res.backend = be if res.backend in ("z3-5.1(api)", be) else res.backend + "," + be
            if not res.smt_head:
                txt = plans[-1][-1][1]
                res.smt_size = len(txt)
                res.smt_head = "\n".join(txt.split("\n")[-6:])[:600]
            if r == "unsat":
                if res.status is None:
                    res.status = "discharged"
            elif r == "sat":
                if res.status != "refuted":
                    res.status = "refuted"
                    s2 = _mk_solver(ob.pc, z3.Not(ob.goal), 5000)
                    try:
                        if str(s2.check()) == "sat":
                            res.model = _model_values(s2.model(), watch)
                    except Exception:
                        res.model = None
            else:
                if res.status in (None, "discharged"):
                    res.status = "undecided"
                    res.reason = "solver: unknown/timeout"

    # declared outcomes must be reachable (vacuity guard): normal return unless the contract says otherwise
    out = {
        "contract": contract.id, "file": contract.file, "qualname": contract.qualname, "sha256": sha,
        "paths": n_paths, "undecided_paths": sorted(set(undecided_paths)),
        "results": [r.to_json() for r in results.values()],
        "solver_ms": solver_ms, "wall_s": time.time() - t_start, "outcomes": outcomes,
        "mode": "prove" if refute is None else "refute(bound=%d,unroll=%d)" % (refute.get("bound", 2), refute.get("unroll", 4)),
    }
    return out


def verify_lemmas(contract, registry, timeout_ms):
    """a contract without a body: named lemmas over constants read from the real source (e.g. the convertor
    regexes) or over other contracts.  Each lemma is a callable(ev) -> z3 Bool, discharged like any obligation."""
    import hashlib
    t0 = time.time()
    m = source.module(contract.file)
    sha = hashlib.sha256(m.src.encode()).hexdigest()
    results = []
    solver_ms = 0.0
    undecided = []
    for name, fn in contract.lemmas.items():
        res = ObResult("%s/lemma.%s" % (contract.id, name), "obligation")
        run = Run([], None)
        st = State(run)
        st.old_ghost = {}
        frame = Frame(contract, contract.file, contract.cls, {})
        ev = Ev(st, frame, registry)
        try:
            goal = fn(ev)
            note = getattr(fn, "note", "")
            res.note = note
            s_ = _mk_solver(st.pc, z3.Not(goal), timeout_ms)
            t1 = time.time()
            r = str(s_.check())
            if r == "unknown":
                fr, be = _fallback(s_, max(5, timeout_ms // 2000))
                if fr:
                    r, res.backend = fr, be
            res.ms = (time.time() - t1) * 1000
            solver_ms += res.ms
            res.instances = 1
            txt = s_.to_smt2()
            res.smt_size, res.smt_head = len(txt), "\n".join(txt.split("\n")[-6:])[:600]
            if r == "unsat":
                res.status = "discharged"
            elif r == "sat":
                res.status = "refuted"
                wt = getattr(fn, "watch", None)
                res.model = _model_values(s_.model(), wt(ev) if wt else {})
            else:
                res.status, res.reason = "undecided", "solver: unknown"
        except Unsupported as u:
            res.status, res.reason = "undecided", str(u)
            undecided.append(str(u))
        results.append(res.to_json())
    return {"contract": contract.id, "file": contract.file, "qualname": contract.qualname, "sha256": sha, "paths": len(results),
            "undecided_paths": undecided, "results": results, "solver_ms": solver_ms, "wall_s": time.time() - t0,
            "outcomes": {"normal": len(results), "raise": {}}, "mode": "lemmas"}


def frame_obligations(ev, contract, old_env):
    """everything reachable from the parameters that is not listed in `modifies` must be unchanged"""
    st = ev.st
    mod_objs = set()
    mod_fields = set()
    for p in contract.modifies:
        try:
            parent, cur = resolve_path(ev, dict(old_env), p)
        except Unsupported:
            continue
        if isinstance(cur, VRef):
            mod_objs.add(cur.oid)
        if parent is not None:
            mod_fields.add((id(parent[0]), parent[1]))
    seen = set()

    def walk(path, v, depth):
        if not isinstance(v, VRef) or v.oid in seen or depth > 4:
            return
        seen.add(v.oid)
        if v.oid in mod_objs:
            return
        new = st.heap.get(v.oid)
        old = st.old_heap.get(v.oid)
        if new is None or old is None:
            return
        if isinstance(new, ListObj):
            if v.oid in mod_objs:
                return
            if new.length is old.length and all(a is b for a, b in zip(new.cols, old.cols)):
                return
            k = z3.Int(st.run.fresh_name("frk"))
            f = z3.And(new.length == old.length, z3.ForAll([k], z3.Implies(
                z3.And(0 <= k, k < old.length), z3.And([a[k] == b[k] for a, b in zip(new.cols, old.cols)] + [z3.BoolVal(True)]))))
            st.oblige("%s/frame.%s" % (contract.id, path), f, note="%s is not in modifies" % path)
        elif isinstance(new, MapObj):
            if v.oid in mod_objs:
                return
            if new.has is old.has and all(a is b for a, b in zip(new.val, old.val)):
                return
            ks = leaf_sorts(new.ktype)[0]
            k = z3.Const(st.run.fresh_name("frk"), ks)
            f = z3.ForAll([k], z3.And(new.has[k] == old.has[k], z3.Implies(
                old.has[k], z3.And([a[k] == b[k] for a, b in zip(new.val, old.val)] + [z3.BoolVal(True)]))))
            st.oblige("%s/frame.%s" % (contract.id, path), f, note="%s is not in modifies" % path)
        elif isinstance(new, (Obj, DictObj)):
            nf = new.fields if isinstance(new, Obj) else new.items
            of = old.fields if isinstance(old, Obj) else old.items
            for k in set(nf) | set(of):
                a, b = nf.get(k), of.get(k)
                sub = "%s.%s" % (path, k)
                if sub in contract.modifies:
                    continue
                if a is b:
                    walk(sub, a, depth + 1)
                    continue
                if not isinstance(a, V) or not isinstance(b, V):
                    if a is not b:
                        st.oblige("%s/frame.%s" % (contract.id, sub), z3.BoolVal(False),
                                  note="%s added/removed but not in modifies" % sub)
                    continue
                if isinstance(a, VRef) and isinstance(b, VRef) and a.oid == b.oid:
                    walk(sub, a, depth + 1)
                    continue
                try:
                    f = ev.eq(a, b)
                except Unsupported:
                    f = z3.BoolVal(False)
                st.oblige("%s/frame.%s" % (contract.id, sub), f, note="%s is not in modifies" % sub)

    for name, v in old_env.items():
        walk(name, v, 0)
