"""Models of built-in functions, operators on symbolic values, call dispatch."""
from __future__ import annotations

import ast

import z3

from . import source
from .engine import (Ev, Frame, PathEnd, PyRaise, Unsupported, _Break, _Continue, _Return, dotted, mk_quant,
                     BUILTIN_EXC, is_subclass)
from .values import *  # noqa

BUILTINS = {}


def builtin(name):
    def deco(f):
        BUILTINS[name] = f
        f.mods = ()
        return f
    return deco


# --------------------------------------------------------------------------- uninterpreted helpers
_funcs = {}


def ufunc(name, *sorts):
    key = (name,) + tuple(str(s) for s in sorts)
    if key not in _funcs:
        _funcs[key] = z3.Function(name, *sorts)
    return _funcs[key]


S = z3.StringSort()
I = z3.IntSort()
Bz = z3.BoolSort()

DIGITS = z3.Plus(z3.Range("0", "9"))
INT_RE = z3.Union(DIGITS, z3.Concat(z3.Re("-"), DIGITS))


def pystr_int(ev, t):
    """str(n) for an int: canonical decimal numeral (A-int-1).  Non-negative: z3's int.to.str; the sign is
    prepended for negatives."""
    s = z3.simplify(t)
    if z3.is_int_value(s):
        return z3.StringVal(str(s.as_long()))
    f = ufunc("pystr_int", I, S)
    r = f(t)
    key = ("pystr", t.get_id())
    if key not in ev.st.run.counters:
        ev.st.run.counters[key] = 1
        inv = ufunc("pyint_of_str", S, I)
        ev.st.assume(inv(r) == t)                       # injective
        ev.st.assume(z3.Length(r) >= 1)
        ev.st.assume(z3.InRe(r, INT_RE))
        for ch in ("\n", "\r", "\0"):   # direct consequences of the numeral shape (saves the solver a regex argument)
            ev.st.assume(z3.Not(z3.Contains(r, z3.StringVal(ch))))
        ev.st.assume(z3.Implies(t >= 0, z3.And(z3.Length(r) == declen(t))))
        ev.st.assume(z3.Implies(t >= 0, z3.InRe(r, DIGITS)))          # no sign for a non-negative number
        ev.st.assume(z3.And(int_ok(r), int_of(r) == t))              # int(str(n)) == n
    return r


def declen(t):
    """number of decimal digits of a non-negative int (uninterpreted, >= 1, monotone facts added on demand)"""
    return ufunc("declen", I, I)(t)


def str_of(ev, v, node=None):
    if isinstance(v, VStr):
        if v.isbytes:
            raise Unsupported("str() of bytes")
        return v
    if isinstance(v, VInt):
        return VStr(pystr_int(ev, v.t))
    if isinstance(v, VBool):
        return VStr(z3.If(v.t, z3.StringVal("True"), z3.StringVal("False")))
    if isinstance(v, VNone):
        return VStr("None")
    if isinstance(v, VOpaque):
        return VStr(ufunc("str_of_" + v.sort, opaque_sort(v.sort), S)(v.t))
    if isinstance(v, VRef):
        o = ev.st.obj(v)
        if isinstance(o, Obj):
            m = ev.registry.str_model(o.cls) if ev.registry else None
            if m:
                return m(ev, v)
            r = call_method(ev, v, "__str__", [], {}, node)
            return r
    raise Unsupported("str() of %r" % (v,))


def repr_of(ev, v, node=None):
    if isinstance(v, VStr) and not v.isbytes:
        return VStr(ufunc("repr_str", S, S)(v.t))
    if isinstance(v, VInt):
        return str_of(ev, v)
    raise Unsupported("repr() of %r" % (v,))


def str_lower(ev, t):
    s = z3.simplify(t)
    if z3.is_string_value(s):
        return z3.StringVal(py_string(s).lower())
    f = ufunc("str_lower", S, S)
    r = f(t)
    key = ("lower", t.get_id())
    if key not in ev.st.run.counters:
        ev.st.run.counters[key] = 1
        ev.st.assume(f(r) == r)  # idempotent (A-lower)
        for ch in ("\n", "\r", "\0"):
            ev.st.assume(z3.Contains(r, z3.StringVal(ch)) == z3.Contains(t, z3.StringVal(ch)))
    return r


# --------------------------------------------------------------------------- attribute / item access
def getattr_(ev: Ev, base, attr, node):
    st = ev.st
    if isinstance(base, VRef):
        o = st.obj(base)
        if isinstance(o, Obj):
            if attr in o.fields:
                return o.fields[attr]
            if attr == "__class__":
                return VClass(o.cls)      # (the declared class of the object: subclasses are not modelled)
            # property / method / class attribute of a repo class
            r = ev.registry.resolve_attr(ev, base, o, attr, node) if ev.registry else None
            if r is not None:
                return r
            return VFunc("bound", (base, attr), attr)
        return VFunc("bound", (base, attr), attr)
    if isinstance(base, VGlobal):
        if base.name == "os" and attr == "sep":
            return VStr("/")      # POSIX (A-posix)
        return VGlobal(base.name + "." + attr)
    if isinstance(base, VClass):
        if attr == "__name__":
            return VStr(base.name.split(":")[-1])
        if ":" in base.name:
            rel, cn = base.name.split(":")
            rc = source.resolve_class(rel, cn)
            if rc is not None and any((isinstance(b, ast.Attribute) and b.attr == "Enum") or
                                      (isinstance(b, ast.Name) and b.id == "Enum") for b in rc[1].bases):
                # enum members are modelled as their declaration ordinal (only ever compared with each other)
                members = [t.id for d in rc[1].body if isinstance(d, ast.Assign) for t in d.targets if isinstance(t, ast.Name)]
                if attr in members:
                    return VInt(members.index(attr) + 1)
            r = source.find_method(rel, cn, attr)
            if r is not None:
                return VFunc("method", (r[0], r[1], None, base), attr)
            ca = source.class_attr(rel, cn, attr)
            if ca is not None:
                fr = Frame(ev.frame.root().contract, ca[0], cn, {})
                e2 = Ev(st, fr, ev.registry, pure=True)
                e2.spec = True
                return e2.expr(ca[1])
        return VGlobal(base.name + "." + attr)
    if isinstance(base, (VStr, VTuple, VInt)):
        return VFunc("bound", (base, attr), attr)
    if isinstance(base, VOpaque):
        am = ev.registry.opaque_attr(base.sort, attr) if ev.registry else None
        if am is not None:
            return am(ev, base)
        return VFunc("bound", (base, attr), attr)
    if isinstance(base, VFunc) and attr == "__name__":
        return VStr(base.name)
    if isinstance(base, VNone):
        ev.require(False, "AttributeError", node)
        raise Unsupported("unconditional failure in a pure context: attribute %s of None (%s line %s)" % (
            attr, ev.frame.relpath, getattr(node, "lineno", "?")))
    ev.unsupported(node, "attribute %s of %r" % (attr, base))


def setattr_(ev: Ev, base, attr, v, node):
    if isinstance(base, VRef):
        o = ev.st.obj(base)
        if isinstance(o, Obj):
            o.fields[attr] = v
            return
    ev.unsupported(node, "attribute store on %r" % (base,))


def const_str(v):
    if isinstance(v, VStr):
        s = z3.simplify(v.t)
        if z3.is_string_value(s):
            return py_string(s)
    return None


def index(ev: Ev, base, idx, node):
    st = ev.st
    if isinstance(base, VTuple):
        if isinstance(idx, VInt):
            s = z3.simplify(idx.t)
            if z3.is_int_value(s):
                i = s.as_long()
                if -len(base.items) <= i < len(base.items):
                    return base.items[i]
                ev.require(False, "IndexError", node)
                raise Unsupported("unconditional failure in a pure context: tuple index")
            # symbolic index into a homogeneous tuple
            res = base.items[-1]
            for k in range(len(base.items) - 2, -1, -1):
                res = ev.ite(idx.t == k, base.items[k], res)
            ev.require(z3.And(idx.t >= 0, idx.t < len(base.items)), "IndexError", node)
            return res
    if isinstance(base, VStr) and isinstance(idx, VInt):
        n = z3.Length(base.t)
        i = ev.norm_index(idx.t, n)
        ev.require(z3.And(i >= 0, i < n), "IndexError", node)
        if base.isbytes:
            return VInt(z3.StrToCode(z3.SubString(base.t, i, 1)))
        return VStr(z3.SubString(base.t, i, 1))
    if isinstance(base, VRef):
        o = st.obj(base)
        if isinstance(o, ListObj) and isinstance(idx, VInt):
            i = ev.norm_index(idx.t, o.length)
            ev.require(z3.And(i >= 0, i < o.length), "IndexError", node)
            if o.etype is None:
                raise Unsupported("unconditional failure in a pure context: index into empty list")
            return ev.list_get(o, i)
        if isinstance(o, DictObj):
            k = const_str(idx)
            if k is None and isinstance(idx, VStr) and not ev.pure and all(isinstance(x, V) for x in o.items.values()):
                # symbolic key into a literal dict: one branch per key, KeyError otherwise
                for kk, vv in o.items.items():
                    if st.decide(idx.t == z3.StringVal(kk)):
                        return vv
                ev.require(False, "KeyError", node)
            if k is None:
                ev.unsupported(node, "non-constant key into a concrete-key dict")
            undeclared_read(ev, o, k, node)
            if k in o.items and o.items[k] is not ABSENT:
                v = o.items[k]
                if isinstance(v, Maybe):
                    ev.require(v.present, "KeyError", node)
                    return v.value
                return v
            ev.require(False, "KeyError", node)
            raise Unsupported("unconditional failure in a pure context: missing key")
        if isinstance(o, MapObj):
            kl = unpack(idx)[0]
            ev.require(o.has[kl], "KeyError", node)
            v, _ = pack(o.vtype, [a[kl] for a in o.val])
            return v
        if isinstance(o, Obj):
            return call_method(ev, base, "__getitem__", [idx], {}, node)
    if isinstance(base, VOpaque):
        im = ev.registry.opaque_index(base.sort) if ev.registry else None
        if im is not None:
            return im(ev, base, idx, node)
    ev.unsupported(node, "subscript %r[%r]" % (base, idx))


class Maybe:
    """a dict entry that may be absent: (present: z3 Bool, value)"""

    def __init__(self, present, value):
        self.present = present
        self.value = value


ABSENT = object()


def setitem(ev: Ev, base, idx, v, node):
    st = ev.st
    if isinstance(base, VRef):
        o = st.obj(base)
        if isinstance(o, ListObj) and isinstance(idx, VInt):
            i = ev.norm_index(idx.t, o.length)
            ev.require(z3.And(i >= 0, i < o.length), "IndexError", node)
            ev.list_set(o, i, v)
            return
        if isinstance(o, DictObj):
            k = const_str(idx)
            if k is None:
                ev.unsupported(node, "non-constant key store into a concrete-key dict")
            o.items[k] = v
            return
        if isinstance(o, MapObj):
            kl = unpack(idx)[0]
            o.has = z3.Store(o.has, kl, z3.BoolVal(True))
            for ci, leaf in enumerate(unpack(v)):
                o.val[ci] = z3.Store(o.val[ci], kl, leaf)
            return
        if isinstance(o, Obj):
            call_method(ev, base, "__setitem__", [idx, v], {}, node)
            return
    ev.unsupported(node, "item store on %r" % (base,))


def delitem(ev: Ev, base, idx, node):
    st = ev.st
    if isinstance(base, VRef):
        o = st.obj(base)
        if isinstance(o, ListObj) and isinstance(idx, VInt):
            i = ev.norm_index(idx.t, o.length)
            ev.require(z3.And(i >= 0, i < o.length), "IndexError", node)
            ev.list_delete(o, i)
            return
        if isinstance(o, MapObj):
            kl = unpack(idx)[0]
            ev.require(o.has[kl], "KeyError", node)
            o.has = z3.Store(o.has, kl, z3.BoolVal(False))
            return
        if isinstance(o, DictObj):
            k = const_str(idx)
            if k is not None and k in o.items:
                del o.items[k]
                return
        if isinstance(o, Obj):
            call_method(ev, base, "__delitem__", [idx], {}, node)
            return
    ev.unsupported(node, "del item on %r" % (base,))


def delslice(ev, base, lo, hi, node):
    hook = ev.registry.delslice_model(ev, base) if ev.registry else None
    if hook is not None:
        return hook(ev, base, lo, hi, node)
    ev.unsupported(node, "del of a slice")


def slice_(ev: Ev, base, lo, hi, node):
    if isinstance(base, VStr):
        n = z3.Length(base.t)

        def clamp(v, default):
            if v is None:
                return default
            if isinstance(v, VNone):
                return default
            s = z3.simplify(v.t)
            if z3.is_int_value(s):
                return s if s.as_long() >= 0 else z3.If(n + s < 0, 0, n + s)
            return z3.If(v.t < 0, z3.If(n + v.t < 0, 0, n + v.t), v.t)

        a = clamp(lo, z3.IntVal(0))
        b = clamp(hi, n)
        return VStr(z3.SubString(base.t, a, b - a), base.isbytes)
    if isinstance(base, VRef):
        o = ev.st.obj(base)
        if isinstance(o, ListObj) and lo is None and hi is None:
            return ev.st.alloc(ListObj(o.length, o.cols, o.etype))
        if isinstance(o, ListObj) and hi is None and isinstance(lo, VInt):
            # xs[a:] for 0 <= a
            a = lo.t
            st = ev.st
            cols = []
            j = z3.Int(st.run.fresh_name("slj"))
            for ci, c in enumerate(o.cols):
                nc = z3.Array(st.run.fresh_name("sl.c%d" % ci), I, c.sort().range())
                st.assume(mk_quant("forall", [j], nc[j] == c[j + a], patterns=[nc[j]]))
                cols.append(nc)
            ln = z3.If(a >= o.length, 0, o.length - z3.If(a < 0, 0, a))
            return st.alloc(ListObj(ln, cols, o.etype))
        if isinstance(o, Obj):
            hook = ev.registry.slice_model(o.cls) if ev.registry else None
            if hook is not None:
                return hook(ev, base, lo, hi, node)
    if isinstance(base, VTuple):
        l = _const_int(lo, 0)
        h = _const_int(hi, len(base.items))
        if l is not None and h is not None:
            return VTuple(base.items[l:h])
    ev.unsupported(node, "slice of %r" % (base,))


def _const_int(v, default):
    if v is None or isinstance(v, VNone):
        return default
    s = z3.simplify(v.t)
    return s.as_long() if z3.is_int_value(s) else None


def contains(ev: Ev, container, item, node):
    st = ev.st
    if isinstance(container, VStr) and isinstance(item, VStr):
        return z3.Contains(container.t, item.t)
    if isinstance(container, VTuple):
        return z3.Or([ev.eq(item, x) for x in container.items] + [z3.BoolVal(False)])
    if isinstance(container, VRef):
        o = st.obj(container)
        if isinstance(o, DictObj):
            k = const_str(item)
            if k is None:
                if isinstance(item, VStr):
                    alts = []
                    for kk, vv in o.items.items():
                        if vv is ABSENT:
                            continue
                        p = vv.present if isinstance(vv, Maybe) else z3.BoolVal(True)
                        alts.append(z3.And(item.t == z3.StringVal(kk), p))
                    return z3.Or(alts + [z3.BoolVal(False)])
                ev.unsupported(node, "`in` with non-constant key on a concrete-key dict")
            undeclared_read(ev, o, k, node)
            if k not in o.items or o.items[k] is ABSENT:
                return z3.BoolVal(False)
            vv = o.items[k]
            return vv.present if isinstance(vv, Maybe) else z3.BoolVal(True)
        if isinstance(o, MapObj):
            return o.has[unpack(item)[0]]
        if isinstance(o, ListObj):
            if o.etype is None:
                return z3.BoolVal(False)
            k = z3.Int(st.run.fresh_name("ink"))
            el = ev.list_get(o, k)
            return mk_quant("exists", [k], z3.And(0 <= k, k < o.length, ev.eq(el, item)))
        if isinstance(o, Obj):
            r = call_method(ev, container, "__contains__", [item], {}, node)
            return ev.truth(r)
    ev.unsupported(node, "`in` on %r" % (container,))


# --------------------------------------------------------------------------- calls
def eval_args(ev, node):
    # dict.pop / dict.get / dict.setdefault hand their default through untouched: an Optional stays unresolved there
    keep = isinstance(node.func, ast.Attribute) and node.func.attr in ("pop", "get", "setdefault")
    args = []
    for a in node.args:
        if isinstance(a, ast.Starred):
            sv = ev.expr(a.value)
            if isinstance(sv, VRef) and isinstance(ev.st.obj(sv), ListObj) and not z3.is_int_value(z3.simplify(ev.st.obj(sv).length)):
                args.append(VFunc("starred", sv, "*args"))   # a list of symbolic length spliced into the call: for stubs
            else:
                args.extend(ev.iter_concrete(sv, a))
        else:
            args.append(ev.expr_keep(a) if keep else ev.expr(a))
    kwargs = {}
    for k in node.keywords:
        if k.arg is None:
            src = ev.expr(k.value)
            o = ev.st.obj(src) if isinstance(src, VRef) else None
            if not isinstance(o, DictObj):
                ev.unsupported(node, "**kwargs of a non-concrete dict")
            kwargs.update(o.items)
        else:
            kwargs[k.arg] = ev.expr(k.value)
    return args, kwargs


def call_node(ev: Ev, node):
    c = ev.frame.root().contract
    d = dotted(node.func)
    # 1. stubs named by the source text of the callee expression
    if d is not None and c is not None:
        stub = c.find_stub(d)
        if stub is not None:
            args, kwargs = eval_args(ev, node)
            return stub(ev, args, kwargs, node)
    # 2. spec-only functions
    if ev.spec and isinstance(node.func, ast.Name):
        from .contract import SPEC_FUNCS
        if node.func.id in SPEC_FUNCS:
            return SPEC_FUNCS[node.func.id](ev, node)
        if c is not None and node.func.id in c.defs_parsed:
            return c.apply_def(ev, node)
        if c is not None and node.func.id in c.ufuncs:
            return c.apply_ufunc(ev, node)
    if isinstance(node.func, ast.Name) and c is not None and not ev.spec:
        if node.func.id in c.ufuncs and ev.frame.lookup(node.func.id) is None:
            return c.apply_ufunc(ev, node)
    # 3. super().method(...)
    if isinstance(node.func, ast.Attribute) and d is not None and d.startswith("super()."):
        args, kwargs = eval_args(ev, node)
        self_v = ev.frame.root().env.get("self") or ev.frame.lookup("self")
        rel, cn = ev.frame.root().relpath, ev.frame.root().clsname
        o = ev.st.obj(self_v)
        orel, ocn = o.cls.split(":")
        r = source.find_method(orel, ocn, node.func.attr, after=(rel, cn))
        if r is None:
            ev.unsupported(node, "super().%s not found" % node.func.attr)
        return ev.registry.call_repo(ev, r[0], r[1], [self_v] + args, kwargs, node)
    # 4. method call on a value
    if isinstance(node.func, ast.Attribute):
        recv = ev.expr(node.func.value)
        if isinstance(recv, VGlobal):
            name = recv.name + "." + node.func.attr
            args, kwargs = eval_args(ev, node)
            return call_global(ev, name, args, kwargs, node)
        if isinstance(recv, VClass):
            fv = getattr_(ev, recv, node.func.attr, node)
            args, kwargs = eval_args(ev, node)
            return call_value(ev, fv, args, kwargs, node)
        args, kwargs = eval_args(ev, node)
        return call_method(ev, recv, node.func.attr, args, kwargs, node)
    fv = ev.expr(node.func)
    # lazily-evaluated generator arguments for any/all/sum/...
    args, kwargs = eval_args(ev, node)
    return call_value(ev, fv, args, kwargs, node)


def call_global(ev, name, args, kwargs, node):
    c = ev.frame.root().contract
    stub = c.find_stub(name) if c is not None else None
    if stub is None:
        from . import stubs
        stub = stubs.GLOBAL_STUBS.get(name)
    if stub is None:
        ev.unsupported(node, "call of external function %s (no stub)" % name)
    return stub(ev, args, kwargs, node)


def call_value(ev: Ev, fv, args, kwargs, node):
    if isinstance(fv, VFunc):
        if fv.kind == "py":
            return fv.data(ev, args, kwargs, node)
        if fv.kind == "lambda":
            return call_lambda(ev, fv, args, kwargs, node)
        if fv.kind == "closure":
            return call_closure(ev, fv, args, kwargs, node)
        if fv.kind == "repo":
            rel, name = fv.data
            return ev.registry.call_repo(ev, rel, name, args, kwargs, node)
        if fv.kind == "method":
            rel, qn, recv, cls = fv.data
            fdef = source.find_def(rel, qn)
            decos = [dotted(x) for x in fdef.decorator_list]
            if "staticmethod" in decos:
                return ev.registry.call_repo(ev, rel, qn, args, kwargs, node)
            if "classmethod" in decos:
                return ev.registry.call_repo(ev, rel, qn, [cls] + args, kwargs, node)
            if recv is not None:
                return ev.registry.call_repo(ev, rel, qn, [recv] + args, kwargs, node)
            return ev.registry.call_repo(ev, rel, qn, args, kwargs, node)
        if fv.kind == "bound":
            recv, meth = fv.data
            return call_method(ev, recv, meth, args, kwargs, node)
        if fv.kind == "contract":
            contract, recv = fv.data
            from .contract import apply_contract
            return apply_contract(ev, contract, ([recv] if recv is not None else []) + args, kwargs, node)
    if isinstance(fv, VClass):
        return construct(ev, fv, args, kwargs, node)
    if isinstance(fv, VRef) and isinstance(ev.st.obj(fv), Obj):
        return call_method(ev, fv, "__call__", args, kwargs, node)
    if isinstance(fv, VGlobal):
        return call_global(ev, fv.name, args, kwargs, node)
    if isinstance(fv, VOpaque):
        cm = ev.registry.opaque_call(fv.sort) if ev.registry else None
        if cm is not None:
            return cm(ev, fv, args, kwargs, node)
    ev.unsupported(node, "call of %r" % (fv,))


def bind_params(ev, fargs: ast.arguments, args, kwargs, node, defaults_ev=None):
    env = {}
    params = [a.arg for a in fargs.posonlyargs + fargs.args]
    if len(args) > len(params) and fargs.vararg is None:
        ev.unsupported(node, "too many positional arguments")
    for p, a in zip(params, args):
        env[p] = a
    if fargs.vararg is not None:
        env[fargs.vararg.arg] = VTuple(args[len(params):])
    kw = dict(kwargs)
    for p in params[len(args):]:
        if p in kw:
            env[p] = kw.pop(p)
    for a in fargs.kwonlyargs:
        if a.arg in kw:
            env[a.arg] = kw.pop(a.arg)
    dev = defaults_ev or ev
    # defaults
    pos_defaults = fargs.defaults
    for p, dnode in zip(params[len(params) - len(pos_defaults):], pos_defaults):
        if p not in env:
            env[p] = dev.expr(dnode)
    for a, dnode in zip(fargs.kwonlyargs, fargs.kw_defaults):
        if a.arg not in env and dnode is not None:
            env[a.arg] = dev.expr(dnode)
    if fargs.kwarg is not None:
        env[fargs.kwarg.arg] = ev.st.alloc(DictObj(kw))
        kw = {}
    if kw:
        ev.unsupported(node, "unexpected keyword arguments %s" % sorted(kw))
    missing = [p for p in params + [a.arg for a in fargs.kwonlyargs] if p not in env]
    if missing:
        ev.unsupported(node, "missing arguments %s" % missing)
    return env


def call_lambda(ev, fv, args, kwargs, node):
    lnode, frame, bound = fv.data
    sub = ev.sub(frame=Frame(frame.contract, frame.relpath, frame.clsname, {}, parent=frame, fn=frame.fn))
    sub.bound.update(bound)
    env = bind_params(sub, lnode.args, args, kwargs, node)
    sub.frame.env.update(env)
    return sub.expr(lnode.body)


def call_closure(ev, fv, args, kwargs, node):
    fnode, frame = fv.data
    if ev.pure:
        return pure_closure(ev, fv, args, kwargs, node)
    nf = Frame(frame.contract, frame.relpath, frame.clsname, {}, parent=frame, fn=fnode)
    sub = Ev(ev.st, nf, ev.registry)
    env = bind_params(Ev(ev.st, frame, ev.registry, pure=True), fnode.args, args, kwargs, node)
    nf.env.update(env)
    try:
        sub.block(fnode.body)
    except _Return as r:
        return r.value
    return NONE


def pure_closure(ev, fv, args, kwargs, node):
    """a small closure (assignments, if/else, return; no loops) evaluated in a pure context: branches are merged
    with if-then-else terms"""
    fnode, frame = fv.data
    nf = Frame(frame.contract, frame.relpath, frame.clsname, {}, parent=frame, fn=fnode)
    sub = ev.sub(frame=nf)
    nf.env.update(bind_params(Ev(ev.st, frame, ev.registry, pure=True), fnode.args, args, kwargs, node))

    def run(stmts, env):
        env = dict(env)
        for i, s in enumerate(stmts):
            nf.env = env
            sub.frame = nf
            if isinstance(s, ast.Return):
                return sub.expr(s.value) if s.value is not None else NONE
            if isinstance(s, (ast.Assign, ast.AnnAssign)):
                tgts = s.targets if isinstance(s, ast.Assign) else [s.target]
                if s.value is None:
                    continue
                v = sub.expr(s.value)
                for t in tgts:
                    if not isinstance(t, ast.Name):
                        raise Unsupported("pure closure: assignment target")
                    env[t.id] = v
                continue
            if isinstance(s, ast.If):
                c = sub.cond(s.test)
                rest = stmts[i + 1:]
                sub.guards.append(c)
                try:
                    a = run(list(s.body) + rest, env)
                finally:
                    sub.guards.pop()
                sub.guards.append(z3.Not(c))
                try:
                    b = run(list(s.orelse) + rest, env)
                finally:
                    sub.guards.pop()
                return ev.ite(c, a, b)
            if isinstance(s, ast.Expr) and isinstance(s.value, ast.Constant):
                continue
            raise Unsupported("pure closure: statement %s" % s.__class__.__name__)
        return NONE

    return run(list(fnode.body), nf.env)


def construct(ev: Ev, cls: VClass, args, kwargs, node):
    st = ev.st
    name = cls.name
    if ":" in name:
        rel, cn = name.split(":")
        ref = st.alloc(Obj(name, {}))
        r = source.find_method(rel, cn, "__init__")
        if r is not None:
            ev.registry.call_repo(ev, r[0], r[1], [ref] + args, kwargs, node)
        return ref
    if name in BUILTIN_EXC:
        return st.alloc(Obj(name, {"args": VTuple(args)}))
    hook = ev.registry.ctor_model(name) if ev.registry else None
    if hook is not None:
        return hook(ev, args, kwargs, node)
    ev.unsupported(node, "construction of %s" % name)


def call_method(ev: Ev, recv, meth, args, kwargs, node):
    from . import methods
    return methods.call_method(ev, recv, meth, args, kwargs, node)


def to_list(ev, v, node):
    """materialise a list / tuple / generator expression as a ListObj reference"""
    if isinstance(v, VRef) and isinstance(ev.st.obj(v), ListObj):
        return v
    if isinstance(v, VTuple):
        return ev.list_from_values(list(v.items))
    if isinstance(v, VStr) and z3.is_string_value(z3.simplify(v.t)) and not v.isbytes:
        return ev.list_from_values(ev.iter_concrete(v, node))
    if isinstance(v, VFunc) and v.kind == "genexp":
        gnode, frame, bound = v.data
        sub = ev.sub(frame=frame)
        sub.bound.update(bound)
        return comprehension(sub, gnode, "list")
    if isinstance(v, VRef) and isinstance(ev.st.obj(v), Obj):
        hook = ev.registry.iter_model(ev.st.obj(v).cls) if ev.registry else None
        if hook is not None:
            return hook(ev, v)
    ev.unsupported(node, "cannot view %r as a list" % (v,))


def list_concat(ev, a, b):
    st = ev.st
    la, lb = st.obj(a), st.obj(b)
    if la.etype is None:
        return st.alloc(ListObj(lb.length, lb.cols, lb.etype))
    if lb.etype is None:
        return st.alloc(ListObj(la.length, la.cols, la.etype))
    if not same_type(la.etype, lb.etype):
        raise Unsupported("concatenation of lists with different element types %r / %r" % (la.etype, lb.etype))
    cols = []
    j = z3.Int(st.run.fresh_name("catj"))
    for ci, (ca, cb) in enumerate(zip(la.cols, lb.cols)):
        nc = z3.Array(st.run.fresh_name("cat.c%d" % ci), I, ca.sort().range())
        st.assume(mk_quant("forall", [j], z3.And(
            z3.Implies(j < la.length, nc[j] == ca[j]),
            z3.Implies(j >= la.length, nc[j] == cb[j - la.length])), patterns=[nc[j]]))
        cols.append(nc)
    return st.alloc(ListObj(la.length + lb.length, cols, la.etype))


# --------------------------------------------------------------------------- comprehensions
def _comp_parts(node):
    if len(node.generators) != 1:
        raise Unsupported("comprehension with %d generators" % len(node.generators))
    g = node.generators[0]
    return g.target, g.iter, g.ifs


def _bind_target(ev, tgt, v):
    if isinstance(tgt, ast.Name):
        ev.bound[tgt.id] = v
    elif isinstance(tgt, (ast.Tuple, ast.List)):
        if not isinstance(v, VTuple) or len(v.items) != len(tgt.elts):
            raise Unsupported("comprehension target unpacking of %r" % (v,))
        for e, it in zip(tgt.elts, v.items):
            _bind_target(ev, e, it)
    else:
        raise Unsupported("comprehension target")


def comp_source(ev, iter_node):
    """returns (ListObj, index-transform, enum?)"""
    v = ev.expr(iter_node)
    enum = False
    if isinstance(v, VFunc) and v.kind == "iterview":
        kind, inner = v.data
        if kind == "enumerate":
            enum = True
            v = inner
        else:
            raise Unsupported("comprehension over reversed()")
    return v, enum


def elementwise(ev, node, k, lo, enum):
    """evaluate filter and element for symbolic index k; returns (cond z3, elt V, sideconds)"""
    sub = ev.sub(pure=True)
    sub.sideconds = []
    tgt, _, ifs = _comp_parts(node)
    item = ev.list_get(lo, k)
    _bind_target(sub, tgt, VTuple([VInt(k), item]) if enum else item)
    conds = []
    for c in ifs:
        t = sub.cond(c)
        conds.append(t)
        sub.guards.append(t)
    cond = z3.And(conds) if conds else z3.BoolVal(True)
    elt = sub.expr(node.elt) if hasattr(node, "elt") else None
    return cond, elt, sub.sideconds


def emit_sideconds(ev, sideconds, k, n, what):
    """obligations (or nested side conditions) for partial operations inside a quantified context"""
    for f, exc, line in sideconds:
        q = mk_quant("forall", [k], z3.Implies(z3.And(0 <= k, k < n), f))
        if ev.spec:
            continue
        if ev.pure:
            g = z3.And(*ev.guards) if ev.guards else z3.BoolVal(True)
            ev.sideconds.append((z3.Implies(g, q), exc, line))
        else:
            c = ev.frame.root().contract
            allowed = c is not None and c.allows_raise(exc)
            if allowed:
                # the exception may escape: fork on it
                if not ev.st.decide(q):
                    raise PyRaise(exc, None, line)
            else:
                ev.st.oblige("%s/safe.%s.%s" % (c.id if c else "?", what, exc), q, line=line,
                             note="partial operation inside a comprehension/generator must not raise %s" % exc)
                ev.st.assume(q)


def _src_trigger(ev):
    """contract option comp_src_trigger: the element-wise axiom of an unfiltered comprehension is also triggered by
    elements of the SOURCE list (off by default: it costs instantiations in proofs that do not need it)"""
    c = ev.frame.root().contract
    return bool(getattr(c, "comp_src_trigger", False)) if c is not None else False


def comprehension(ev: Ev, node, kind):
    st = ev.st
    tgt, iter_node, ifs = _comp_parts(node)
    src, enum = comp_source(ev, iter_node)
    if isinstance(src, VTuple) or (isinstance(src, VRef) and isinstance(st.obj(src), ListObj)
                                  and z3.is_int_value(z3.simplify(st.obj(src).length))):
        # concrete length: unroll
        items = ev.iter_concrete(src, node)
        out = []
        for i, it in enumerate(items):
            sub = ev.sub(pure=True)
            sub.sideconds = []
            sub.guards = []
            _bind_target(sub, tgt, VTuple([VInt(i), it]) if enum else it)
            ok = True
            for c in ifs:
                t = sub.cond(c)
                for f, exc, line in sub.sideconds:
                    ev.require(f, exc, node)
                sub.sideconds = []
                if ev.pure:
                    raise Unsupported("filtered concrete comprehension in pure mode")
                if not st.decide(t):
                    ok = False
                    break
            if ok:
                try:
                    v = sub.expr(node.elt)
                except Unsupported:
                    v = None
                if v is None:
                    s2 = ev.sub()
                    _bind_target(s2, tgt, VTuple([VInt(i), it]) if enum else it)
                    v = s2.expr(node.elt)
                else:
                    for f, exc, line in sub.sideconds:
                        ev.require(f, exc, node)
                out.append(v)
        return ev.list_from_values(out)
    src = to_list(ev, src, node)
    lo = st.obj(src)
    if lo.etype is None:
        return ev.list_from_values([])
    n = lo.length
    k = z3.Int(st.run.fresh_name("ck"))
    cond, elt, side = elementwise(ev, node, k, lo, enum)
    emit_sideconds(ev, side, k, n, "comp")
    etype = type_of_value(elt)
    sorts = leaf_sorts(etype)
    leaves = unpack(elt)
    rname = st.run.fresh_name("comp")
    cols = [z3.Array("%s.c%d" % (rname, i), I, s) for i, s in enumerate(sorts)]
    if not ifs:
        j = z3.Int(st.run.fresh_name("cj"))
        body = z3.And([cols[i][j] == z3.substitute(leaves[i], (k, j)) for i in range(len(cols))])
        # triggers: an element of the result, or the element of the source it was computed from (needed to carry
        # an existential over the source to the result)
        st.assume(mk_quant("forall", [j], z3.Implies(z3.And(0 <= j, j < n), body),
                           patterns=[c[j] for c in cols][:1] + ([c[j] for c in lo.cols][:1] if _src_trigger(ev) else [])))
        return st.alloc(ListObj(n, cols, etype))
    m = z3.Int(rname + ".len")
    idx = z3.Function(rname + ".idx", I, I)
    inv = z3.Function(rname + ".inv", I, I)
    j = z3.Int(st.run.fresh_name("cj"))
    st.assume(z3.And(0 <= m, m <= n))
    ij = idx(j)
    body = z3.And([z3.And(0 <= ij, ij < n), z3.substitute(cond, (k, ij))] +
                  [cols[i][j] == z3.substitute(leaves[i], (k, ij)) for i in range(len(cols))])
    st.assume(mk_quant("forall", [j], z3.Implies(z3.And(0 <= j, j < m), body), patterns=[cols[0][j], idx(j)]))
    st.assume(mk_quant("forall", [j], z3.Implies(z3.And(0 <= j, j < m - 1), idx(j) < idx(j + 1)), patterns=[idx(j)]))
    j2 = z3.Int(st.run.fresh_name("cj2"))
    # monotone in general (the consecutive form above implies it by induction, which the solver cannot do)
    st.assume(z3.ForAll([j, j2], z3.Implies(z3.And(0 <= j, j < j2, j2 < m), idx(j) < idx(j2)),
                        patterns=[z3.MultiPattern(idx(j), idx(j2))]))
    st.assume(mk_quant("forall", [j], z3.Implies(z3.And(0 <= j, j < m), inv(idx(j)) == j), patterns=[idx(j)]))
    # filter lemma (by induction on paper, A-filter-total): a filter that keeps every element is the identity
    i3 = z3.Int(st.run.fresh_name("ci3"))
    j3 = z3.Int(st.run.fresh_name("cj3"))
    keeps_all = mk_quant("forall", [i3], z3.Implies(z3.And(0 <= i3, i3 < n), z3.substitute(cond, (k, i3))),
                         patterns=[c[i3] for c in lo.cols][:1])
    st.assume(z3.Implies(keeps_all, z3.And(m == n, mk_quant("forall", [j3], z3.Implies(z3.And(0 <= j3, j3 < n), idx(j3) == j3),
                                                          patterns=[idx(j3)]))))
    i2 = z3.Int(st.run.fresh_name("ci"))
    st.assume(mk_quant("forall", [i2], z3.Implies(z3.And(0 <= i2, i2 < n, z3.substitute(cond, (k, i2))),
                                                   z3.And(0 <= inv(i2), inv(i2) < m, idx(inv(i2)) == i2)),
                       patterns=[inv(i2)] + [c[i2] for c in lo.cols][:1]))
    return st.alloc(ListObj(m, cols, etype))


def dict_comprehension(ev, node):
    # only over concrete sources
    g = node.generators[0]
    src = ev.expr(g.iter)
    items = ev.iter_concrete(src, node) if not (isinstance(src, VFunc)) else None
    if items is None:
        ev.unsupported(node, "dict comprehension over a symbolic source")
    out = {}
    for it in items:
        sub = ev.sub()
        _bind_target(sub, g.target, it)
        kv = sub.expr(node.key)
        ks = const_str(kv)
        if ks is None:
            ev.unsupported(node, "dict comprehension with symbolic key")
        out[ks] = sub.expr(node.value)
    return ev.st.alloc(DictObj(out))


def quantify_gen(ev, gv, kind, node):
    """any(gen) / all(gen)"""
    gnode, frame, bound = gv.data
    sub = ev.sub(frame=frame)
    sub.bound.update(bound)
    src, enum = comp_source(sub, gnode.generators[0].iter)
    if isinstance(src, VTuple):
        vals = []
        for i, it in enumerate(src.items):
            s2 = sub.sub(pure=True)
            _bind_target(s2, gnode.generators[0].target, VTuple([VInt(i), it]) if enum else it)
            conds = [s2.truth(s2.expr(c)) for c in gnode.generators[0].ifs]
            t = s2.truth(s2.expr(gnode.elt))
            vals.append(z3.And(conds + [t]) if kind == "any" else z3.Implies(z3.And(conds + [z3.BoolVal(True)]), t))
        return VBool((z3.Or if kind == "any" else z3.And)(vals + [z3.BoolVal(kind != "any")]))
    src = to_list(sub, src, node)
    lo = ev.st.obj(src)
    if lo.etype is None:
        return VBool(kind != "any")
    nconc = z3.simplify(lo.length)
    if z3.is_int_value(nconc) and nconc.as_long() <= 24:
        vals = []
        for i in range(nconc.as_long()):
            ki = z3.IntVal(i)
            cond, elt, side = elementwise(sub, gnode, ki, lo, enum)
            for f, exc, line in side:
                ev.require(f, exc, node)
            t = ev.truth(elt)
            vals.append(z3.And(cond, t) if kind == "any" else z3.Implies(cond, t))
        return VBool((z3.Or if kind == "any" else z3.And)(vals + [z3.BoolVal(kind != "any")]))
    k = z3.Int(ev.st.run.fresh_name("qk"))
    cond, elt, side = elementwise(sub, gnode, k, lo, enum)
    # python evaluates lazily: element j is only evaluated if no earlier element decided the result; we
    # require the side conditions for every element (stronger, hence sound for exception-freedom)
    emit_sideconds(ev, side, k, lo.length, kind)
    t = ev.truth(elt)
    rng = z3.And(0 <= k, k < lo.length, cond)
    if kind == "any":
        return VBool(mk_quant("exists", [k], z3.And(rng, t)))
    return VBool(mk_quant("forall", [k], z3.Implies(rng, t)))


@builtin("any")
def b_any(ev, args, kwargs, node):
    v = args[0]
    if isinstance(v, VFunc) and v.kind == "genexp":
        return quantify_gen(ev, v, "any", node)
    raise Unsupported("any() of %r" % (v,))


@builtin("all")
def b_all(ev, args, kwargs, node):
    v = args[0]
    if isinstance(v, VFunc) and v.kind == "genexp":
        return quantify_gen(ev, v, "all", node)
    raise Unsupported("all() of %r" % (v,))


@builtin("len")
def b_len(ev, args, kwargs, node):
    v = args[0]
    if isinstance(v, VStr):
        return VInt(z3.Length(v.t))
    if isinstance(v, VTuple):
        return VInt(len(v.items))
    if isinstance(v, VRef):
        o = ev.st.obj(v)
        if isinstance(o, ListObj):
            return VInt(o.length)
        if isinstance(o, DictObj):
            return VInt(len(o.items))
        if isinstance(o, Obj):
            return call_method(ev, v, "__len__", [], {}, node)
    raise Unsupported("len() of %r" % (v,))


@builtin("min")
def b_min(ev, args, kwargs, node):
    if len(args) == 2 and all(isinstance(a, VInt) for a in args):
        return VInt(z3.If(args[0].t <= args[1].t, args[0].t, args[1].t))
    raise Unsupported("min() of %r" % (args,))


@builtin("max")
def b_max(ev, args, kwargs, node):
    if len(args) == 2 and all(isinstance(a, VInt) for a in args):
        return VInt(z3.If(args[0].t >= args[1].t, args[0].t, args[1].t))
    raise Unsupported("max() of %r" % (args,))


@builtin("abs")
def b_abs(ev, args, kwargs, node):
    if isinstance(args[0], VInt):
        return VInt(z3.If(args[0].t >= 0, args[0].t, -args[0].t))
    raise Unsupported("abs")


@builtin("str")
def b_str(ev, args, kwargs, node):
    if not args:
        return VStr("")
    return str_of(ev, args[0], node)


@builtin("repr")
def b_repr(ev, args, kwargs, node):
    return repr_of(ev, args[0], node)


@builtin("bool")
def b_bool(ev, args, kwargs, node):
    return VBool(ev.truth(args[0]))


def int_ok(t):
    return ufunc("int_ok", S, Bz)(t)


def int_of(t):
    return ufunc("int_of", S, I)(t)


@builtin("int")
def b_int(ev, args, kwargs, node):
    v = args[0]
    if isinstance(v, VInt):
        return v
    if isinstance(v, VBool):
        return VInt(z3.If(v.t, 1, 0))
    if isinstance(v, VStr):
        s = z3.simplify(v.t)
        if z3.is_string_value(s):
            try:
                return VInt(int(py_string(s)))
            except ValueError:
                ev.require(False, "ValueError", node)
                raise Unsupported("unconditional failure in a pure context: int() of bad literal")
        ev.require(int_ok(v.t), "ValueError", node)
        return VInt(int_of(v.t))
    if isinstance(v, VNone):
        ev.require(False, "TypeError", node)
        raise Unsupported("unconditional failure in a pure context: int(None)")
    if isinstance(v, VOpaque) and v.sort == "Float":
        return VInt(ufunc("floor_int", opaque_sort("Float"), I)(v.t))
    raise Unsupported("int() of %r" % (v,))


@builtin("isinstance")
def b_isinstance(ev, args, kwargs, node):
    v, cls = args
    names = [c.name for c in (cls.items if isinstance(cls, VTuple) else [cls])]
    hook = ev.registry.isinstance_model if ev.registry else None
    if hook is not None:
        r = hook(ev, v, names)
        if r is not None:
            return VBool(r)
    simple = [n.split(":")[-1].split(".")[-1] for n in names]
    if isinstance(v, VStr):
        return VBool(("bytes" if v.isbytes else "str") in simple)
    if isinstance(v, VInt):
        return VBool("int" in simple)
    if isinstance(v, VBool):
        return VBool("bool" in simple or "int" in simple)
    if isinstance(v, VNone):
        return VBool(False)
    if isinstance(v, VRef):
        o = ev.st.obj(v)
        if isinstance(o, Obj):
            cn = o.cls
            if ":" in cn:
                rel, c0 = cn.split(":")
                chain = [cd.name for _, cd in source.mro(rel, c0)]
                # base classes outside the repository (typing.Mapping[str, str], abc.ABC, ...) by their simple names;
                # MutableMapping implies Mapping
                for _, cd in source.mro(rel, c0):
                    for b in cd.bases:
                        n = b.value if isinstance(b, ast.Subscript) else b
                        nm = n.attr if isinstance(n, ast.Attribute) else (n.id if isinstance(n, ast.Name) else None)
                        if nm and nm not in chain:
                            chain.append(nm)
                if "MutableMapping" in chain and "Mapping" not in chain:
                    chain.append("Mapping")
            else:
                chain = [cn]
            return VBool(any(s in chain for s in simple))
        if isinstance(o, ListObj):
            return VBool("list" in simple)
        if isinstance(o, DictObj) or isinstance(o, MapObj):
            return VBool("dict" in simple or "Mapping" in simple)
    if isinstance(v, VTuple):
        return VBool("tuple" in simple)
    raise Unsupported("isinstance(%r, %s)" % (v, names))


@builtin("hasattr")
def b_hasattr(ev, args, kwargs, node):
    v, name = args
    n = const_str(name)
    hook = ev.registry.hasattr_model if ev.registry else None
    if hook is not None:
        r = hook(ev, v, n)
        if r is not None:
            return VBool(r)
    raise Unsupported("hasattr(%r, %r)" % (v, n))


@builtin("tuple")
def b_tuple(ev, args, kwargs, node):
    if not args:
        return VTuple([])
    v = args[0]
    if isinstance(v, VTuple):
        return v
    r = to_list(ev, v, node)
    o = ev.st.obj(r)
    return ev.st.alloc(ListObj(o.length, o.cols, o.etype, immutable=True))


@builtin("list")
def b_list(ev, args, kwargs, node):
    if not args:
        return ev.list_from_values([])
    r = to_list(ev, args[0], node)
    o = ev.st.obj(r)
    return ev.st.alloc(ListObj(o.length, o.cols, o.etype))


@builtin("next")
def b_next(ev, args, kwargs, node):
    """next(it[, default]) == it.__next__() with StopIteration replaced by the default"""
    from .engine import PyRaise
    try:
        return call_method(ev, args[0], "__next__", [], {}, node)
    except PyRaise as r:
        if r.cls == "StopIteration" and len(args) > 1:
            return args[1]
        raise


@builtin("reversed")
def b_reversed(ev, args, kwargs, node):
    return VFunc("iterview", ("reversed", args[0]), "reversed")


@builtin("enumerate")
def b_enumerate(ev, args, kwargs, node):
    return VFunc("iterview", ("enumerate", args[0]), "enumerate")


@builtin("iter")
def b_iter(ev, args, kwargs, node):
    return args[0]


@builtin("bytes")
def b_bytes(ev, args, kwargs, node):
    if not args:
        return VStr(b"")
    v = args[0]
    if isinstance(v, VStr) and v.isbytes:
        return v
    if isinstance(v, VRef) and isinstance(ev.st.obj(v), Obj):
        return call_method(ev, v, "__bytes__", [], {}, node)
    raise Unsupported("bytes(%r)" % (v,))


@builtin("sum")
def b_sum(ev, args, kwargs, node):
    from .sums import sum_gen
    v = args[0]
    if isinstance(v, VFunc) and v.kind == "genexp":
        return sum_gen(ev, v, None, node)
    raise Unsupported("sum() of %r" % (v,))


@builtin("sorted")
def b_sorted(ev, args, kwargs, node):
    from . import stubs
    return stubs.sorted_stub(ev, args, kwargs, node)


@builtin("dict")
def b_dict(ev, args, kwargs, node):
    if not args:
        return ev.st.alloc(DictObj(kwargs))
    v = args[0]
    if isinstance(v, VRef) and isinstance(ev.st.obj(v), DictObj):
        return ev.st.alloc(DictObj(ev.st.obj(v).items))
    hook = ev.registry.ctor_model("dict") if ev.registry else None
    if hook is not None:
        return hook(ev, args, kwargs, node)
    raise Unsupported("dict(%r)" % (v,))


@builtin("super")
def b_super(ev, args, kwargs, node):
    raise Unsupported("bare super()")


def percent_format(ev, fmt, arg, node):
    f = const_str(fmt)
    if f is None:
        raise Unsupported("% with non-constant format")
    args = list(arg.items) if isinstance(arg, VTuple) else [arg]
    parts = f.split("%s")
    if len(parts) != len(args) + 1 or "%" in "".join(parts):
        raise Unsupported("%%-format %r" % f)
    out = [z3.StringVal(parts[0])]
    for a, p in zip(args, parts[1:]):
        out.append(str_of(ev, a, node).t)
        out.append(z3.StringVal(p))
    return VStr(z3.Concat(*out))
