"""Replay of a solver counterexample by RUN-TIME CONTRACT CHECKING of the real function.

For a contract without a hand-written replay driver: the model's values for the parameters are turned into concrete Python
arguments (by the parameter types of the contract), and the case - function, arguments, the contract's ensures / raises clauses
and macro definitions as text - is handed to native/rt.py, which runs under the interpreter of the library, calls the REAL
function and evaluates the clauses on what it did.  A clause that is false there is a violation with a concrete input; if all
clauses hold the refutation was an artefact of the abstraction (verdict: undecided).  Only ghost-free contracts over plain data
(ints, strings, bytes, tuples, lists, concrete-key dicts, objects with such fields) can be replayed this way; anything else
returns None and the caller falls back to `no-failing-input-found`."""
from .values import *  # noqa

MAXLIST = 8


class NotReplayable(Exception):
    pass


def _build(m, prefix, t):
    if isinstance(t, TOpt):
        if m.get(prefix) == "<None>" or m.get(prefix + "?none") is True:
            return {"t": "none"}
        return _build(m, prefix, t.t)
    if isinstance(t, TNone):
        return {"t": "none"}
    if isinstance(t, TInt):
        if prefix not in m:
            raise NotReplayable("no model value for %s" % prefix)
        return {"t": "int", "v": int(m[prefix])}
    if isinstance(t, TBool):
        return {"t": "bool", "v": bool(m.get(prefix, False))}
    if isinstance(t, TStr):
        v = m.get(prefix, "")
        if v == "<None>":
            return {"t": "none"}
        if not isinstance(v, str):
            raise NotReplayable("model value of %s is not a string" % prefix)
        return {"t": "bytes" if getattr(t, "isbytes", False) else "str", "v": v}
    if isinstance(t, TTup):
        return {"t": "tuple", "v": [_build(m, "%s[%d]" % (prefix, i), it) for i, it in enumerate(t.items)]}
    if isinstance(t, TList):
        n = m.get(prefix + ".len")
        if n is None:
            raise NotReplayable("no model length for %s" % prefix)
        if int(n) > MAXLIST:
            raise NotReplayable("model list %s longer than %d" % (prefix, MAXLIST))
        return {"t": "list", "v": [_build(m, "%s[%d]" % (prefix, i), t.elem) for i in range(max(0, int(n)))]}
    if isinstance(t, TDict):
        out = {}
        for k, ft in t.fields.items():
            if isinstance(ft, TMaybe):
                if m.get("%s.has[%r]" % (prefix, k)):
                    out[k] = _build(m, "%s[%r]" % (prefix, k), ft.t)
            else:
                out[k] = _build(m, "%s[%r]" % (prefix, k), ft)
        return {"t": "dict", "v": out}
    if isinstance(t, TObj):
        return {"t": "obj", "cls": t.cls, "v": {k: _build(m, "%s.%s" % (prefix, k), ft) for k, ft in t.fields.items()}}
    raise NotReplayable("parameter type %r has no concrete counterpart" % (t,))


def _tdesc(t):
    if isinstance(t, TOpt):
        return {"k": "opt", "t": _tdesc(t.t)}
    if isinstance(t, TNone):
        return {"k": "none"}
    if isinstance(t, TInt):
        return {"k": "int"}
    if isinstance(t, TBool):
        return {"k": "bool"}
    if isinstance(t, TStr):
        return {"k": "bytes" if t.isbytes else "str"}
    if isinstance(t, TTup):
        return {"k": "tuple", "items": [_tdesc(x) for x in t.items]}
    if isinstance(t, TList):
        return {"k": "list", "elem": _tdesc(t.elem)}
    if isinstance(t, TDict):
        return {"k": "dict", "fields": {k: ({"maybe": True, "t": _tdesc(ft.t)} if isinstance(ft, TMaybe) else {"maybe": False, "t": _tdesc(ft)})
                                        for k, ft in t.fields.items()}}
    if isinstance(t, TObj):
        return {"k": "obj", "cls": t.cls, "fields": {k: _tdesc(ft) for k, ft in t.fields.items()}}
    raise NotReplayable("type %r" % (t,))


def build_case(contract, model, family_only=False):
    """the replay case for native/rt.py, or None"""
    if contract.ghosts or contract.bodyless or getattr(contract, "generator", False) or getattr(contract, "inline", False):
        return None
    if not model and not family_only:
        return None
    try:
        types = {name: _tdesc(t) for name, t in contract.params.items()}
        args = None if family_only else {name: _build(model, name, t) for name, t in contract.params.items()}
    except NotReplayable:
        return None
    return {"file": contract.file, "qualname": contract.qualname, "args": args, "types": types,
            "requires": list(contract.requires or []),
            "ensures": dict(contract.ensures), "defs": dict(contract.defs_text if hasattr(contract, "defs_text") else (contract.defs or {})),
            "raises": {k: v for k, v in (contract.raises or {}).items()} if contract.raises is not None else None,
            "raises_ensures": {k: list((v or {}).get("ensures", [])) for k, v in (contract.raises_ensures or {}).items()},
            "contract": contract.id}
