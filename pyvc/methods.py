"""Method calls on symbolic values: str/bytes, list, concrete dict, symbolic map, objects."""
from __future__ import annotations

import z3

from . import source
from .builtins import (ABSENT, Maybe, const_str, list_concat, mk_quant, str_lower, to_list, ufunc, S, I, Bz,
                       call_value)
from .engine import PathEnd, PyRaise, Unsupported
from .values import *  # noqa

LATIN1 = z3.Star(z3.Range(chr(0), chr(255)))
ASCII = z3.Star(z3.Range(chr(0), chr(127)))
WS = " \t\n\r\x0b\x0c"


def call_method(ev, recv, meth, args, kwargs, node):
    st = ev.st
    if isinstance(recv, VStr):
        return str_method(ev, recv, meth, args, kwargs, node)
    if isinstance(recv, VTuple):
        if meth == "__iter__":
            return recv
        ev.unsupported(node, "tuple method %s" % meth)
    if isinstance(recv, VRef):
        o = st.obj(recv)
        if isinstance(o, ListObj):
            return list_method(ev, recv, o, meth, args, kwargs, node)
        if isinstance(o, DictObj):
            return dict_method(ev, recv, o, meth, args, kwargs, node)
        if isinstance(o, MapObj):
            return map_method(ev, recv, o, meth, args, kwargs, node)
        if isinstance(o, Obj):
            return obj_method(ev, recv, o, meth, args, kwargs, node)
    if isinstance(recv, VOpaque):
        m = ev.registry.opaque_method(recv.sort, meth) if ev.registry else None
        if m is not None:
            return m(ev, recv, args, kwargs, node)
    if isinstance(recv, VNone):
        ev.require(False, "AttributeError", node)
        raise Unsupported("unconditional failure in a pure context: method of None")
    ev.unsupported(node, "method %s on %r" % (meth, recv))


def obj_method(ev, recv, o, meth, args, kwargs, node):
    c = ev.frame.root().contract
    # stub classes (File, Queue, ...) declared by the contract or globally
    sm = c.find_stub_method(o.cls, meth) if c is not None else None
    if sm is None:
        from . import stubs
        sm = stubs.STUB_METHODS.get((o.cls, meth))
    if sm is not None:
        return sm(ev, recv, args, kwargs, node)
    if ":" in o.cls:
        rel, cn = o.cls.split(":")
        r = source.find_method(rel, cn, meth)
        if r is not None:
            from .engine import dotted
            decos = [dotted(x) for x in r[2].decorator_list]
            first = [recv]
            if "staticmethod" in decos:
                first = []
            elif "classmethod" in decos:
                first = [VClass(o.cls)]
            return ev.registry.call_repo(ev, r[0], r[1], first + args, kwargs, node, recv_cls=o.cls)
        mm = ev.registry.mixin_method(ev, recv, o, meth) if ev.registry else None
        if mm is not None:
            return mm(ev, recv, args, kwargs, node)
    if meth in o.fields:
        return call_value(ev, o.fields[meth], args, kwargs, node)
    ev.unsupported(node, "method %s of class %s (no contract / stub)" % (meth, o.cls))


# --------------------------------------------------------------------------- str / bytes
def _strip_fun(ev, t, chars, side):
    """strip(): result is a substring with no leading/trailing char of `chars` (A-lower/strip)"""
    key = "str_%sstrip_%s" % (side, "".join("%02x" % ord(c) for c in chars))
    f = ufunc(key, S, S)
    r = f(t)
    ck = (key, t.get_id())
    if ck not in ev.st.run.counters:
        ev.st.run.counters[ck] = 1
        ev.st.assume(z3.Contains(t, r))
        ev.st.assume(z3.Length(r) <= z3.Length(t))
        if side == "r":
            ev.st.assume(z3.PrefixOf(r, t))     # rstrip keeps a prefix, lstrip a suffix
        if side == "l":
            ev.st.assume(z3.SuffixOf(r, t))
        cls = z3.Union(*[z3.Re(c) for c in chars]) if len(chars) > 1 else z3.Re(chars)
        notcls = z3.Complement(z3.Concat(cls, z3.Full(z3.ReSort(S)))) if side in ("", "l") else None
        if side in ("", "l"):
            ev.st.assume(z3.Not(z3.InRe(r, z3.Concat(cls, z3.Full(z3.ReSort(S))))))
        if side in ("", "r"):
            ev.st.assume(z3.Not(z3.InRe(r, z3.Concat(z3.Full(z3.ReSort(S)), cls))))
        # strip of a string without such characters at the ends is the identity
        ends_clean = z3.And(
            z3.Not(z3.InRe(t, z3.Concat(cls, z3.Full(z3.ReSort(S))))) if side in ("", "l") else z3.BoolVal(True),
            z3.Not(z3.InRe(t, z3.Concat(z3.Full(z3.ReSort(S)), cls))) if side in ("", "r") else z3.BoolVal(True))
        ev.st.assume(z3.Implies(ends_clean, r == t))
    return r


def str_method(ev, recv, meth, args, kwargs, node):
    st = ev.st
    t = recv.t
    isb = recv.isbytes
    if meth == "startswith":
        a = args[0]
        if isinstance(a, VTuple):
            return VBool(z3.Or([z3.PrefixOf(x.t, t) for x in a.items]))
        return VBool(z3.PrefixOf(a.t, t))
    if meth == "endswith":
        a = args[0]
        if isinstance(a, VTuple):
            return VBool(z3.Or([z3.SuffixOf(x.t, t) for x in a.items]))
        return VBool(z3.SuffixOf(a.t, t))
    if meth == "lower":
        return VStr(str_lower(ev, t), isb)
    if meth in ("strip", "lstrip", "rstrip"):
        side = {"strip": "", "lstrip": "l", "rstrip": "r"}[meth]
        chars = WS
        if args:
            chars = const_str(args[0])
            if chars is None:
                ev.unsupported(node, "strip with symbolic chars")
        s = z3.simplify(t)
        if z3.is_string_value(s):
            return VStr(getattr(py_string(s), meth)(chars), isb)
        return VStr(_strip_fun(ev, t, chars, side), isb)
    if meth == "encode":
        enc = const_str(args[0]) if args else (const_str(kwargs["encoding"]) if "encoding" in kwargs else "utf-8")
        if enc is None:
            # symbolic charset: result is an uninterpreted function of (s, charset); may raise
            cs = args[0] if args else kwargs["encoding"]
            # (A-bytes) an unknown codec name is a LookupError; everything else a codec can raise is a ValueError:
            # UnicodeEncodeError, plain UnicodeError (idna, punycode), ValueError for a name with an embedded NUL
            ev.require(ufunc("codec_known", S, Bz)(cs.t), "LookupError", node)
            ev.require(ufunc("encode_ok", S, S, Bz)(t, cs.t), "ValueError", node)
            return VStr(ufunc("encode_with", S, S, S)(t, cs.t), True)
        encn = enc.lower().replace("_", "-")
        if encn in ("latin-1", "latin1", "iso-8859-1"):
            c = ev.frame.root().contract
            if c is not None and c.check_encode:
                ev.require(z3.InRe(t, LATIN1), "UnicodeEncodeError", node)
            return VStr(t, True, recv.tag)
        if encn == "ascii":
            c = ev.frame.root().contract
            if c is not None and c.check_encode:
                ev.require(z3.InRe(t, ASCII), "UnicodeEncodeError", node)
            return VStr(t, True, recv.tag)
        if encn in ("utf8", "utf-8"):
            s = z3.simplify(t)
            if z3.is_string_value(s):
                return VStr(py_string(s).encode("utf-8"))
            r = ufunc("utf8_encode", S, S)(t)
            st.assume(z3.Length(r) >= z3.Length(t))
            st.assume(z3.Implies(z3.InRe(t, ASCII), r == t))
            return VStr(r, True)
        ev.unsupported(node, "encode(%r)" % enc)
    if meth == "decode":
        enc = const_str(args[0]) if args else (const_str(kwargs["encoding"]) if "encoding" in kwargs else "utf-8")
        if enc is None:
            cs = args[0] if args else kwargs["encoding"]
            ok = ufunc("decode_ok", S, S, Bz)(t, cs.t)
            known = ufunc("codec_known", S, Bz)(cs.t)
            ev.require(known, "LookupError", node)
            # (A-bytes) not only UnicodeDecodeError: punycode / idna raise a plain UnicodeError, a codec name with an embedded
            # NUL a plain ValueError - a handler has to catch ValueError to catch them all
            ev.require(ok, "ValueError", node)
            return VStr(ufunc("decode_with", S, S, S)(t, cs.t), False)
        encn = enc.lower().replace("_", "-")
        if encn in ("latin-1", "latin1", "iso-8859-1"):
            return VStr(t, False, recv.tag)
        if encn in ("utf8", "utf-8", "ascii"):
            ok = z3.InRe(t, ASCII) if encn == "ascii" else ufunc("utf8_ok", S, Bz)(t)
            if encn != "ascii":
                st.assume(z3.Implies(z3.InRe(t, ASCII), ok))
            ev.require(ok, "UnicodeDecodeError", node)
            r = ufunc("utf8_decode", S, S)(t)
            st.assume(z3.Implies(z3.InRe(t, ASCII), r == t))
            return VStr(r if encn != "ascii" else t, False)
        ev.unsupported(node, "decode(%r)" % enc)
    if meth == "split" or meth == "rsplit":
        sep = args[0] if args else None
        maxsplit = None
        if len(args) > 1:
            maxsplit = args[1]
        if "maxsplit" in kwargs:
            maxsplit = kwargs["maxsplit"]
        if sep is None or isinstance(sep, VNone):
            ev.unsupported(node, "split() on whitespace")
        if maxsplit is not None:
            ms = z3.simplify(maxsplit.t)
            if not (z3.is_int_value(ms) and ms.as_long() == 1):
                ev.unsupported(node, "split with maxsplit != 1")
            has = z3.Contains(t, sep.t)
            if ev.pure:
                ev.unsupported(node, "split(sep, 1) in a pure context")
            if st.decide(has):
                if meth == "split":
                    i = z3.IndexOf(t, sep.t, 0)
                else:
                    i = ufunc("last_index_of", S, S, I)(t, sep.t)
                    st.assume(z3.And(i >= 0, i + z3.Length(sep.t) <= z3.Length(t),
                                     z3.SubString(t, i, z3.Length(sep.t)) == sep.t,
                                     z3.Not(z3.Contains(z3.SubString(t, i + 1, z3.Length(t)), sep.t))))
                a = z3.SubString(t, 0, i)
                b = z3.SubString(t, i + z3.Length(sep.t), z3.Length(t))
                return ev.list_from_values([VStr(a, isb), VStr(b, isb)])
            return ev.list_from_values([recv])
        from . import stubs
        return stubs.split_all(ev, recv, sep, node)
    if meth == "partition" or meth == "rpartition":
        sep = args[0]
        has = z3.Contains(t, sep.t)
        if meth == "partition":
            i = z3.IndexOf(t, sep.t, 0)
        else:
            i = ufunc("last_index_of", S, S, I)(t, sep.t)
            st.assume(z3.Implies(has, z3.And(i >= 0, i + z3.Length(sep.t) <= z3.Length(t),
                                             z3.SubString(t, i, z3.Length(sep.t)) == sep.t,
                                             z3.Not(z3.Contains(z3.SubString(t, i + 1, z3.Length(t)), sep.t)))))
        a = z3.SubString(t, 0, i)
        b = z3.SubString(t, i + z3.Length(sep.t), z3.Length(t))
        e = z3.StringVal("")
        if meth == "partition":
            return VTuple([VStr(z3.If(has, a, t), isb), VStr(z3.If(has, sep.t, e), isb), VStr(z3.If(has, b, e), isb)])
        return VTuple([VStr(z3.If(has, a, e), isb), VStr(z3.If(has, sep.t, e), isb), VStr(z3.If(has, b, t), isb)])
    if meth == "find":
        start = args[1].t if len(args) > 1 else z3.IntVal(0)
        return VInt(z3.IndexOf(t, args[0].t, start))
    if meth == "replace":
        s = z3.simplify(t)
        a0, a1 = const_str(args[0]), const_str(args[1])
        if z3.is_string_value(s) and a0 is not None and a1 is not None:
            return VStr(py_string(s).replace(a0, a1), isb)
        return VStr(ufunc("replace_all", S, S, S, S)(t, args[0].t, args[1].t), isb)
    if meth == "join":
        items = ev.iter_concrete(args[0], node) if not isinstance(args[0], VFunc) else None
        if items is None:
            ev.unsupported(node, "join over a generator / symbolic list")
        parts = []
        for i, it in enumerate(items):
            if i:
                parts.append(t)
            parts.append(it.t)
        if not parts:
            return VStr("", isb)
        return VStr(z3.Concat(*parts) if len(parts) > 1 else parts[0], isb)
    if meth == "translate":
        return VStr(ufunc("translate_with", S, S)(t), isb)
    if meth == "splitlines":
        from . import stubs
        return stubs.splitlines(ev, recv, node)
    if meth == "count":
        return VInt(ufunc("str_count", S, S, I)(t, args[0].t))
    if meth == "__len__":
        return VInt(z3.Length(t))
    ev.unsupported(node, "str method %s" % meth)


# --------------------------------------------------------------------------- list
def list_method(ev, ref, o, meth, args, kwargs, node):
    st = ev.st
    if meth in ("append", "insert", "extend", "clear", "pop") and o.immutable:
        ev.require(False, "AttributeError", node)
    if meth == "append":
        ev.list_append(o, args[0])
        return NONE
    if meth == "insert":
        p = args[0].t
        p = z3.If(p < 0, z3.If(o.length + p < 0, 0, o.length + p), z3.If(p > o.length, o.length, p))
        ev.list_insert(o, z3.simplify(p), args[1])
        return NONE
    if meth == "clear":
        o.length = z3.IntVal(0)
        return NONE
    if meth == "extend":
        other = to_list(ev, args[0], node)
        r = list_concat(ev, ref, other)
        ro = st.obj(r)
        o.length, o.cols, o.etype = ro.length, ro.cols, ro.etype
        return NONE
    if meth == "copy":
        return st.alloc(ListObj(o.length, o.cols, o.etype))
    if meth == "pop" and not args:
        ev.require(o.length > 0, "IndexError", node)
        v = ev.list_get(o, o.length - 1)
        o.length = o.length - 1
        return v
    if meth == "__iter__":
        return ref
    if meth == "__len__":
        return VInt(o.length)
    ev.unsupported(node, "list method %s" % meth)


# --------------------------------------------------------------------------- concrete-key dict
def dict_method(ev, ref, o, meth, args, kwargs, node):
    st = ev.st
    if meth == "get":
        k = const_str(args[0])
        default = args[1] if len(args) > 1 else NONE
        if k is None:
            ev.unsupported(node, "dict.get with symbolic key")
        undeclared_read(ev, o, k, node)
        if k not in o.items or o.items[k] is ABSENT:
            return default
        v = o.items[k]
        if isinstance(v, Maybe):
            if ev.pure or getattr(st.run, "lazy_opt", False):
                return ev.ite(v.present, v.value, default)
            return v.value if st.decide(v.present) else default
        return v
    if meth == "items":
        out = []
        for k, v in o.items.items():
            if v is ABSENT or isinstance(v, Maybe):
                ev.unsupported(node, ".items() of a dict with optional entries")
            out.append(VTuple([VStr(k), v]))
        return VTuple(out)
    if meth == "keys":
        return VTuple([VStr(k) for k in o.items])
    if meth == "values":
        return VTuple(list(o.items.values()))
    if meth == "update":
        if args:
            src = st.obj(args[0])
            if not isinstance(src, DictObj):
                ev.unsupported(node, "dict.update(non-concrete)")
            o.items.update(src.items)
        o.items.update(kwargs)
        return NONE
    if meth == "pop":
        k = const_str(args[0])
        if k is None:
            ev.unsupported(node, "dict.pop with symbolic key")
        if k in o.items and o.items[k] is not ABSENT:
            v = o.items[k]
            if isinstance(v, Maybe):
                if len(args) > 1 and getattr(st.run, "lazy_opt", False):
                    del o.items[k]
                    return ev.ite(v.present, v.value, args[1])
                if st.decide(v.present):
                    del o.items[k]
                    return v.value
                del o.items[k]
                if len(args) > 1:
                    return args[1]
                ev.require(False, "KeyError", node)
            del o.items[k]
            return v
        if len(args) > 1:
            return args[1]
        ev.require(False, "KeyError", node)
        raise Unsupported("unconditional failure in a pure context: pop of a missing key")
    if meth == "copy":
        return st.alloc(DictObj(o.items))
    if meth == "setdefault":
        k = const_str(args[0])
        if k is not None and k in o.items and not isinstance(o.items[k], Maybe) and o.items[k] is not ABSENT:
            return o.items[k]
        if k is not None and k not in o.items:
            o.items[k] = args[1] if len(args) > 1 else NONE
            return o.items[k]
    ev.unsupported(node, "dict method %s" % meth)


def map_method(ev, ref, o, meth, args, kwargs, node):
    if meth == "get":
        kl = unpack(args[0])[0]
        default = args[1] if len(args) > 1 else NONE
        v, _ = pack(o.vtype, [a[kl] for a in o.val])
        if ev.pure:
            return ev.ite(o.has[kl], v, default)
        return v if ev.st.decide(o.has[kl]) else default
    if meth == "pop":
        # d.pop(k[, default]): the value (or the default / KeyError) and the key is gone afterwards
        kl = unpack(args[0])[0]
        v, _ = pack(o.vtype, [a[kl] for a in o.val])
        present = o.has[kl]
        if len(args) > 1:
            if ev.pure:
                ev.unsupported(node, "dict.pop in a pure context")
            res = v if ev.st.decide(present) else args[1]
        else:
            ev.require(present, "KeyError", node)
            res = v
        o.has = z3.Store(o.has, kl, z3.BoolVal(False))
        return res
    if meth == "__iter__" or meth == "__len__":
        ev.unsupported(node, "iteration / len of a symbolic map")
    ev.unsupported(node, "map method %s" % meth)
