"""Contracts, the registry, spec-expression evaluation and contract application at call sites."""
from __future__ import annotations

import ast
import re as _re

import z3

from . import source
from .engine import (Ev, Frame, PathEnd, PyRaise, State, Unsupported, dotted, is_subclass, mk_quant)
from .values import *  # noqa


class Contract:
    def __init__(self, id, file, qualname, props=(), params=None, ghosts=None, requires=(), returns=None,
                 ensures=None, raises=None, raises_ensures=None, invariants=None, variants=None,
                 modifies=(), stubs=None, stub_methods=None, defs=None, ufuncs=None, axioms=(), canaries=None,
                 on_yield=None, on_yield_from=None, yield_mods=(), setup=None, locals=None, consts=None,
                 assumptions=(), loop_modifies=None, check_encode=False, replay=None, generator=False,
                 ghost_modifies=(), pure=False, notes="", bodyless=False, lemmas=None, cls=None, aux_ensures=None, aux_invariants=None, char_hints=None,
                 timeout_ms=None, frame_check=True, inline=False, forall_ghosts=(), watch_extra=None,
                 model_to_inputs=None, native=None, cuts=None, defaults=None, init_fields=None, volatile=(), local_raises=(),
                 lazy_opt=False, applies=None, inline_callees=(), post_vars=(), stmt_hooks=()):
        self.id = id
        self.file = file
        self.qualname = qualname
        self.props = list(props)
        self.params = params or {}
        self.ghosts = ghosts or {}
        self.requires = list(requires)
        self.returns = returns
        self.ensures = ensures or {}
        self.raises = raises or {}
        self.raises_ensures = raises_ensures or {}
        self.invariants = invariants or {}
        self.variants = variants or {}
        self.modifies = list(modifies)
        self.ghost_modifies = list(ghost_modifies)
        self.stubs = stubs or {}
        self.stub_methods = stub_methods or {}
        self.defs = defs or {}
        self.ufuncs = ufuncs or {}
        self.lazy_opt = lazy_opt
        self.applies = applies
        self.post_vars = tuple(post_vars)
        self.stmt_hooks = list(stmt_hooks)
        self.inline_callees = tuple(inline_callees)
        self.axioms = list(axioms)
        self.canaries = canaries or {}
        self.on_yield = on_yield
        self.on_yield_from = on_yield_from
        self.yield_mods = yield_mods
        self.setup = setup
        self.locals = locals or {}
        self.consts = consts or {}
        self.assumptions = list(assumptions)
        self.loop_modifies = loop_modifies or {}
        self.check_encode = check_encode
        self.replay = replay
        self.generator = generator
        self.pure = pure
        self.notes = notes
        self.bodyless = bodyless   # an assumed contract (no body is verified): external / trusted
        self.lemmas = lemmas or {}
        # facts that only few obligations need (e.g. where CR/LF in a stored header can come from): they are proved like any
        # other clause, but at a call site / loop head every obligation is first tried without them
        self.char_hints = tuple(char_hints or ())     # see Ev.e_JoinedStr
        self.aux_ensures = set(aux_ensures or ())
        self.aux_invariants = {k: set(v) for k, v in (aux_invariants or {}).items()}
        self.cls = cls
        self.timeout_ms = timeout_ms
        self.frame_check = frame_check
        self.inline = inline
        self.forall_ghosts = list(forall_ghosts)
        self.watch_extra = watch_extra
        self.cuts = cuts or {}
        self.defaults = defaults or {}
        self.local_raises = list(local_raises)   # exception classes that the function catches itself (try/except around pure contexts)
        self.volatile = list(volatile)   # fields another task may change at any await: havocked at every loop head
        self.init_fields = init_fields or {}   # constructor contracts: fields created on self at a call site
        self.model_to_inputs = model_to_inputs   # model dict -> inputs of the native replay driver
        self.native = native                     # (native module, function) used to replay
        self.defs_parsed = {}
        for sig, body in self.defs.items():
            m = _re.match(r"\s*(\w+)\s*\((.*)\)\s*$", sig)
            name = m.group(1)
            ps = [p.strip() for p in m.group(2).split(",") if p.strip()]
            self.defs_parsed[name] = (ps, ast.parse(body.strip(), mode="eval").body)

    # ---- lookup helpers used by the engine
    def find_stub(self, dotted_name):
        if dotted_name in self.stubs:
            return self.stubs[dotted_name]
        return None

    def find_stub_method(self, cls, meth):
        return self.stub_methods.get((cls, meth))

    def allows_raise(self, exc):
        return any(is_subclass(exc, e) for e in self.raises) or any(is_subclass(exc, e) for e in self.local_raises)

    def apply_def(self, ev, node):
        name = node.func.id
        ps, body = self.defs_parsed[name]
        args = []
        for a in node.args:
            if isinstance(a, ast.Starred):
                args.extend(ev.iter_concrete(ev.expr(a.value), a))
            else:
                args.append(ev.expr_keep(a))
        if len(args) != len(ps):
            raise Unsupported("spec function %s: arity" % name)
        sub = ev.sub()
        sub.bound.update(dict(zip(ps, args)))
        return sub.expr_keep(body)

    def apply_ufunc(self, ev, node):
        name = node.func.id
        argts, rett = self.ufuncs[name]
        args = [ev.expr(a) for a in node.args]
        sorts = []
        leaves = []
        for t, a in zip(argts, args):
            sorts += leaf_sorts(t)
            leaves += unpack(a)
        rs = leaf_sorts(rett)
        outs = []
        for i, r in enumerate(rs):
            f = z3.Function("%s%s" % (name, "" if len(rs) == 1 else ".%d" % i), *(sorts + [r]))
            outs.append(f(*leaves))
        v, _ = pack(rett, outs)
        return v


# --------------------------------------------------------------------------- spec functions
def _quant(kind):
    def f(ev, node):
        # forall(k, lo, hi, body)  |  forall(k, body)   -- k an int;  forall((k, Str), body) for strings
        a = node.args
        var = a[0]
        sort = z3.IntSort()
        if isinstance(var, ast.Tuple):
            tname = var.elts[1].id
            var = var.elts[0]
            sort = z3.IntSort() if tname == "Int" else (z3.StringSort() if tname == "Str" else opaque_sort(tname))
            vt = Int if tname == "Int" else (Str if tname == "Str" else TOpaque(tname))
        else:
            vt = Int
        name = var.id
        k = z3.Const(ev.st.run.fresh_name("q_" + name), sort)
        sub = ev.sub()
        kv, _ = pack(vt, [k])
        sub.bound[name] = kv
        if len(a) == 4:
            lo = sub.expr(a[1]).t
            hi = sub.expr(a[2]).t
            los, his = z3.simplify(lo), z3.simplify(hi)
            if z3.is_int_value(los) and z3.is_int_value(his) and his.as_long() - los.as_long() <= 24:
                # concrete bounds: expand (keeps bounded-refutation queries quantifier-free)
                parts = []
                for i in range(los.as_long(), his.as_long()):
                    sub.bound[name] = VInt(i)
                    parts.append(sub.truth(sub.expr(a[3])))
                return VBool((z3.And if kind == "forall" else z3.Or)(parts + [z3.BoolVal(kind == "forall")]))
            body = sub.truth(sub.expr(a[3]))
            rng = z3.And(lo <= k, k < hi)
            return VBool(mk_quant(kind, [k], z3.Implies(rng, body) if kind == "forall" else z3.And(rng, body)))
        body = sub.truth(sub.expr(a[1]))
        return VBool(mk_quant(kind, [k], body))
    return f


def _implies(ev, node):
    a = ev.cond(node.args[0])
    if z3.is_false(z3.simplify(a)):
        return VBool(True)
    ev.guards.append(a)
    try:
        b = ev.truth(ev.expr(node.args[1]))
    finally:
        ev.guards.pop()
    return VBool(z3.Implies(a, b))


def _iff(ev, node):
    return VBool(ev.truth(ev.expr(node.args[0])) == ev.truth(ev.expr(node.args[1])))


def _old(ev, node):
    st = ev.st
    fr = ev.frame.root()
    if st.old_heap is None:
        raise Unsupported("old() outside a contract")
    saved_heap, saved_ghost = st.heap, st.ghost
    st.heap = st.old_heap
    st.ghost = st.old_ghost
    sub = ev.sub()
    if fr.old_env is not None:
        sub = ev.sub(frame=Frame(fr.contract, fr.relpath, fr.clsname, dict(fr.old_env), fn=fr.fn))
        sub.bound = dict(ev.bound)
    try:
        v = sub.expr_keep(node.args[0])
        old_heap = st.heap
    finally:
        st.heap, st.ghost = saved_heap, saved_ghost
    return _materialise_old(st, old_heap, v, 0)


def _materialise_old(st, old_heap, v, depth):
    """a reference computed in the old heap must keep denoting the OLD object: copy it into the current heap"""
    if not isinstance(v, VRef) or depth > 3:
        return v
    o = old_heap.get(v.oid)
    if o is None:
        return v
    c = o.copy()
    if isinstance(c, Obj):
        c.fields = {k: _materialise_old(st, old_heap, f, depth + 1) for k, f in c.fields.items()}
    elif isinstance(c, DictObj):
        c.items = {k: (_materialise_old(st, old_heap, f, depth + 1) if isinstance(f, V) else f) for k, f in c.items.items()}
    elif isinstance(c, ListObj):
        c.immutable = True
    return st.alloc(c)


def _ite(ev, node):
    c = ev.truth(ev.expr(node.args[0]))
    return ev.ite(c, ev.expr_keep(node.args[1]), ev.expr_keep(node.args[2]))


def _inre(ev, node):
    from .regex import to_z3
    s = ev.expr(node.args[0])
    pat = node.args[1].value
    return VBool(z3.InRe(s.t, to_z3(pat)))


def _has(ev, node):
    from .builtins import contains
    return VBool(contains(ev, ev.expr(node.args[0]), ev.expr(node.args[1]), node))


def _lower(ev, node):
    from .builtins import str_lower
    return VStr(str_lower(ev, ev.expr(node.args[0]).t))


def _sum_upto(ev, node):
    from .sums import sum_gen
    k = ev.expr(node.args[0])
    g = ev.expr(node.args[1])
    return sum_gen(ev, g, k.t, node)


def _is_none(ev, node):
    v = ev.expr_keep(node.args[0])
    if isinstance(v, VOpt):
        return VBool(v.n)
    return VBool(isinstance(v, VNone))


def _raised(ev, node):
    # only meaningful inside raises_ensures
    return ev.lookup("exc", node)


SPEC_FUNCS = {"forall": _quant("forall"), "exists": _quant("exists"), "implies": _implies, "iff": _iff,
              "old": _old, "ite": _ite, "inre": _inre, "has": _has, "lower": _lower, "sum_upto": _sum_upto,
              "is_none": _is_none}


_parsed = {}


def spec_eval(ev, text, extra=None, frame=None):
    """evaluate a spec expression (string) to a z3 Bool in the current state"""
    if text not in _parsed:
        _parsed[text] = ast.parse(text.strip(), mode="eval").body
    sub = ev.sub(pure=True, spec=True, frame=frame)
    sub.bound.update(ev.frame.root().loop_vars)
    if extra:
        sub.bound.update(extra)
    v = sub.expr(_parsed[text])
    return sub.truth(v)


def spec_value(ev, text, extra=None, frame=None):
    if text not in _parsed:
        _parsed[text] = ast.parse(text.strip(), mode="eval").body
    sub = ev.sub(pure=True, spec=True, frame=frame)
    if extra:
        sub.bound.update(extra)
    return sub.expr(_parsed[text])


# --------------------------------------------------------------------------- path resolution / havoc
def resolve_path(ev, env, path):
    """'self.headers._dict' -> (container heap object or None, key, current value)"""
    parts = path.split(".")
    cur = env.get(parts[0])
    if cur is None:
        cur = ev.st.ghost.get(parts[0])
    if cur is None:
        raise Unsupported("modifies path %s: unknown root" % path)
    parent = None
    for p in parts[1:]:
        if not isinstance(cur, VRef):
            raise Unsupported("modifies path %s: %s is not an object" % (path, p))
        o = ev.st.obj(cur)
        parent = (o, p)
        if isinstance(o, Obj):
            cur = o.fields.get(p)
        elif isinstance(o, DictObj):
            cur = o.items.get(p)
        else:
            raise Unsupported("modifies path %s" % path)
        if cur is None:
            raise Unsupported("modifies path %s: no field %s" % (path, p))
    return parent, cur


def havoc_path(ev, env, path, prefix, types=None):
    st = ev.st
    parent, cur = resolve_path(ev, env, path)
    declared = (types or {}).get(path)
    if isinstance(cur, VRef) and declared is None:
        st.havoc_obj(cur, prefix)
        return
    nv = st.havoc_value(cur, prefix, declared)
    if parent is None:
        root = path
        if root in env:
            env[root] = nv
        else:
            st.ghost[root] = nv
    else:
        o, key = parent
        if isinstance(o, Obj):
            o.fields[key] = nv
        else:
            o.items[key] = nv


# --------------------------------------------------------------------------- contract application
def bind_contract_args(ev, contract, args, kwargs, node):
    fdef = source.find_def(contract.file, contract.qualname) if not contract.bodyless else None
    if fdef is not None:
        from .builtins import bind_params
        defaults_frame = Frame(contract, contract.file, contract.cls, {})
        dev = Ev(ev.st, defaults_frame, ev.registry, pure=True)
        return bind_params(ev, fdef.args, args, kwargs, node, defaults_ev=dev)
    names = list(contract.params)
    env = dict(zip(names, args))
    env.update(kwargs)
    for k, v in contract.defaults.items():
        env.setdefault(k, v)
    return env


def apply_contract(ev: Ev, contract: Contract, args, kwargs, node):
    """the call site knows only the contract: requires become obligations, ensures are assumed"""
    st = ev.st
    caller = ev.frame.root().contract
    env = bind_contract_args(ev, contract, args, kwargs, node)
    cframe = Frame(contract, contract.file, contract.cls, env)
    cev = Ev(st, cframe, ev.registry, pure=True)
    cev.spec = True
    for ax in contract.axioms:
        st.assume(spec_eval(cev, ax))
    # requires -> obligations of the caller
    for k, r in enumerate(contract.requires):
        f = spec_eval(cev, r)
        if ev.pure:
            ev.require(f, "ContractPrecondition", node)
        else:
            st.oblige("%s/pre[%s].%d" % (caller.id if caller else "?", contract.id, k + 1), f,
                      note=r, line=getattr(node, "lineno", 0))
            st.assume(f)
    # snapshot for old()
    saved_old = (st.old_heap, getattr(st, "old_ghost", None), cframe.old_env)
    call_old_heap = st.snapshot_heap()
    call_old_ghost = dict(st.ghost)
    cframe.old_env = dict(env)

    def with_old(fn):
        so = (st.old_heap, getattr(st, "old_ghost", None))
        st.old_heap, st.old_ghost = call_old_heap, call_old_ghost
        try:
            return fn()
        finally:
            st.old_heap, st.old_ghost = so

    # outcome
    excs = list(contract.raises.items())
    conds = [z3.BoolVal(True)]
    for exc, cond in excs:
        conds.append(z3.BoolVal(True) if cond in (None, True) else with_old(lambda: spec_eval(cev, cond)))
    if ev.pure:
        if excs:
            # in a pure context the callee must not raise: all raise conditions must be false
            for (exc, cond), c in zip(excs, conds[1:]):
                ev.require(z3.Not(c), exc, node)
        choice = 0
    else:
        choice = st.choose(conds, force_record=len(conds) > 1)
    # frame: havoc what the callee may modify (also on exceptional exit)
    for p in contract.modifies:
        havoc_path(cev, env, p, "%s.%s" % (contract.id, p))
    for g in contract.ghost_modifies:
        if g in st.ghost:
            gv = st.ghost[g]
            if isinstance(gv, VRef):
                st.havoc_obj(gv, "%s.%s" % (contract.id, g))
            else:
                st.ghost[g] = st.havoc_value(gv, "%s.%s" % (contract.id, g))
    if contract.init_fields and "self" in env and isinstance(env["self"], VRef):
        so = st.obj(env["self"])
        for fname, ft in contract.init_fields.items():
            so.fields[fname] = st.fresh(ft, "%s.self.%s" % (contract.id, fname))
    if choice > 0:
        exc, cond = excs[choice - 1]
        payload = st.alloc(Obj(exc, {}))
        xt = contract.raises_ensures.get(exc)
        if xt:
            fields = xt.get("fields", {})
            o = st.obj(payload)
            for fn_, ft in fields.items():
                o.fields[fn_] = st.fresh(ft, "%s.exc.%s" % (contract.id, fn_))
            for text in xt.get("ensures", []):
                st.assume(with_old(lambda: spec_eval(cev, text, {"exc": payload})))
        raise PyRaise(exc, payload, getattr(node, "lineno", 0))
    if callable(contract.returns):
        result = contract.returns(ev, env)
    elif contract.returns is not None:
        result = st.fresh(contract.returns, contract.id + ".result")
    else:
        result = NONE
    for name, text in contract.ensures.items():
        extra = {"result": result}
        qvars = []
        for g in contract.forall_ghosts:
            if _re.search(r"\b%s\b" % g, text) or any(_re.search(r"\b%s\b" % g, ast.unparse(b)) for _, b in contract.defs_parsed.values()):
                gv = st.fresh(contract.ghosts[g], "%s.%s" % (contract.id, g))
                extra[g] = gv
                qvars.extend(unpack(gv))
        f = with_old(lambda: spec_eval(cev, text, extra))
        st.assume(mk_quant("forall", qvars, f) if qvars else f, aux="traces" if name in contract.aux_ensures else False)
    return result


# --------------------------------------------------------------------------- registry
class Registry:
    def __init__(self):
        self.by_id = {}
        self.by_key = {}
        self.opaque_truth = {}
        self._opaque_attr = {}
        self._opaque_method = {}
        self._opaque_call = {}
        self._opaque_index = {}
        self._iter_models = {}
        self._str_models = {}
        self._truth_models = {}
        self._ctor_models = {}
        self._mixins = {}
        self._slice_models = {}
        self._attr_models = {}
        self._await_models = {}
        self.isinstance_model = None
        self.hasattr_model = None
        self._compare_models = []
        self._delslice = None

    def add(self, c: Contract):
        if c.id in self.by_id:
            raise ValueError("duplicate contract id " + c.id)
        self.by_id[c.id] = c
        self.by_key.setdefault((c.file, c.qualname), []).append(c)
        if c.cls is None and "." in c.qualname:
            c.cls = c.qualname.split(".")[0]
        return c

    def contract_for(self, rel, qualname, recv_cls=None):
        cs = self.by_key.get((rel, qualname))
        if not cs:
            return None
        if len(cs) > 1 and recv_cls is not None:
            for c in cs:
                if getattr(c, "recv_cls", None) == recv_cls:
                    return c
        return cs[0]

    def call_repo(self, ev, rel, qualname, args, kwargs, node, recv_cls=None):
        c = self.contract_for(rel, qualname, recv_cls)
        cs = self.by_key.get((rel, qualname)) or []
        if len(cs) > 1 and any(getattr(x, "applies", None) for x in cs):
            # several contracts for one function, told apart by the shape of the arguments (e.g. a constructor given
            # a pair list or a mapping): the first one whose `applies` accepts the call
            for x in cs:
                ap = getattr(x, "applies", None)
                if ap is not None and ap(ev, args, kwargs):
                    c = x
                    break
            else:
                c = next((x for x in cs if getattr(x, "applies", None) is None), c)
        caller = ev.frame.root().contract
        if c is not None and not c.inline and caller is not None and c.id in getattr(caller, "inline_callees", ()):
            fdef = source.find_def(rel, qualname)
            return inline_call(ev, c, fdef, args, kwargs, node, caller_first=True)
        if c is None:
            # a repository function without a contract (e.g. a helper a refactoring has just extracted): its body is executed
            # at the call site, in the caller's model - exact, so never a source of alarms; what the executor cannot handle in
            # it (a loop without invariant, an unsupported construct) leaves the path undecided as before
            fdef = source.find_def(rel, qualname)
            depth = ev.st.run.counters.get(("auto-inline", "depth"), 0)
            if fdef is None or ev.pure or depth >= 6 or any(isinstance(n_, (ast.Yield, ast.YieldFrom)) for n_ in ast.walk(fdef)):
                raise Unsupported("%s (line %s): call of %s:%s which has no contract" % (
                    ev.frame.relpath, getattr(node, "lineno", 0), rel, qualname))
            cls_name = qualname.rsplit(".", 1)[0] if "." in qualname else None
            auto = Contract(id="auto-inlined:%s:%s" % (rel, qualname), file=rel, qualname=qualname, inline=True, cls=cls_name,
                            notes="no contract: executed inline at its call sites")
            AUTO_INLINED.add(auto.id)
            ev.st.run.counters[("auto-inline", "depth")] = depth + 1
            try:
                return inline_call(ev, auto, fdef, args, kwargs, node, caller_first=True)
            finally:
                ev.st.run.counters[("auto-inline", "depth")] = depth
        fdef = source.find_def(rel, qualname)
        if c.inline:
            return inline_call(ev, c, fdef, args, kwargs, node)
        return apply_contract(ev, c, args, kwargs, node)

    # hooks (set by contract modules)
    def truth_model(self, cls):
        return self._truth_models.get(cls)

    def iter_model(self, cls):
        return self._iter_models.get(cls)

    def str_model(self, cls):
        return self._str_models.get(cls)

    def ctor_model(self, name):
        return self._ctor_models.get(name)

    def slice_model(self, cls):
        return self._slice_models.get(cls)

    def opaque_attr(self, sort, attr):
        return self._opaque_attr.get((sort, attr))

    def opaque_method(self, sort, meth):
        return self._opaque_method.get((sort, meth))

    def opaque_call(self, sort):
        return self._opaque_call.get(sort)

    def opaque_index(self, sort):
        return self._opaque_index.get(sort)

    def compare_model(self, a, b, op):
        for m in self._compare_models:
            r = m(a, b, op)
            if r is not None:
                return r
        return None

    def delslice_model(self, ev, base):
        return self._delslice

    def mixin_method(self, ev, recv, o, meth):
        return self._mixins.get((o.cls.split(":")[-1], meth)) or self._mixins.get(("*", meth))

    def resolve_attr(self, ev, ref, o, attr, node):
        am = self._attr_models.get((o.cls.split(":")[-1], attr))
        if am is not None:
            return am(ev, ref)
        if ":" not in o.cls:
            return None
        rel, cn = o.cls.split(":")
        r = source.find_method(rel, cn, attr)
        if r is not None:
            fdef = r[2]
            decos = [dotted(x) for x in fdef.decorator_list]
            if "property" in decos or "cached_property" in decos:
                return self.call_repo(ev, r[0], r[1], [ref], {}, node)
            return VFunc("method", (r[0], r[1], ref, VClass(o.cls)), attr)
        ca = source.class_attr(rel, cn, attr)
        if ca is not None:
            fr = Frame(ev.frame.root().contract, ca[0], cn, {})
            e2 = Ev(ev.st, fr, self, pure=True)
            e2.spec = True
            return e2.expr(ca[1])
        return None

    def method_effects(self, ev, recv, meth):
        """(heap objects, ghost names) a method call may modify; None = unknown"""
        o = ev.st.obj(recv)
        c0 = ev.frame.root().contract
        sm = c0.find_stub_method(o.cls, meth) if c0 is not None else None
        if sm is None:
            from . import stubs
            sm = stubs.STUB_METHODS.get((o.cls, meth))
        if sm is not None:
            objs = [recv] if getattr(sm, "mutates_recv", True) else []
            return objs, set(getattr(sm, "mods", ()) or ())
        if ":" not in o.cls:
            return None
        rel, cn = o.cls.split(":")
        r = source.find_method(rel, cn, meth)
        if r is None:
            return None
        c = self.contract_for(r[0], r[1])
        if c is None:
            return None
        objs = []
        env = {"self": recv}
        for p in c.modifies:
            if p.split(".")[0] != "self":
                return None
            try:
                parent, cur = resolve_path(ev, env, p)
            except Unsupported:
                return None
            if isinstance(cur, VRef):
                objs.append(cur)
            elif parent is not None:
                objs.append(("field", parent[0], parent[1]))   # a single primitive field of an object
            else:
                objs.append(recv)
        return objs, set(c.ghost_modifies)

    def function_effects(self, ev, fv):
        rel, name = fv.data
        c = self.contract_for(rel, name)
        if c is None:
            return None
        return [], set(c.ghost_modifies)


AUTO_INLINED = set()


def inline_call(ev, c, fdef, args, kwargs, node, caller_first=False):
    """small helper functions (exception constructors, one-line wrappers) may be declared inline=True: the
    body is executed at the call site instead of being summarised.  Listed in the evidence."""
    from .builtins import bind_params
    if ev.pure:
        raise Unsupported("inline call in a pure context")
    defaults_frame = Frame(c, c.file, c.cls, {})
    dev = Ev(ev.st, defaults_frame, ev.registry, pure=True)
    env = bind_params(ev, fdef.args, args, kwargs, node, defaults_ev=dev)
    nf = Frame(InlineView(c, ev.frame.root().contract, caller_first), c.file, c.cls, env, parent=None, fn=fdef)
    nf.top = False
    nf.caller = ev.frame.root()
    nf.loop_vars = nf.caller.loop_vars
    sub = Ev(ev.st, nf, ev.registry)
    from .engine import _Return
    try:
        sub.block(fdef.body)
    except _Return as r:
        return r.value
    return NONE


class InlineView:
    """contract view used while executing an inlined callee: stubs/hooks of the callee first, then the caller's"""

    def __init__(self, callee, caller, caller_first=False):
        self._callee = callee
        self._caller = caller
        self._caller_first = caller_first     # a callee inlined on the caller's request runs in the caller's model

    def __getattr__(self, name):
        return getattr(self._caller, name)

    def find_stub(self, d):
        if self._caller_first and self._caller:
            return self._caller.find_stub(d) or self._callee.find_stub(d)
        return self._callee.find_stub(d) or (self._caller.find_stub(d) if self._caller else None)

    def find_stub_method(self, cls, meth):
        if self._caller_first and self._caller:
            return self._caller.find_stub_method(cls, meth) or self._callee.find_stub_method(cls, meth)
        return self._callee.find_stub_method(cls, meth) or (
            self._caller.find_stub_method(cls, meth) if self._caller else None)
