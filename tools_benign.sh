#!/bin/sh
# development helper: every quick check against a scratch copy of /repo with a (behaviour-preserving) patch applied
# usage: tools_benign.sh <patch.diff> [PROP ...]
cd "$(dirname "$0")"
patch=$(realpath "$1"); shift
props="$@"; [ -z "$props" ] && props="C01 C02 C03 C04 C05 C07 C08 C09 C10 C11 C12 C13 C14 C15 C16 C17 C18 C19 C20"
d=$(mktemp -d /tmp/verif_bn_XXXX); cp -r /repo/baize $d/
if ! patch -s -p1 -d $d -i "$patch"; then echo "patch failed"; rm -rf $d; exit 2; fi
for p in $props; do
  VERIF_REPO=$d ./check $p --tier quick > $d/out.txt 2>&1
  grep -E "VIOLATION|UNDECIDED|CHECKER-FAULT" $d/out.txt | cut -c1-330 | head -5
  grep -E "tier=" $d/out.txt | cut -c1-200
done
rm -rf $d
