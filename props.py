"""Per-property configuration of ./check: which contracts, which bounded refuter shapes, which native stand-in."""

PROPS = {
    "C03": dict(
        modules=["common", "c03"],
        contracts=["parse_range"],
        canary_contracts=["parse_range"],
        refute={"quick": [1, 2], "thorough": [0, 1, 2, 3]},
        native="c03",
        level="proof",
        trusted=["A-py-1", "A-solver", "A-pyvc"],
        level_text="Every clause of the property (rejection exact; result non-empty, within [0,size), ascending, disjoint, "
                   "non-adjacent; union == denotation of the specs, for an arbitrary byte position) is a postcondition / "
                   "exceptional postcondition of the real parse_range; the VCs are generated from its AST on every run and "
                   "discharged by z3/cvc5 for all sizes, all spec lists of any length and every loop iteration (merge-loop "
                   "invariant). A bounded symbolic refuter and an exhaustive small-domain run of the real function through "
                   "the regex front end stand beside the proof (labelled bounded).",
        level_note="Trusted: re.findall returns pairs of (possibly empty) decimal numerals (A-re-1); int() on such a numeral of "
                   "<= 4300 digits is its value (A-int-1); sorted() is an ordered permutation (A-sorted); str.split at the first "
                   "'=' (A-split); the VC generator itself (A-pyvc; guarded by canaries, the refuter and mutation runs); solver "
                   "answers (A-solver). The regex front end is covered by the bounded stand-in only. Unicode digits accepted by "
                   "\\d are outside the model.",
        technique="deductive verification: contracts on the real function, VCs from the AST, SMT (z3/cvc5); loop invariant for the merge loop",
        explanation="",
    ),
}

NOT_APPLICABLE = {
    "C06": "quantifies over schedules/interleavings (relay thread vs consumer vs closer, asyncio tasks vs ping timer) and is a "
           "bounded-liveness claim; contracts over a sequential, await-erased semantics cannot express an interleaving and "
           "partial-correctness obligations say nothing about termination (DESIGN.md section 7)",
}
